#!/usr/bin/env python3
"""replay.py <replay file>  -- re-execute a recorded plan in a fresh process
against /repo's current working tree. Exit 1 (and a VIOLATION line) if the
recorded violation class shows again, 0 if the run is clean now, 2 on
machinery failure."""
import json
import os
import sys

sys.path.insert(0, os.path.dirname(os.path.abspath(__file__)))
import simdrv  # noqa: E402
from props import PROPS  # noqa: E402


def main():
    if len(sys.argv) < 2:
        print(__doc__)
        return 2
    path = sys.argv[1]
    with open(path) as f:
        rep = json.load(f)
    prop = rep["property"]
    target = rep.get("target") or PROPS[prop]["target"]
    if target not in simdrv.buildmod.TARGETS:
        print("INFRA: unknown harness %s" % target)
        return 2
    ok, _ = simdrv.buildmod.build([target])
    if not ok:
        print("INFRA: build failed")
        return 2
    exe = os.path.join(simdrv.BIN, target)
    res, err = simdrv.run_plan(exe, rep, trace="--trace" in sys.argv)
    if "--trace" in sys.argv:
        sys.stderr.write(err)
    print(json.dumps(res))
    exp = rep.get("expect", {})
    if res.get("outcome") == "OK":
        print("replay: clean (recorded: %s/%s)" % (exp.get("outcome"), exp.get("oracle")))
        return 0
    same = (res.get("outcome"), res.get("oracle")) == (exp.get("outcome"), exp.get("oracle"))
    print("replay: %s/%s %s" % (res.get("outcome"), res.get("oracle"),
                                "(as recorded, hash %s)" % ("equal" if res.get("hash") == exp.get("hash") else "differs") if same else "(recorded: %s/%s)" % (exp.get("outcome"), exp.get("oracle"))))
    print("VIOLATION property=%s replay=%s" % (prop, os.path.abspath(path)))
    return 1


if __name__ == "__main__":
    sys.exit(main())
