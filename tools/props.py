"""Static description of each claimed property's check."""

STUB_FS = "kernel file system (in-memory simfs behind fopen64/read/write/writev/lseek64/close/rename/unlink/mkdir/stat)"

PROPS = {
    "C19": {
        "target": "c19",
        "tiers": {
            "quick": {"count": 4000000, "budget_s": 30, "workers": 16, "recheck": 200},
            "thorough": {"count": 200000000, "budget_s": 600, "workers": 16, "recheck": 500},
        },
        "describe": {
            "rule": ("one run = one seeded plan: side (read|write), buffer size N from {1,2,3,4,5,7,8,16,31,64,256}, policy, "
                     "up to 60 (quick) / 200 (thorough) get/append/flush operations with lengths 0..N+3 (read) / 0..2N+3 (write); "
                     "every readData()/writeData() call is answered by a plan decision (deliver 1 / n / exactly-needed / max bytes, "
                     "idle delivery of 0 bytes, transient exception; sink accept / throw). Non-trivial: the run reached the source "
                     "or the sink at least once (a refill or a flush happened). Distinct: distinct FNV-1a hashes over the full event "
                     "sequence (operation, lengths, every delivery decision and size)."),
            "sim_time_unit": "none (no clock in this property)",
            "state_measure": "distinct (side, N, fill state of the buffer before the operation, request size class, operation kind) tuples",
            "distinct_measure": "distinct event-sequence hashes of non-trivial runs",
            "components": {
                "real": ["celma::common::ReadBuffer<N,P>", "celma::common::WriteBuffer<N,P>", "ReadCountPolicy/WriteCountPolicy/Empty*Policy"],
                "stub": ["data source (readData) and data sink (writeData): simulated, behind the classes' own pure virtual functions"],
            },
            "assumptions": [
                "the source never signals end-of-stream (no documented behaviour); idle deliveries are finite",
                "a failing source/sink throws before consuming/producing anything in that call",
                "AddressSanitizer + UBSan subset observe every access of instrumented code; buffer sizes are a compiled-in menu",
                "sampling, not enumeration: a clean batch is evidence, not proof",
            ],
        },
    },
    "C20": {
        "target": "c20",
        "tiers": {
            "quick": {"count": 4000000, "budget_s": 40, "workers": 16, "recheck": 50},
            "thorough": {"count": 200000000, "budget_s": 900, "workers": 16, "recheck": 100},
        },
        "describe": {
            "rule": ("one run = one seeded plan: scenario singleton (2..8 threads quick / 2..16 thorough, 1..3 rounds with reset() "
                     "between rounds while all threads are quiescent; fresh threads per round or persistent threads that live across "
                     "reset(); optional start barrier, optionally two singleton types, optionally a constructor that throws on the first "
                     "attempt) or managed thread (0..2 observer threads, 1..8 queries each, explicit join or join by destructor, function "
                     "with/without arguments, held by a latch or returning at once; the function writes plain result words before it "
                     "returns and whoever saw it started and then gets isActive()==false reads them at once), in half of the singleton "
                     "runs every thread uses its own call form of instance() (int&, int&&, const int&, second constructor, short), plus a schedule: random preemption with "
                     "probability 1/p at every non-stack load/store and synchronisation call (optionally biased to lock/unlock points), "
                     "PCT with 1..3 priority change points, round-robin with random quantum, child-first/parent-first bias at "
                     "pthread_create. Non-trivial: at least one preemption or one wait for a mutex happened. Distinct: distinct "
                     "hashes over the executed context-switch sequence (thread, local point index, successor, point kind) and the "
                     "observations of the run."),
            "sim_time_unit": "scheduler steps (schedule points executed); no wall-clock time passes inside a run",
            "state_measure": "distinct (scenario, number of threads, maximal number of threads simultaneously inside instance()) tuples",
            "distinct_measure": "distinct context-switch sequences (hash over (thread, local point, successor, kind) of every switch)",
            "components": {
                "real": ["celma::common::Singleton<T>", "celma::common::ManagedThread", "libstdc++ std::thread, std::mutex, std::atomic",
                         "ThreadSanitizer (clang 14) inside every run"],
                "stub": ["OS thread scheduler: replaced by the baton scheduler (sim/sched.cpp) over real pthreads; "
                         "pthread_create/join, mutexes, reader/writer locks, condition variables, pthread_once, guards of function-local statics, sched_yield, the sleep family and clock_gettime (simulated clock) are interposed"],
            },
            "assumptions": [
                "only sequentially consistent interleavings of instrumented accesses are executed; weak-memory effects are covered through ThreadSanitizer's happens-before analysis only",
                "preemption is possible at every load/store of non-stack memory and every synchronisation call of instrumented code (Celma headers + harness), not inside libstdc++.so/libc",
                "reset() racing with instance() is not generated (outside the property)",
                "the harness' own probes use relaxed atomics so that they add no happens-before edge; started/finished flags of the managed-thread scenario are seq_cst by design (they are the observation the property speaks about)",
                "sampling, not enumeration",
            ],
        },
    },
    "C15": {
        "target": "c15",
        # second harness of the same property: several threads through one
        # files::Handler< P, std::mutex> under the thread scheduler
        "extra_targets": [{"target": "c15mt", "share": 0.3}],
        "tiers": {
            "quick": {"count": 4000000, "budget_s": 40, "workers": 16, "recheck": 100},
            "thorough": {"count": 200000000, "budget_s": 1200, "workers": 16, "recheck": 200},
        },
        "describe": {
            "rule": ("one run = one seeded history: policy Counted(limit 1..5 entries) or MaxSize(limit 8..64 bytes), 1..4 generations "
                     "(1 run in 10: 9..12 generations with number width 1 and tiny limits), file-name definition variants (fixed width "
                     "numbers, extension, path_sep, environment variable part, date part with a forward-moving clock = one series of "
                     "generations per date, directory pre-existing or created by the policy), policy used directly or through the "
                     "files::Handler<P> wrapper, up to 24 (quick) / 40 (thorough) operations write(len 1..24, 1 run in 8 with entries of "
                     "1000..2600 bytes, in a third of the fault-free runs also entries without visible text) / clean restart / clock step, each optionally carrying one fault: process crash at the n-th "
                     "file-system call (incl. a torn write), short write, EINTR, an open that fails once; 30% of runs fault-free, 30% "
                     "crash-only. After every operation the simulated disk is compared with the reference model (step relation, limits, "
                     "content/order/holes); after the last operation a fresh process must re-open and roll twice. Non-trivial: at least "
                     "one roll-over or (re)start/crash recovery happened. Distinct: distinct hashes over every simulated file-system "
                     "call and its result plus the operation log. Second harness (c15mt, 30% of the budget): 2..5 threads write 1..5 "
                     "unique messages each through one files::Handler<P, std::mutex> per round, 1..3 rounds with a clean restart between "
                     "them, under the seeded thread scheduler (preemption at every non-stack load/store of the library) with the same "
                     "simulated file system; oracle: every line is one issued message, none twice, file order is a linearisation of the "
                     "calls, loss only of provably-not-newer messages once max_gen files exist, limits, no premature generation, no data "
                     "race (ThreadSanitizer), no deadlock; a third of these runs kill the process at the n-th write call of one round "
                     "(calls that returned before are durable, the next round is the new process); no data "
                     "race (ThreadSanitizer), no deadlock. Non-trivial there: at least one preemption or wait for the handler's lock; "
                     "distinct: context-switch sequence + file-system call sequence."),
            "sim_time_unit": "simulated seconds (clock operations of the plans; the clock is read by the file-name builder only); scheduler steps of the threaded part are in misc.mt_schedule_points",
            "state_measure": "distinct (policy, limit, generations) configurations",
            "distinct_measure": "distinct file-system call sequences (hash over every intercepted call, its arguments and result)",
            "components": {
                "real": ["celma::log::files::Counted, MaxSize, PolicyBase (real std::ofstream / std::ifstream of libstdc++)",
                         "celma::log::filename::Creator, Builder, Definition", "celma::common::FileOperations, FileFuncsOs",
                         "celma::log::detail::LogMsg", "celma::log::files::Handler<P, L> (L = NoLock sequential, std::mutex threaded)",
                         "threaded part: libstdc++ std::thread / std::mutex, ThreadSanitizer (clang 14) inside every run"],
                "stub": [STUB_FS, "wall clock (time/gettimeofday/clock_gettime(CLOCK_REALTIME)), getenv overlay, getpid",
                         "log message formatting: the text is handed to PolicyBase::writeMessage() directly, or through a formatter that writes the text only",
                         "threaded part: OS thread scheduler replaced by the baton scheduler (sim/sched.cpp) over real pthreads"],
            },
            "assumptions": [
                "process crash model, not power loss: a byte is durable once write()/writev() returned it, rename/mkdir/unlink when they return; the library never calls fsync",
                "a crash freezes the disk at the chosen call (optionally after a prefix of that write landed); the dead process' objects are destroyed without reaching the disk; recovery is a new policy object over the surviving files",
                "I/O errors that the library cannot hide (ENOSPC/EIO on write, failing rename/mkdir) are not generated: the property does not speak about what is left behind after them; the corresponding fault kinds therefore show up as never fired",
                "both readings of 'would exceed' at the exact boundary are accepted; a new generation may be started before or after the message that fills the file",
                "sampling, not enumeration",
            ],
        },
    },
    "C07": {
        "target": "c07",
        "tiers": {
            "quick": {"count": 4000000, "budget_s": 40, "workers": 16, "recheck": 100},
            "thorough": {"count": 200000000, "budget_s": 900, "workers": 16, "recheck": 200},
        },
        "describe": {
            "rule": ("one run = one seeded plan: a handler set-up from the recipe menu (flags, scalars, optionals, vectors/sets/deques/lists, value "
                     "callable with inversion and bracket handlers (control characters ! ( ) anywhere incl. at the start of a line), "
                     "map, tuple, bitset, vector<bool>, long-key prefixes, positional; separators, checks, formats, cardinalities, "
                     "constraints drawn per run), an abstract command line built from the recipe's rules and split into consecutive "
                     "parts delivered by the argument file (program-name file under $HOME/.progargs or an argument-file argument), the "
                     "environment variable (default or explicitly named) and argv; every word delivered through file/environment is "
                     "quoted in a random style (backslash, single, double, mixed); comment/empty lines interspersed; an argument file may include "
                     "another one, the environment variable may name the argument file, a free multi-value list may continue on the next "
                     "line or in the next source; file with or without "
                     "final newline; reads chunked to 1..16 bytes, short reads, EINTR. The subject run must equal a reference run that "
                     "gets the same words on argv with the sources switched off (both return with equal destination values, or both "
                     "throw); override cases give a single-value argument or the tuple through a source and again on argv; one run in seven hands the "
                     "whole quoted line to evalArgumentString() instead. Non-trivial: at least "
                     "one word travelled through the file or the environment. Distinct: distinct hashes over rendered sources, both "
                     "outcomes and every simulated file-system call."),
            "sim_time_unit": "none (no clock in this property)",
            "state_measure": "distinct (file delivery, environment delivery, number of sources carrying words) tuples",
            "distinct_measure": "distinct (rendered file, rendered environment value, argv, outcome records, file-system call sequence) hashes",
            "components": {
                "real": ["celma::prog_args::Handler (evalArguments, readEvalFileArguments, checkReadEnvVarArgs, readArgumentFile)",
                         "celma::appl::ArgString2Array / make_arg_array (splitString)", "ArgListParser, TypedArg<...>, checks, formats, constraints",
                         "libstdc++ std::ifstream / std::getline"],
                "stub": [STUB_FS, "environment block (getenv overlay: HOME, the program's variable)"],
            },
            "assumptions": [
                "only benign read behaviour is injected here (chunking, short reads, EINTR, missing final newline): none of them may change a result; read errors belong to C04",
                "cardinality-limited arguments are used at most once over all sources except in explicit override cases (the library ignores cardinality for file/environment words by design)",
                "constructs whose effect ends with the line by design ('--', '!', a key whose value is on the next line) are generated on argv only",
                "the reference is the same real code fed through argv: a defect that affects argv evaluation and source evaluation alike is invisible here",
                "sampling, not enumeration",
            ],
        },
    },
    "C04": {
        "target": "c04",
        "tiers": {
            "quick": {"count": 4000000, "budget_s": 40, "workers": 16, "recheck": 100},
            "thorough": {"count": 200000000, "budget_s": 900, "workers": 16, "recheck": 200},
        },
        "describe": {
            "rule": ("one run = one seeded plan: handler flags (random subset of 17 HandleFlags, always with hfUsageCont), a set-up from the "
                     "recipe menu incl. positional argument, sub-group, range destinations, the dynamic bitset, value callable with inversion and "
                     "bracket handlers, optional argument-file argument and explicitly named "
                     "environment variable; program name of length 0..300 (empty, '/', only slashes, trailing slash, random bytes) or, 1 run "
                     "in 50, no program name at all (argc == 0); up "
                     "to 16 (quick) / 24 (thorough) words from three generators (random bytes 1..255, words made of - = ( ) ! only, "
                     "grammar-aware mutations of a rule-obeying line; string values of 1..12 characters or text blocks with list items and "
                     "words of 40..330 characters), followed by the standard arguments the flags add (-h, --help, --help-arg <key>, "
                     "--help-short/-long, --print-hidden/-deprecated, --list-arg-vars/-groups, --verbose-args, --endvalues); program-name file / argument file present, absent, a directory, "
                     "unreadable, HOME unset, with content from valid lines, mutated lines, random bytes incl. NUL, lines of 1000..4000 "
                     "characters, lines that name an argument file (itself, the other file, a missing file, a directory), with or without "
                     "final newline; environment variable absent, empty, valid or hostile; reads chunked "
                     "to 1..64 bytes, short reads, EINTR, EIO at the n-th read, EACCES/ENOENT/EISDIR at the n-th open. Each evaluation "
                     "runs under ASan + UBSan with a step budget of 3*10^7 control-flow edges; exit()/abort()/assert are trapped. "
                     "Non-trivial: the evaluation opened a source file or read a non-empty environment variable. Distinct: distinct "
                     "hashes over outcome record (return/exception, destination values, output) and every simulated file-system call."),
            "sim_time_unit": "none (no clock in this property)",
            "state_measure": "distinct (program-name file state, environment variable state, outcome class) tuples",
            "distinct_measure": "distinct (outcome record, file-system call sequence) hashes",
            "components": {
                "real": ["celma::prog_args::Handler, ArgListParser/ArgListIterator, ArgumentKey, TypedArg<...>, Groups singleton (usage)",
                         "celma::appl::ArgString2Array", "libstdc++ std::ifstream / std::getline", "clang 14 ASan + UBSan subset inside every run"],
                "stub": [STUB_FS, "environment block (getenv overlay)", "exit()/abort()/__assert_fail() (turned into run outcomes)"],
            },
            "assumptions": [
                "argc >= 1 (a C main() always has argv[0]); words end at their first NUL byte",
                "allocation failures are not injected (the property quantifies over vectors and sources)",
                "termination is decided by a deterministic step budget (instrumented control-flow edges), not by wall-clock time",
                "nothing is asserted about which of return/exception happens (that is C01-C03)",
                "sampling, not enumeration",
            ],
        },
    },
    "C09": {
        "target": "c09",
        "tiers": {
            "quick": {"count": 4000000, "budget_s": 45, "workers": 16, "recheck": 50},
            "thorough": {"count": 200000000, "budget_s": 1200, "workers": 16, "recheck": 100},
        },
        "describe": {
            "rule": ("one run = one seeded plan: 2..6 (quick) / 2..16 (thorough) threads, each constructing its own handler from the recipe "
                     "menu (list destinations with separators drawn from , ; : . + | so that neighbouring threads differ, checks, formats, "
                     "cardinalities, argument and handler constraints, abbreviations, command-mode argument, in a minority usage output "
                     "through the Groups singleton; patterns and value lists carry a per-thread token; 1 run in 4: all threads use handler "
                     "constraints of different kinds over the same scalars; 1 run in 5: ONE thread evaluates through the Groups front end while "
                     "another, ordinary handler asks for its usage) and evaluating its own rule-obeying or mutated command line "
                     "1..3 times, plus a schedule (random preemption 1/p at every non-stack load/store and synchronisation call, "
                     "optionally biased to lock/unlock points, PCT, round-robin). Per process a fixed warm-up runs first; inside a run "
                     "the concurrent phase comes first, then the same jobs run alone (reference). Non-trivial: at least one preemption "
                     "happened. Distinct: distinct hashes over the executed context-switch sequence and all per-thread records."),
            "sim_time_unit": "scheduler steps (schedule points executed); no wall-clock time passes inside a run",
            "state_measure": "distinct (number of threads, number of different recipe sets among them) tuples",
            "distinct_measure": "distinct context-switch sequences (hash over (thread, local point, successor, kind) of every switch) combined with the per-thread results",
            "components": {
                "real": ["celma::prog_args::Handler and everything it uses (ArgListParser, TypedArg<...>, common::Tokenizer, ConstraintContainer, "
                         "format::toString, Groups/Singleton for usage)", "boost::lexical_cast / tokenizer (header code compiled with instrumentation)",
                         "libstdc++ std::thread, iostreams", "ThreadSanitizer (clang 14) inside every run"],
                "stub": ["OS thread scheduler: replaced by the baton scheduler (sim/sched.cpp) over real pthreads (creation, join, mutexes, rwlocks, condition variables, once, static-init guards, sleeps, clock)"],
            },
            "assumptions": [
                "handlers with hfInGroup are excluded (they share the Groups registry by design); file and environment sources are not used in this check",
                "only sequentially consistent interleavings of instrumented accesses are executed; weak-memory effects are covered through ThreadSanitizer's happens-before analysis only",
                "first-use races of C++ function-local statics inside the library are mostly not explored: a fixed per-process warm-up initialises them before the first run (contended initialisation is handled by the scheduler if it happens)",
                "code inside libstdc++.so / libc is atomic for the scheduler and invisible to ThreadSanitizer",
                "sampling, not enumeration",
            ],
        },
    },
}
