"""Static description of each claimed property's check."""

STUB_FS = "kernel file system (in-memory simfs behind fopen64/read/write/writev/lseek64/close/rename/unlink/mkdir/stat)"

PROPS = {
    "C19": {
        "target": "c19",
        "tiers": {
            "quick": {"count": 4000000, "budget_s": 30, "workers": 16, "recheck": 200},
            "thorough": {"count": 200000000, "budget_s": 600, "workers": 16, "recheck": 500},
        },
        "describe": {
            "rule": ("one run = one seeded plan: side (read|write), buffer size N from {1,2,3,4,5,7,8,16,31,64,256}, policy, "
                     "up to 60 (quick) / 200 (thorough) get/append/flush operations with lengths 0..N+3 (read) / 0..2N+3 (write); "
                     "every readData()/writeData() call is answered by a plan decision (deliver 1 / n / exactly-needed / max bytes, "
                     "idle delivery of 0 bytes, transient exception; sink accept / throw). Non-trivial: the run reached the source "
                     "or the sink at least once (a refill or a flush happened). Distinct: distinct FNV-1a hashes over the full event "
                     "sequence (operation, lengths, every delivery decision and size)."),
            "sim_time_unit": "none (no clock in this property)",
            "state_measure": "distinct (side, N, fill state of the buffer before the operation, request size class, operation kind) tuples",
            "distinct_measure": "distinct event-sequence hashes of non-trivial runs",
            "components": {
                "real": ["celma::common::ReadBuffer<N,P>", "celma::common::WriteBuffer<N,P>", "ReadCountPolicy/WriteCountPolicy/Empty*Policy"],
                "stub": ["data source (readData) and data sink (writeData): simulated, behind the classes' own pure virtual functions"],
            },
            "assumptions": [
                "the source never signals end-of-stream (no documented behaviour); idle deliveries are finite",
                "a failing source/sink throws before consuming/producing anything in that call",
                "AddressSanitizer + UBSan subset observe every access of instrumented code; buffer sizes are a compiled-in menu",
                "sampling, not enumeration: a clean batch is evidence, not proof",
            ],
        },
    },
}
