#!/bin/bash
# seeded.sh <worktree name under /tmp/mut> <PROP> [budget]  -- confirm a seeded change and run the check against it.
# 1. demo fails with the change and passes without it (in the scratch worktree)
# 2. the pinned tests still pass with the change (in the scratch worktree)
# 3. copy patch + demo to /verif/seeded/<name>/, apply to /repo, run the quick check, undo
set -u
name=$1; prop=$2; budget=${3:-}
wt=/tmp/mut/$name
out=/verif/seeded/$name
mkdir -p "$out"
cp "$wt"/mutant/patch.diff "$wt"/mutant/demo.* "$wt"/mutant/notes.md "$out"/ 2>/dev/null
cp "$wt"/mutant/*.sh "$wt"/mutant/*.cpp "$wt"/mutant/*.hpp "$out"/ 2>/dev/null
cd "$wt" || exit 2
git checkout -q -- . 2>/dev/null
git apply "$out/patch.diff" || { echo "PATCH DOES NOT APPLY"; exit 2; }
( bash mutant/demo.sh "$wt" > "$out/demo_with_change.log" 2>&1 ); rc_with=$?
git apply -R "$out/patch.diff"
( bash mutant/demo.sh "$wt" > "$out/demo_without_change.log" 2>&1 ); rc_without=$?
git apply "$out/patch.diff"
echo "demo: with change rc=$rc_with, without change rc=$rc_without"
if [ "${SKIP_CTEST:-0}" != "1" ]; then
  cmake --build "$wt/_build" -- -k 0 > "$wt/_build/build2.log" 2>&1
  passed=$(ctest --test-dir "$wt/_build" -j8 --timeout 600 2>&1 | grep -c " Passed ")
  echo "pinned suite with change: $passed tests passed"
else
  passed=skipped
fi
cd /verif
# evidence files describe the unchanged tree: keep them out of this experiment
cp "evidence/$prop.json" "/verif/build/evidence-$prop.keep" 2>/dev/null
git -C /repo apply "$out/patch.diff" || { echo "PATCH DOES NOT APPLY TO /repo"; exit 2; }
if [ -n "$budget" ]; then python3 tools/check.py "$prop" --tier quick --budget "$budget" > "$out/check.log" 2>&1; else python3 tools/check.py "$prop" --tier quick > "$out/check.log" 2>&1; fi
rc_check=$?
 git -C /repo checkout -- . ; git -C /repo clean -fdq src
cp "/verif/build/evidence-$prop.keep" "evidence/$prop.json" 2>/dev/null
tail -4 "$out/check.log" | cut -c1-300
echo "check rc=$rc_check"
echo "{\"name\":\"$name\",\"property\":\"$prop\",\"demo_rc_with_change\":$rc_with,\"demo_rc_without_change\":$rc_without,\"pinned_tests_passed_with_change\":\"$passed\",\"check_rc\":$rc_check}" > "$out/result.json"
