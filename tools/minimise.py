"""Structural minimiser for plans (JSON values).

Works on any plan: every list in the plan is reduced with ddmin, optional
members named 'fault' are dropped, integers are moved towards small values and
strings are shortened, as long as test(plan) keeps returning True (same
violation class). Faults are attached to operations and numeric positions are
interpreted modulo what the operation offers, so a reduced plan stays
meaningful.
"""
import copy

# members that must not be touched (identity of the configuration)
FROZEN_KEYS = {"prop", "op", "k", "side", "policy", "kind", "scenario", "recipe", "type", "style"}
# members that may be deleted entirely
OPTIONAL_KEYS = {"fault", "faults", "nullzero", "crash", "override"}
# lists that are one unit: never reduced element by element
ATOMIC_LISTS = {"first", "second", "words"}


class Budget(Exception):
    pass


class Ctx:
    def __init__(self, test, budget):
        self.test = test
        self.left = budget
        self.runs = 0
        self.cache = {}

    def ok(self, plan):
        import json
        key = json.dumps(plan, sort_keys=True)
        if key in self.cache:
            return self.cache[key]
        if self.left <= 0:
            raise Budget()
        self.left -= 1
        self.runs += 1
        r = bool(self.test(plan))
        self.cache[key] = r
        return r


def paths(value, prefix=()):
    """Yields (path, value) for every node, parents first."""
    yield prefix, value
    if isinstance(value, dict):
        for k, v in value.items():
            yield from paths(v, prefix + (k,))
    elif isinstance(value, list):
        for i, v in enumerate(value):
            yield from paths(v, prefix + (i,))


def get(plan, path):
    for p in path:
        plan = plan[p]
    return plan


def replaced(plan, path, new):
    if not path:
        return new
    out = copy.deepcopy(plan)
    node = out
    for p in path[:-1]:
        node = node[p]
    node[path[-1]] = new
    return out


def deleted(plan, path):
    out = copy.deepcopy(plan)
    node = out
    for p in path[:-1]:
        node = node[p]
    del node[path[-1]]
    return out


def ddmin_list(ctx, plan, path):
    """Classic ddmin on the list at path. Returns the new plan."""
    items = list(get(plan, path))
    n = 2
    while len(items) >= 1:
        chunk = max(1, len(items) // n)
        reduced = False
        # try complements (removing one chunk)
        start = 0
        while start < len(items):
            cand = items[:start] + items[start + chunk:]
            if ctx.ok(replaced(plan, path, cand)):
                items = cand
                plan = replaced(plan, path, cand)
                n = max(n - 1, 2)
                reduced = True
                break
            start += chunk
        if not reduced:
            if chunk == 1:
                break
            n = min(len(items), n * 2)
    return plan


def shrink_scalars(ctx, plan):
    changed = False
    for path, v in list(paths(plan)):
        if not path:
            continue
        key = path[-1]
        if isinstance(key, str) and key in FROZEN_KEYS:
            continue
        if "switches" in path or any(k in ATOMIC_LISTS for k in path if isinstance(k, str)):
            continue  # entries of an explicit schedule / atomic lists are removed as a whole, not edited
        try:
            cur = get(plan, path)
        except (KeyError, IndexError, TypeError):
            continue
        if isinstance(cur, bool):
            continue
        if isinstance(cur, int) and key not in ("key", "seed"):
            for cand in (0, 1, 2, cur // 2, cur - 1):
                if 0 <= cand < cur:
                    p2 = replaced(plan, path, cand)
                    if ctx.ok(p2):
                        plan = p2
                        changed = True
                        break
        elif isinstance(cur, str) and len(cur) > 1 and key in ("text", "word", "value", "msg", "line"):
            for cand in (cur[:1], cur[: len(cur) // 2], cur[:-1]):
                if len(cand) < len(cur):
                    p2 = replaced(plan, path, cand)
                    if ctx.ok(p2):
                        plan = p2
                        changed = True
                        break
    return plan, changed


def drop_optionals(ctx, plan):
    changed = False
    again = True
    while again:
        again = False
        for path, v in list(paths(plan)):
            if path and isinstance(path[-1], str) and path[-1] in OPTIONAL_KEYS:
                try:
                    get(plan, path)
                except (KeyError, IndexError, TypeError):
                    continue
                p2 = deleted(plan, path)
                if ctx.ok(p2):
                    plan = p2
                    changed = again = True
                    break
    return plan, changed


def minimise(plan, test, budget=400):
    """Returns (smaller plan, number of test executions)."""
    ctx = Ctx(test, budget)
    try:
        for _ in range(6):
            before = copy.deepcopy(plan)
            # lists, outermost and longest first
            list_paths = [p for p, v in paths(plan) if isinstance(v, list) and len(v) > 0
                          and not (p and p[-1] in ATOMIC_LISTS)]
            list_paths.sort(key=lambda p: (len(p), -len(get(plan, p))))
            for lp in list_paths:
                try:
                    cur = get(plan, lp)
                except (KeyError, IndexError, TypeError):
                    continue
                if isinstance(cur, list) and cur:
                    plan = ddmin_list(ctx, plan, lp)
            plan, _ = drop_optionals(ctx, plan)
            plan, _ = shrink_scalars(ctx, plan)
            if plan == before:
                break
    except Budget:
        pass
    return plan, ctx.runs
