#!/bin/bash
# trymut.sh <PROP> <budget_s> <file relative to /repo> <sed expression>
# applies a one-line mutation to /repo, runs the quick check, reverts. For local sensitivity experiments only.
set -u
prop=$1; budget=$2; file=$3; expr=$4
cd /repo || exit 2
sed -i "$expr" "$file"
if git diff --quiet; then echo "MUTATION DID NOT APPLY"; exit 3; fi
git --no-pager diff -U0 | grep '^[+-]' | grep -v '^+++\|^---'
cd /verif && cp "evidence/$prop.json" "/verif/build/evidence-$prop.keep" 2>/dev/null; python3 tools/check.py "$prop" --tier quick --budget "$budget" | grep -v '^ *$' | tail -6
rc=${PIPESTATUS[0]}
git -C /repo checkout -- . ; git -C /repo clean -fdq src
cp "/verif/build/evidence-$prop.keep" "evidence/$prop.json" 2>/dev/null
echo "rc=$rc"
