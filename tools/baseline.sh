#!/bin/bash
# Runs the repository's own build and the pinned test suite (guard off: there is no
# source hook, so this is simply the untouched tree) and lists the tests that passed.
cmake -G Ninja -S /repo -B /repo/_build > /dev/null 2>&1
cmake --build /repo/_build -- -k 0 > /repo/_build/verif_baseline_build.log 2>&1
ctest --test-dir /repo/_build -j8 --timeout 900 2>&1 | tee /repo/_build/verif_baseline_ctest.log | grep -E "Passed|Failed|tests passed" | grep -v "Not Run"
n=$(grep -c " Passed " /repo/_build/verif_baseline_ctest.log)
echo "passed: $n"
[ "$n" -ge 42 ]
