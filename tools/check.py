#!/usr/bin/env python3
"""check.py <ID> --tier quick|thorough   -- run one property check.

Rebuilds the harness from /repo's working tree, runs seeded simulated runs on
all cores, gates/minimises anything found, rewrites evidence/<ID>.json.
Exit 0: property held on everything explored (known findings are listed),
exit 1: VIOLATION line printed, exit 2: the machinery itself failed (INFRA).
"""
import argparse
import os
import sys

sys.path.insert(0, os.path.dirname(os.path.abspath(__file__)))
import simdrv  # noqa: E402
from props import PROPS  # noqa: E402


def main():
    ap = argparse.ArgumentParser()
    ap.add_argument("prop")
    ap.add_argument("--tier", default=os.environ.get("VERIF_TIER", "quick"), choices=["quick", "thorough"])
    ap.add_argument("--budget", type=float, default=None, help="override the wall-clock budget of the batch (s)")
    ap.add_argument("--count", type=int, default=None)
    a = ap.parse_args()
    prop = a.prop.upper()
    if prop not in PROPS:
        print("unknown property %s" % prop)
        return 2
    spec = PROPS[prop]
    cfg = dict(spec["tiers"][a.tier])
    if a.budget is not None:
        cfg["budget_s"] = a.budget
    if a.count is not None:
        cfg["count"] = a.count
    cfg["workers"] = min(cfg.get("workers", 16), os.cpu_count() or 1)
    return simdrv.run_check(prop, spec["target"], a.tier, cfg, spec["describe"], spec.get("extra_targets"))


if __name__ == "__main__":
    sys.exit(main())
