#!/usr/bin/env python3
"""Builds the harness executables from /repo's current working tree.

Generates build/build.ninja on every call (the source list is globbed, so a
file added to or removed from /repo is picked up) and lets ninja decide what is
out of date (header dependencies through -MMD depfiles).

  build.py --setup            check the tool chain, build everything once
  build.py c19 c15 ...        build the named harnesses
"""
import glob
import os
import shutil
import subprocess
import sys

VERIF = os.path.dirname(os.path.dirname(os.path.abspath(__file__)))
REPO = os.environ.get("CELMA_REPO", "/repo")
BUILD = os.path.join(VERIF, "build")

UBSAN = ("null,bounds,alignment,pointer-overflow,nonnull-attribute,"
         "returns-nonnull-attribute,return,unreachable,vptr,float-cast-overflow")
COMMON = "-std=c++17 -g -O1 -fno-omit-frame-pointer -I%s/src -I%s" % (REPO, VERIF)
FLAVOURS = {
    # sanitizer flags, coverage flags (only for code under test + harness)
    "asan": ("-fsanitize=address,%s -fno-sanitize-recover=%s" % (UBSAN, UBSAN),
             "-fsanitize-coverage=trace-pc-guard"),
    "tsan": ("-fsanitize=thread",
             "-fsanitize-coverage=trace-pc-guard,trace-loads,trace-stores"),
    "plain": ("", ""),
}

# harness -> (flavour, kernel files with sanitizer but without coverage,
#             kernel files without anything, needs libcelma, extra link flags)
# harnesses whose source is compiled several times with -D<NAME>_PART=k
PARTS = {"c19": 5}

TARGETS = {
    "c19": ("asan", ["harness_main", "budget"], [], False, ""),
    "c15": ("asan", ["harness_main", "budget", "simfs"], [], True, "-ldl"),
    "c04": ("asan", ["harness_main", "budget", "simfs"], [], True, "-ldl"),
    "c07": ("asan", ["harness_main", "budget", "simfs"], [], True, "-ldl"),
    "c20": ("tsan", ["harness_main"], ["sched", "tsan_glue"], False, "-ldl -lpthread -Wl,--wrap=__cxa_guard_acquire -Wl,--wrap=__cxa_guard_release -Wl,--wrap=__cxa_guard_abort"),
    "c15mt": ("tsan", ["harness_main"], ["sched", "tsan_glue", "simfs_sched"], True, "-ldl -lpthread -Wl,--wrap=__cxa_guard_acquire -Wl,--wrap=__cxa_guard_release -Wl,--wrap=__cxa_guard_abort"),
    "c09": ("tsan", ["harness_main"], ["sched", "tsan_glue"], True, "-ldl -lpthread -Wl,--wrap=__cxa_guard_acquire -Wl,--wrap=__cxa_guard_release -Wl,--wrap=__cxa_guard_abort"),
}


def lib_sources():
    out = []
    for path in sorted(glob.glob(os.path.join(REPO, "src/library/**/*.cpp"), recursive=True)):
        rel = os.path.relpath(path, REPO)
        parts = rel.split(os.sep)
        if "test" in parts or "test_output" in parts:
            continue
        if os.path.basename(path) == "print_version_info.cpp":
            continue  # needs a header that is generated in Debug configuration only
        out.append(rel)
    return out


def esc(s):
    return s.replace("$", "$$").replace(":", "$:").replace(" ", "$ ")


def write_ninja(targets):
    os.makedirs(BUILD, exist_ok=True)
    lines = ["ninja_required_version = 1.5", "builddir = %s" % BUILD, ""]
    lines += ["rule cxx",
              "  command = clang++ $flags -MMD -MF $out.d -c $in -o $out",
              "  depfile = $out.d", "  deps = gcc", "  description = CXX $out", ""]
    lines += ["rule ar", "  command = rm -f $out && ar rcs $out $in", "  description = AR $out", ""]
    lines += ["rule link", "  command = clang++ $flags $in $libs -o $out", "  description = LINK $out", ""]
    flavours_needed = set()
    libs_needed = set()
    for t in targets:
        fl, _, _, lib, _ = TARGETS[t]
        flavours_needed.add(fl)
        if lib:
            libs_needed.add(fl)
    srcs = lib_sources()
    for fl in sorted(libs_needed):
        san, cov = FLAVOURS[fl]
        objs = []
        for rel in srcs:
            obj = os.path.join(BUILD, fl, "celma", rel[:-4] + ".o")
            objs.append(obj)
            lines.append("build %s: cxx %s" % (esc(obj), esc(os.path.join(REPO, rel))))
            lines.append("  flags = %s %s %s -w" % (COMMON, san, cov))
        lines.append("build %s: ar %s" % (esc(os.path.join(BUILD, fl, "libcelma.a")),
                                         " ".join(esc(o) for o in objs)))
        lines.append("")
    done = set()
    for t in targets:
        fl, kern_san, kern_plain, lib, ldflags = TARGETS[t]
        san, cov = FLAVOURS[fl]
        objs = []
        for part in range(PARTS.get(t, 1)):
            hobj = os.path.join(BUILD, fl, "harness", "%s.p%d.o" % (t, part))
            lines.append("build %s: cxx %s" % (esc(hobj), esc(os.path.join(VERIF, "harness", t + ".cpp"))))
            lines.append("  flags = %s %s %s -Wall -Wextra -Wno-unused-function -Wno-unused-const-variable -D%s_PART=%d" % (COMMON, san, cov, t.upper(), part))
            objs.append(hobj)
        for k in kern_san:
            o = os.path.join(BUILD, fl, "sim", k + ".o")
            objs.append(o)
            if o not in done:
                done.add(o)
                lines.append("build %s: cxx %s" % (esc(o), esc(os.path.join(VERIF, "sim", k + ".cpp"))))
                lines.append("  flags = %s %s -Wall -Wextra" % (COMMON, san))
        for k in kern_plain:
            o = os.path.join(BUILD, "plain", "sim", k + ".o")
            objs.append(o)
            if o not in done:
                done.add(o)
                lines.append("build %s: cxx %s" % (esc(o), esc(os.path.join(VERIF, "sim", k + ".cpp"))))
                lines.append("  flags = %s -O2 -fno-builtin -Wall -Wextra" % COMMON)
        if lib:
            objs.append(os.path.join(BUILD, fl, "libcelma.a"))
        exe = os.path.join(BUILD, "bin", t)
        lines.append("build %s: link %s" % (esc(exe), " ".join(esc(o) for o in objs)))
        lines.append("  flags = %s" % san)
        lines.append("  libs = %s" % ldflags)
        lines.append("")
    path = os.path.join(BUILD, "build.%s.ninja" % "-".join(sorted(targets)))
    text = "\n".join(lines) + "\n"
    with open(path, "w") as f:
        f.write(text)
    return path


def check_tools():
    missing = [t for t in ("clang++", "ninja", "ar", "llvm-symbolizer-14") if shutil.which(t) is None]
    if missing:
        print("build: missing tools: %s" % ", ".join(missing), file=sys.stderr)
        return False
    return True


def build(targets, quiet=True):
    """Returns (ok, output). Serialised on the build directory."""
    import fcntl
    os.makedirs(BUILD, exist_ok=True)
    with open(os.path.join(BUILD, ".lock"), "w") as lock:
        fcntl.flock(lock, fcntl.LOCK_EX)
        nf = write_ninja(targets)
        exes = [os.path.join(BUILD, "bin", t) for t in targets]
        jobs = str(os.cpu_count() or 4)
        p = subprocess.run(["ninja", "-f", nf, "-j", jobs] + exes, cwd=BUILD,
                           stdout=subprocess.PIPE, stderr=subprocess.STDOUT, text=True)
        if not quiet:
            sys.stderr.write(p.stdout)
        elif p.returncode != 0:
            errs = [l for l in p.stdout.splitlines() if "error" in l or "FAILED" in l]
            sys.stderr.write("\n".join(errs[:12]) + "\n")
        return p.returncode == 0, p.stdout


def main():
    args = sys.argv[1:]
    if not check_tools():
        return 2
    if args and args[0] == "--setup":
        targets = [t for t in TARGETS if os.path.exists(os.path.join(VERIF, "harness", t + ".cpp"))]
    else:
        targets = args
    for t in targets:
        if t not in TARGETS:
            print("build: unknown target %s" % t, file=sys.stderr)
            return 2
    ok, _ = build(targets, quiet=False)
    return 0 if ok else 2


if __name__ == "__main__":
    sys.exit(main())
