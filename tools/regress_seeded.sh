#!/bin/bash
# regress_seeded.sh [budget] -- every seeded change must still be reported (exit 1) by its check,
# every benign variant must leave its check silent (exit 0). Writes seeded/REGRESSION.txt.
# Works on the tree named by CELMA_REPO (default /repo) and on the copy of /verif this script
# lives in, so that it can run in the background from a snapshot (vp run --with-repo) while
# /repo and /verif stay free.
budget=${1:-25}
export CELMA_REPO=${CELMA_REPO:-/repo}
repo=$CELMA_REPO
verif=$(cd "$(dirname "$0")/.." && pwd)
cd "$verif"
mkdir -p build evidence
out=seeded/REGRESSION.txt
: > $out
for d in seeded/C*/; do
  name=$(basename $d); prop=${name:0:3}
  [ -f "$d/patch.diff" ] || continue
  cp evidence/$prop.json build/evidence-$prop.keep 2>/dev/null
  git -C $repo apply $verif/$d/patch.diff || { echo "$name: patch does not apply" | tee -a $out; continue; }
  python3 tools/check.py $prop --tier quick --budget $budget > build/regress.log 2>&1; rc=$?
  git -C $repo checkout -- . ; git -C $repo clean -fdq src
  cp build/evidence-$prop.keep evidence/$prop.json 2>/dev/null
  first=$(grep -m1 -E "^(VIOLATION|SANITIZER|RACE|NONTERMINATION|DEADLOCK|ABORT|EXIT|CRASH)/" build/regress.log | cut -c1-110)
  echo "$name $prop rc=$rc expected=1 $( [ $rc -eq 1 ] && echo OK || echo MISSED ) | $first" | tee -a $out
done
for d in seeded/benign/*/; do
  name=$(basename $d); prop=${name:0:3}
  for v in $d/variant*.diff; do
    cp evidence/$prop.json build/evidence-$prop.keep 2>/dev/null
    git -C $repo apply $verif/$v || { echo "$name/$(basename $v): does not apply" | tee -a $out; continue; }
    python3 tools/check.py $prop --tier quick --budget $budget > build/regress.log 2>&1; rc=$?
    git -C $repo checkout -- . ; git -C $repo clean -fdq src
    cp build/evidence-$prop.keep evidence/$prop.json 2>/dev/null
    echo "benign $name/$(basename $v .diff) $prop rc=$rc expected=0 $( [ $rc -eq 0 ] && echo OK || echo ALARM )" | tee -a $out
  done
done
rm -f replays/*.json
