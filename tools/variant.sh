#!/bin/bash
# variant.sh <worktree name under /tmp/mut> <PROP> [budget] -- run the quick check against behaviour-preserving
# variants of the library (variants/variantN.diff in the worktree); every one of them must leave the check silent.
set -u
name=$1; prop=$2; budget=${3:-20}
src=/tmp/mut/$name/variants
out=/verif/seeded/benign/$name
mkdir -p "$out"
cp "$src"/*.diff "$src"/notes.md "$out"/ 2>/dev/null
cd /verif
cp "evidence/$prop.json" "/verif/build/evidence-$prop.keep" 2>/dev/null
for d in "$out"/variant*.diff; do
  v=$(basename "$d" .diff)
  if ! git -C /repo apply "$d"; then echo "$v: DOES NOT APPLY"; continue; fi
  python3 tools/check.py "$prop" --tier quick --budget "$budget" > "$out/$v.check.log" 2>&1
  rc=$?
  git -C /repo checkout -- . ; git -C /repo clean -fdq src
  echo "$v: check rc=$rc  $(grep -m1 "quick:" "$out/$v.check.log" | cut -c1-120)"
  [ $rc -ne 0 ] && tail -4 "$out/$v.check.log" | cut -c1-400
  echo "{\"variant\":\"$name/$v\",\"property\":\"$prop\",\"check_rc\":$rc}" > "$out/$v.result.json"
done
cp "/verif/build/evidence-$prop.keep" "evidence/$prop.json" 2>/dev/null
rm -f replays/*.json 2>/dev/null
