"""Driver library: build, fan out deterministic workers, gate and minimise
violations, match known findings, write evidence.

Everything random inside a run comes from the run seed (derived from
VERIF_SEED and the run index inside the harness); this driver only decides how
many indices are executed and on which worker, which does not influence any
single run.
"""
import json
import os
import re
import struct
import subprocess
import sys
import threading
import time

VERIF = os.path.dirname(os.path.dirname(os.path.abspath(__file__)))
sys.path.insert(0, os.path.join(VERIF, "tools"))
import build as buildmod  # noqa: E402
import minimise  # noqa: E402

REPO = buildmod.REPO
BIN = os.path.join(VERIF, "build", "bin")
RUN_DIR = os.path.join(VERIF, "build", "run")
REPLAYS = os.path.join(VERIF, "replays")
EVIDENCE = os.path.join(VERIF, "evidence")

ASAN_BATCH = ("exitcode=77:detect_leaks=0:malloc_context_size=3:allocator_may_return_null=1:"
              "quarantine_size_mb=4:thread_local_quarantine_size_kb=64:allocator_release_to_os_interval_ms=-1")
ASAN_REPLAY = "exitcode=77:detect_leaks=0:malloc_context_size=20:allocator_may_return_null=1:symbolize=1"
TSAN_OPTS = ("halt_on_error=0:exitcode=0:report_signal_unsafe=0:history_size=4:second_deadlock_stack=1:"
             "suppress_equal_stacks=0:suppress_equal_addresses=0")


# Harnesses whose oracle (not the sanitizer) is the main detector run without
# AddressSanitizer's quarantine: freed blocks are handed out again at once, as
# with the real allocator, so that state keyed by the address of a short-lived
# object (a cache that remembers "the same object") meets address re-use. The
# option is part of the harness' environment in the batch and in every replay.
NO_QUARANTINE = {"c15"}


def harness_env(replay=False, exe=None):
    env = dict(os.environ)
    env["ASAN_OPTIONS"] = ASAN_REPLAY if replay else ASAN_BATCH
    if exe is not None and os.path.basename(exe) in NO_QUARANTINE:
        env["ASAN_OPTIONS"] = re.sub(r"quarantine_size_mb=\d+", "quarantine_size_mb=0", env["ASAN_OPTIONS"])
        env["ASAN_OPTIONS"] = re.sub(r"thread_local_quarantine_size_kb=\d+", "thread_local_quarantine_size_kb=0", env["ASAN_OPTIONS"])
        if "quarantine_size_mb" not in env["ASAN_OPTIONS"]:
            env["ASAN_OPTIONS"] += ":quarantine_size_mb=0:thread_local_quarantine_size_kb=0"
    env["UBSAN_OPTIONS"] = "print_stacktrace=1:halt_on_error=1"
    env["TSAN_OPTIONS"] = TSAN_OPTS
    env["ASAN_SYMBOLIZER_PATH"] = "/usr/bin/llvm-symbolizer-14"
    env["TSAN_SYMBOLIZER_PATH"] = "/usr/bin/llvm-symbolizer-14"
    env["TZ"] = "UTC"
    env.pop("SIM_NOASLR_DONE", None)
    return env


def repo_state():
    """Identifies the tree the check ran on (informational)."""
    try:
        head = subprocess.run(["git", "-C", REPO, "rev-parse", "HEAD"], capture_output=True, text=True).stdout.strip()
        diff = subprocess.run(["git", "-C", REPO, "diff", "HEAD", "--", "src"], capture_output=True, text=True).stdout
        import hashlib
        return {"head": head, "dirty": bool(diff), "diff_sha1": hashlib.sha1(diff.encode()).hexdigest() if diff else ""}
    except Exception as e:  # pragma: no cover
        return {"error": str(e)}


# --------------------------------------------------------------------------
# running one plan in a fresh process
# --------------------------------------------------------------------------

SAN_RE = re.compile(r"ERROR: (AddressSanitizer|LeakSanitizer|ThreadSanitizer|UndefinedBehaviorSanitizer): ([^\n]*)")
UBSAN_RE = re.compile(r"([^\s:]+:\d+:\d+): runtime error: ([^\n]*)")
FRAME_RE = re.compile(r"#\d+ 0x[0-9a-f]+ in (.+?) (/[^\s:]+):(\d+)")


def classify_crash(returncode, stderr):
    """Turns a dead harness process into a result dictionary."""
    m = UBSAN_RE.search(stderr)
    s = SAN_RE.search(stderr)
    frames = []
    for fm in FRAME_RE.finditer(stderr):
        fn, path, line = fm.group(1), fm.group(2), fm.group(3)
        if path.startswith(REPO) or "/celma/" in path:
            frames.append("%s %s:%s" % (fn.split("(")[0], os.path.relpath(path, REPO) if path.startswith(REPO) else path, line))
        if len(frames) >= 3:
            break
    if s and s.group(1) == "AddressSanitizer" and ("allocator is out of memory" in s.group(2) or "allocation-size-too-big" in s.group(2)
                                                    or "requested allocation size" in s.group(2)):
        # operator new under AddressSanitizer reports a refused allocation and ends
        # the process where the real allocator throws std::bad_alloc (a permitted
        # outcome): nothing can be concluded from such a run
        return {"outcome": "RESOURCE", "oracle": "allocation-refused", "detail": s.group(2)[:200], "hash": "", "nontrivial": False}
    if s:
        kind = s.group(2).split()[0] if s.group(2) else "error"
        if s.group(1) == "AddressSanitizer" and s.group(2).startswith("attempting"):
            kind = "bad-free"
        if "alloc-dealloc-mismatch" in s.group(2):
            kind = "alloc-dealloc-mismatch"
        return {"outcome": "SANITIZER", "oracle": kind, "detail": s.group(2)[:200] + " | " + " <- ".join(frames),
                "hash": "", "nontrivial": True}
    if m:
        return {"outcome": "SANITIZER", "oracle": "ubsan", "detail": m.group(2)[:200] + " at " + m.group(1) + " | " + " <- ".join(frames),
                "hash": "", "nontrivial": True}
    return {"outcome": "CRASH", "oracle": "exit-%d" % returncode, "detail": stderr[-400:], "hash": "", "nontrivial": True}


def run_plan(exe, plan, timeout=120, trace=False):
    """Executes one plan in a fresh process. Returns (result dict, stderr)."""
    os.makedirs(RUN_DIR, exist_ok=True)
    path = os.path.join(RUN_DIR, "plan-%d-%d.json" % (os.getpid(), threading.get_ident()))
    with open(path, "w") as f:
        json.dump(plan, f)
    cmd = [exe, "run", path] + (["--trace"] if trace else [])
    try:
        p = subprocess.run(cmd, capture_output=True, text=True, errors="replace", timeout=timeout,
                           env=harness_env(replay=True, exe=exe))
    except subprocess.TimeoutExpired:
        return {"outcome": "INFRA", "oracle": "wall-clock", "detail": "harness did not finish in %ds" % timeout, "hash": ""}, ""
    finally:
        try:
            os.unlink(path)
        except OSError:
            pass
    for line in p.stdout.splitlines():
        if line.startswith("RESULT "):
            res = json.loads(line[7:])
            if p.returncode not in (0, 78) and res.get("outcome") == "OK":
                return classify_crash(p.returncode, p.stderr), p.stderr
            return res, p.stderr
    return classify_crash(p.returncode, p.stderr), p.stderr


def gen_plan(exe, seed, tier):
    p = subprocess.run([exe, "gen", str(seed), tier], capture_output=True, text=True, env=harness_env(exe=exe))
    return json.loads(p.stdout)


# --------------------------------------------------------------------------
# batch fan-out
# --------------------------------------------------------------------------

class Worker(threading.Thread):
    def __init__(self, pool, wid):
        super().__init__(daemon=True)
        self.pool = pool
        self.wid = wid
        self.start_index = wid
        self.summaries = []
        self.reports = []
        self.samples = []
        self.deaths = []
        self.restarts = 0

    def run(self):
        pool = self.pool
        while True:
            if self.start_index >= pool.count or pool.stop.is_set():
                return
            left = pool.deadline_at - time.time()
            if left <= 0.5:
                return
            status = os.path.join(RUN_DIR, "%s-status-%d" % (pool.name, self.wid))
            hashes = os.path.join(RUN_DIR, "%s-hashes-%d-%d" % (pool.name, self.wid, self.restarts))
            cmd = [pool.exe, "batch", "--tier", pool.tier, "--base", str(pool.base),
                   "--start", str(self.start_index), "--stride", str(pool.workers),
                   "--count", str(pool.count), "--deadline", "%.1f" % left,
                   "--status", status, "--hashes", hashes,
                   "--samples", str(pool.samples if self.wid == 0 and self.restarts == 0 else 0),
                   "--recheck", str(pool.recheck)]
            errpath = os.path.join(RUN_DIR, "%s-stderr-%d" % (pool.name, self.wid))
            with open(errpath, "w") as errf:
                proc = subprocess.Popen(cmd, stdout=subprocess.PIPE, stderr=errf, text=True, errors="replace",
                                        env=harness_env(exe=pool.exe))
                # wall-clock watchdog: only ever turns a stalled worker into an
                # INFRA diagnosis (exit 2), never into a violation
                hung = {"v": False}

                def _kill(p=proc, h=hung):
                    h["v"] = True
                    p.kill()
                watchdog = threading.Timer(left + pool.grace_s, _kill)
                watchdog.daemon = True
                watchdog.start()
                got_summary = False
                for line in proc.stdout:
                    if line.startswith("S "):
                        self.summaries.append(json.loads(line[2:]))
                        got_summary = True
                    elif line.startswith("R "):
                        rep = json.loads(line[2:])
                        self.reports.append(rep)
                        if rep.get("result", {}).get("outcome") != "OK":
                            pool.note_failure()
                    elif line.startswith("P "):
                        self.samples.append(json.loads(line[2:]))
                rc = proc.wait()
                watchdog.cancel()
            if hung["v"]:
                idx_h, seed_h, _, _ = read_status(status)
                pool.infra.append("worker %d stalled (no result %.0fs after the end of its budget) in run index %s seed %016x; killed"
                                  % (self.wid, pool.grace_s, idx_h, seed_h))
                return
            if os.path.exists(hashes):
                pool.hash_files.append(hashes)
            idx_in_flight, seed_in_flight, done, nxt = read_status(status)
            if got_summary and rc == 0:
                return
            if got_summary and rc == 78:
                # abandoned run (non-local jump): continue after it in a new process
                self.start_index = nxt if nxt else pool.count
                self.restarts += 1
                continue
            # the process died inside a run (sanitizer report, crash)
            with open(errpath) as ef:
                err = ef.read()
            if idx_in_flight is None:
                self.deaths.append({"index": None, "rc": rc, "stderr": err[-3000:], "infra": True})
                pool.infra.append("worker %d died outside a run (rc=%s): %s" % (self.wid, rc, err[-500:]))
                return
            self.deaths.append({"index": idx_in_flight, "seed": seed_in_flight, "rc": rc, "stderr": err[-6000:],
                                "runs_before": done})
            pool.partial_runs += done
            if classify_crash(rc, err).get("outcome") != "RESOURCE":
                pool.note_failure()
            self.start_index = idx_in_flight + pool.workers
            self.restarts += 1


def read_status(path):
    try:
        with open(path, "rb") as f:
            data = f.read(32)
        idx, seed, done, nxt = struct.unpack("<QQQQ", data)
        return (None if idx == 0xFFFFFFFFFFFFFFFF else idx), seed, done, nxt
    except Exception:
        return None, 0, 0, 0


class Pool:
    def __init__(self, name, exe, tier, base, count, workers, budget_s, samples=3, recheck=100, max_failures=24):
        self.name, self.exe, self.tier, self.base = name, exe, tier, base
        self.count, self.workers = count, workers
        self.deadline_at = time.time() + budget_s
        self.samples, self.recheck = samples, recheck
        self.stop = threading.Event()
        self.failures = 0
        self.max_failures = max_failures
        self.lock = threading.Lock()
        self.hash_files = []
        self.partial_runs = 0
        self.infra = []
        self.grace_s = 180.0

    def note_failure(self):
        with self.lock:
            self.failures += 1
            if self.failures >= self.max_failures:
                self.stop.set()

    def run(self):
        os.makedirs(RUN_DIR, exist_ok=True)
        ws = [Worker(self, w) for w in range(self.workers)]
        for w in ws:
            w.start()
        for w in ws:
            w.join()
        return ws


def merge_summaries(ws, pools):
    tot = {"runs": sum(p.partial_runs for p in pools), "nontrivial": 0, "sim_time": 0, "rechecked": 0, "recheck_mismatch": 0,
           "outcomes": {}, "faults": {}, "probes": {}, "misc": {}, "state_keys": set(), "deadline_hit": False,
           "restarts": 0}
    for w in ws:
        tot["restarts"] += w.restarts
        for s in w.summaries:
            for k in ("runs", "nontrivial", "sim_time", "rechecked", "recheck_mismatch"):
                tot[k] += s.get(k, 0)
            tot["deadline_hit"] = tot["deadline_hit"] or s.get("deadline_hit", False)
            for grp in ("outcomes", "faults", "probes", "misc"):
                for k, v in s.get(grp, {}).items():
                    tot[grp][k] = tot[grp].get(k, 0) + v
            tot["state_keys"].update(s.get("state_keys", []))
    return tot


def count_distinct(exe, files):
    files = [f for f in files if os.path.exists(f)]
    if not files:
        return 0
    p = subprocess.run([exe, "merge-hashes"] + files, capture_output=True, text=True, env=harness_env())
    for f in files:
        try:
            os.unlink(f)
        except OSError:
            pass
    try:
        return int(p.stdout.strip())
    except ValueError:
        return 0


# --------------------------------------------------------------------------
# known findings
# --------------------------------------------------------------------------

def load_known(prop):
    path = os.path.join(VERIF, "known_findings.json")
    if not os.path.exists(path):
        return []
    with open(path) as f:
        data = json.load(f)
    return [e for e in data.get("findings", []) if e.get("property") == prop and e.get("status") == "open"]


def match_known(known, res):
    for e in known:
        m = e.get("match", {})
        if m.get("outcome") and m["outcome"] != res.get("outcome"):
            continue
        if m.get("oracle") and m["oracle"] != res.get("oracle"):
            continue
        if m.get("detail_regex") and not re.search(m["detail_regex"], res.get("detail", "")):
            continue
        return e
    return None


# --------------------------------------------------------------------------
# one check
# --------------------------------------------------------------------------

def vclass(res):
    return (res.get("outcome"), res.get("oracle"))


def process_candidates(prop, tier, candidates, log):
    """candidates: list of (seed_hex, plan, first_result, exe). Gates, minimises,
    writes replay files. Returns (violations, known_hits, infra_messages)."""
    known = load_known(prop)
    violations, known_hits, infra = [], [], []
    seen_classes = {}
    for seed_hex, plan, first, exe in candidates:
        res1, err1 = run_plan(exe, plan)
        if res1.get("outcome") == "OK":
            infra.append("seed %s: %s/%s seen in the batch did not reproduce in a fresh process"
                         % (seed_hex, first.get("outcome"), first.get("oracle")))
            continue
        if res1.get("outcome") == "RESOURCE":
            continue
        if res1.get("outcome") == "INFRA":
            infra.append("seed %s: %s" % (seed_hex, res1.get("detail")))
            continue
        res2, _ = run_plan(exe, plan)
        if vclass(res2) != vclass(res1) or res2.get("hash") != res1.get("hash"):
            infra.append("seed %s: two fresh replays disagree (%s/%s/%s vs %s/%s/%s)"
                         % (seed_hex, res1.get("outcome"), res1.get("oracle"), res1.get("hash"),
                            res2.get("outcome"), res2.get("oracle"), res2.get("hash")))
            continue
        cls = vclass(res1)
        # one minimised report per class and per known/unknown decision is enough
        if cls in seen_classes and seen_classes[cls] >= 2:
            continue
        seen_classes[cls] = seen_classes.get(cls, 0) + 1

        def test(candidate, exe=exe, cls=cls):
            r, _ = run_plan(exe, candidate)
            return vclass(r) == cls
        # thread simulations: continue with the schedule that was actually
        # executed, written out as an explicit list of context switches
        explicit = (res1.get("extra") or {}).get("explicit_schedule")
        if explicit and isinstance(plan, dict) and "sched" in plan:
            plan2 = dict(plan)
            plan2["sched"] = explicit
            if test(plan2):
                plan = plan2
        small, tries = minimise.minimise(plan, test, budget=400)
        resm, errm = run_plan(exe, small, trace=False)
        if vclass(resm) != cls:
            small, resm, errm = plan, res1, err1
        _, trace_text = run_plan(exe, small, trace=True)
        os.makedirs(REPLAYS, exist_ok=True)
        rpath = os.path.join(REPLAYS, "%s-%s.json" % (prop, seed_hex))
        replay = {"property": prop, "target": os.path.basename(exe), "seed": seed_hex, "tier": tier, "plan": small,
                  "expect": {"outcome": resm.get("outcome"), "oracle": resm.get("oracle"), "hash": resm.get("hash")},
                  "detail": resm.get("detail"), "original_plan_ops": plan_size(plan), "minimised_plan_ops": plan_size(small),
                  "minimiser_runs": tries, "repo": repo_state(),
                  "trace_tail": trace_text[-4000:] if isinstance(trace_text, str) else ""}
        with open(rpath, "w") as f:
            json.dump(replay, f, indent=1)
        # final gate: the replay file itself, in a fresh process
        resf, _ = run_plan(exe, replay)
        if vclass(resf) != cls:
            infra.append("seed %s: minimised replay file does not reproduce %s/%s" % (seed_hex, cls[0], cls[1]))
            continue
        k = match_known(known, resm)
        entry = {"seed": seed_hex, "class": list(cls), "detail": resm.get("detail"), "replay": rpath,
                 "plan": small}
        if k is not None:
            entry["known_id"] = k.get("id")
            entry["what"] = k.get("what")
            known_hits.append(entry)
        else:
            violations.append(entry)
    return violations, known_hits, infra


def plan_size(plan):
    n = 0
    if isinstance(plan, dict):
        for v in plan.values():
            n += plan_size(v)
    elif isinstance(plan, list):
        n += len(plan)
        for v in plan:
            n += plan_size(v)
    return n


def run_check(prop, target, tier, cfg, describe, extra_targets=None):
    """cfg: {count, budget_s, workers, recheck}; describe: dict with the static
    parts of the evidence (rule, components, assumptions). extra_targets: more
    harness executables for the same property, each with its share of the
    wall-clock budget ([{"target": name, "share": 0.3}]); the batches run one
    after the other, each on all workers."""
    t0 = time.time()
    base = int(os.environ.get("VERIF_SEED", cfg.get("default_seed", 20260101)))
    extra_targets = extra_targets or []
    shares = [(target, 1.0 - sum(e["share"] for e in extra_targets))] + [(e["target"], e["share"]) for e in extra_targets]
    ok, out = buildmod.build([t for t, _ in shares])
    if not ok:
        print("INFRA: build of %s failed" % ", ".join(t for t, _ in shares))
        return 2
    t_build = time.time() - t0
    pools, ws, distinct, per_harness = [], [], 0, {}
    for tname, share in shares:
        exe = os.path.join(BIN, tname)
        pool = Pool(tname + "-" + tier + "-" + str(os.getpid()), exe, tier, base, cfg["count"], cfg["workers"],
                    cfg["budget_s"] * share, samples=3 if tname == target else 2, recheck=cfg.get("recheck", 100))
        pws = pool.run()
        d = count_distinct(exe, pool.hash_files)
        per_harness[tname] = {"runs": merge_summaries(pws, [pool])["runs"], "distinct_nontrivial": d,
                              "budget_s": round(cfg["budget_s"] * share, 1)}
        pools.append(pool)
        ws += pws
        distinct += d
    tot = merge_summaries(ws, pools)

    candidates, infra = [], [m for p in pools for m in p.infra]
    history_notes = []
    history_dependence = []
    for w in ws:
        for r in w.reports:
            if r.get("rerun_same") is False:
                # the second execution in the same process differed: either the
                # simulator is not deterministic or the code under test keeps
                # state from run to run. Two fresh processes decide (below).
                history_notes.append("seed %s: the same plan gave %s/%s then %s/%s in one worker process"
                                     % (r["seed"], r["result"]["outcome"], r["result"]["hash"],
                                        r["rerun"]["outcome"], r["rerun"]["hash"]))
                if r["result"]["outcome"] == "OK":
                    continue
            candidates.append((r["seed"], r["plan"], r["result"], w.pool.exe))
        for d in w.deaths:
            if d.get("infra"):
                continue
            seed_hex = "%016x" % d["seed"]
            plan = gen_plan(w.pool.exe, d["seed"], tier)
            first = classify_crash(d["rc"], d["stderr"])
            if first.get("outcome") == "RESOURCE":
                tot["misc"]["runs_ended_by_a_refused_allocation"] = tot["misc"].get("runs_ended_by_a_refused_allocation", 0) + 1
                continue
            candidates.append((seed_hex, plan, first, w.pool.exe))
    # every harness gets its turn among the first candidates
    by_exe = {}
    for c in candidates:
        by_exe.setdefault(c[3], []).append(c)
    picked = []
    for lst in by_exe.values():
        picked += lst[:max(4, 12 // len(by_exe))]
    violations, known_hits, infra2 = process_candidates(prop, tier, picked[:14], sys.stderr)
    infra += infra2
    if tot["recheck_mismatch"] or history_notes:
        msg = ("%d in-process re-runs disagreed with the first execution (state kept from run to run)"
               % max(tot["recheck_mismatch"], len(history_notes)))
        # A clean run whose second execution in the same process differs is not a
        # failure of the check: code under test may legitimately depend on the
        # history of the process (addresses, caches) without violating anything.
        # The unchanged tree shows no such dependence (tools/selftest.py); the
        # count is reported in the evidence. A *violation* that does not
        # reproduce in a fresh process is a machinery failure (see the gate).
        print("note: " + msg)
        history_dependence = history_notes[:5]

    wall = time.time() - t0
    runs = tot["runs"]
    samples = []
    for w in ws:
        for s in w.samples:
            samples.append({"seed": s["seed"], "plan": s["plan"], "result": s["result"]})
    for v in violations + known_hits:
        samples.append({"seed": v["seed"], "minimised_plan": v["plan"], "class": v["class"], "detail": v["detail"]})
    fault_counts = tot["faults"]
    probe_hits = tot["probes"]
    evidence = {
        "property_id": prop, "tier": tier, "seed": base, "level": "exploration",
        "coverage": {
            "evaluations": runs,
            "distinct_nontrivial": distinct,
            "rule": describe["rule"],
            "samples": samples[:6],
            "nontrivial_runs": tot["nontrivial"],
            "runs_per_hour": int(runs / max(wall - t_build, 0.001) * 3600),
            "seeds": {"base": base, "derivation": "run seed = mix(mix(VERIF_SEED, fnv1a(property)), index)",
                      "first_index": 0, "index_limit": cfg["count"], "executed": runs},
            "sim_time_covered": {"value": tot["sim_time"], "unit": describe.get("sim_time_unit", "n/a")},
            "fault_counts": fault_counts,
            "fault_kinds_never_fired": sorted(k for k, v in fault_counts.items() if v == 0),
            "probe_hits": probe_hits,
            "probes_never_hit": sorted(k for k, v in probe_hits.items() if v == 0),
            "distinct_states": {"count": len(tot["state_keys"]), "measure": describe.get("state_measure", "n/a"),
                                "examples": sorted(tot["state_keys"])[:12]},
            "distinct_interleavings": {"count": distinct, "measure": describe.get("distinct_measure", "distinct trace hashes of non-trivial runs")},
            "outcomes": tot["outcomes"],
            "misc": tot["misc"],
            "components": describe["components"],
            "determinism": {"plans_rerun_in_worker": tot["rechecked"], "hash_mismatches": tot["recheck_mismatch"]},
            "worker_restarts": tot["restarts"],
            "per_harness": per_harness,
            "known_findings_seen": [{"id": k.get("known_id"), "seed": k["seed"], "replay": k["replay"]} for k in known_hits],
            "violations_reported": [{"seed": v["seed"], "class": v["class"], "replay": v["replay"], "detail": v["detail"]} for v in violations],
            "infra_messages": infra,
            "process_history_dependence": history_dependence,
            "build_s": round(t_build, 1),
            "workers": cfg["workers"],
            "deadline_hit": tot["deadline_hit"],
            "repo": repo_state(),
        },
        "assumptions": describe["assumptions"],
        "wall_s": round(wall, 1),
        "violations": len(violations),
    }
    os.makedirs(EVIDENCE, exist_ok=True)
    with open(os.path.join(EVIDENCE, prop + ".json"), "w") as f:
        json.dump(evidence, f, indent=1)

    print("%s %s: %d runs (%d non-trivial, %d distinct executions) in %.1fs (build %.1fs), %d worker restarts"
          % (prop, tier, runs, tot["nontrivial"], distinct, wall, t_build, tot["restarts"]))
    never = evidence["coverage"]["probes_never_hit"]
    if never:
        print("%s: probes never hit: %s" % (prop, ", ".join(never)))
    for k in known_hits:
        print("KNOWN-FINDING: property=%s %s (replay=%s)" % (prop, k.get("what"), k["replay"]))
    for v in violations:
        print("%s/%s: %s" % (v["class"][0], v["class"][1], v["detail"]))
        print("VIOLATION property=%s replay=%s" % (prop, v["replay"]))
    if violations:
        return 1
    if infra:
        for m in infra:
            print("INFRA: " + m)
        return 2
    if runs == 0:
        print("INFRA: no run was executed")
        return 2
    return 0
