#!/usr/bin/env python3
"""selftest.py determinism [PROP ...] [--seeds N]
   selftest.py simfs

Proves that a run is a pure function of its seed: for every harness the same
run indices are executed
  (a) twice in separate fresh processes,
  (b) spread over 4 and over 16 worker processes (different neighbours in the
      same process, different order),
  (c) under a different PYTHONHASHSEED of the driver,
  (d) for a sample: generated and replayed through the plan file in a fresh
      process each ('gen' + 'run'),
and all (outcome, trace hash) pairs are compared. Any mismatch is reported and
the exit code is 2.
"""
import json
import os
import subprocess
import sys

sys.path.insert(0, os.path.dirname(os.path.abspath(__file__)))
import simdrv  # noqa: E402
from props import PROPS  # noqa: E402


def batch(exe, tier, base, start, stride, count, tag):
    log = os.path.join(simdrv.RUN_DIR, "selftest-%s-%d-%d" % (tag, start, os.getpid()))
    cmd = [exe, "batch", "--tier", tier, "--base", str(base), "--start", str(start), "--stride", str(stride),
           "--count", str(count), "--samples", "0", "--recheck", "0", "--runlog", log]
    return subprocess.Popen(cmd, stdout=subprocess.DEVNULL, stderr=subprocess.DEVNULL, env=simdrv.harness_env(exe=exe)), log


def read_log(path):
    out = {}
    with open(path) as f:
        for line in f:
            parts = line.split()
            if len(parts) == 4:
                out[int(parts[0])] = (parts[1], parts[2], parts[3])
    os.unlink(path)
    return out


def spread(exe, tier, base, count, workers, tag):
    procs = [batch(exe, tier, base, w, workers, count, "%s-w%d" % (tag, workers)) for w in range(workers)]
    merged = {}
    for p, log in procs:
        p.wait()
        merged.update(read_log(log))
    return merged


def simfs_test():
    """the simulated file layer answers the calls of libstdc++'s std::filesystem and of
    plain POSIX clients (sim/test_simfs.cpp)"""
    exe = os.path.join(simdrv.VERIF, "build", "test_simfs")
    cmd = ["clang++", "-std=c++17", "-g", "-O1", "-I" + simdrv.VERIF, "-fsanitize=address",
           os.path.join(simdrv.VERIF, "sim", "test_simfs.cpp"), os.path.join(simdrv.VERIF, "sim", "simfs.cpp"),
           os.path.join(simdrv.VERIF, "sim", "budget.cpp"), "-ldl", "-o", exe]
    p = subprocess.run(cmd, capture_output=True, text=True)
    if p.returncode != 0:
        print(p.stderr[-2000:])
        return 2
    p = subprocess.run([exe], capture_output=True, text=True, env=simdrv.harness_env())
    print(p.stdout.strip())
    return 0 if p.returncode == 0 else 2


def main():
    args = sys.argv[1:]
    if args and args[0] == "simfs":
        return simfs_test()
    if not args or args[0] != "determinism":
        print(__doc__)
        return 2
    n = 2000
    props = []
    it = iter(args[1:])
    for a in it:
        if a == "--seeds":
            n = int(next(it))
        else:
            props.append(a.upper())
    if not props:
        props = sorted(PROPS)
    os.makedirs(simdrv.RUN_DIR, exist_ok=True)
    base = int(os.environ.get("VERIF_SEED", 424242))
    bad = 0
    for prop, target in [(p, t) for p in props for t in [PROPS[p]["target"]] + [e["target"] for e in PROPS[p].get("extra_targets", [])]]:
        ok, _ = simdrv.buildmod.build([target])
        if not ok:
            print("INFRA: build failed for %s" % target)
            return 2
        exe = os.path.join(simdrv.BIN, target)
        for tier in ("quick", "thorough"):
            a = spread(exe, tier, base, n, 1, target + tier + "a")
            b = spread(exe, tier, base, n, 1, target + tier + "b")
            c = spread(exe, tier, base, n, 4, target + tier)
            d = spread(exe, tier, base, n, 16, target + tier)
            mism = 0
            for idx in range(n):
                vals = {x.get(idx) for x in (a, b, c, d)}
                if len(vals) != 1 or None in vals:
                    mism += 1
                    if mism <= 3:
                        print("  %s %s index %d: %s" % (prop, tier, idx, [x.get(idx) for x in (a, b, c, d)]))
            # (d) plan file round trip in fresh processes
            sample = list(range(0, n, max(1, n // 25)))
            rt = 0
            for idx in sample:
                seed_hex = a[idx][0]
                plan = simdrv.gen_plan(exe, int(seed_hex, 16), tier)
                res, _ = simdrv.run_plan(exe, plan)
                if (res.get("outcome"), res.get("hash")) != (a[idx][1], a[idx][2]):
                    rt += 1
                    if rt <= 3:
                        print("  %s %s index %d: batch %s/%s, gen+run %s/%s" % (prop, tier, idx, a[idx][1], a[idx][2], res.get("outcome"), res.get("hash")))
            print("%s/%s %s: %d indices x 4 executions (1,1,4,16 processes): %d mismatches; %d plan-file round trips: %d mismatches"
                  % (prop, target, tier, n, mism, len(sample), rt))
            bad += mism + rt
    return 2 if bad else 0


if __name__ == "__main__":
    sys.exit(main())
