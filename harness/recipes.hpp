// Shared menu of argument-handler set-ups for the C04, C07 and C09 harnesses.
// Destination types are compile time; keys, separators, checks, formats,
// constraints and flags come from the plan. The menu also describes each
// argument well enough to build rule-obeying command lines *by construction*
// (used only to make workloads interesting; every oracle is differential or
// structural, never "Celma versus this description").
#pragma once

#include <bitset>
#include <deque>
#include <list>
#include <map>
#include <optional>
#include <set>
#include <memory>
#include <sstream>
#include <string>
#include <tuple>
#include <vector>

#include "celma/prog_args.hpp"

#include "celma/container/dynamic_bitset.hpp"

#include "../sim/json.hpp"
#include "../sim/prng.hpp"

namespace recipes {

using sim::Json;
using sim::Rng;
using celma::prog_args::Handler;

struct Dest
{
   bool                                     f1 = false, f2 = false, f3 = true;
   int                                      i = 0;
   long                                     l = 0;
   unsigned                                 u = 0;
   double                                   d = 0.0;
   std::string                              s;
   std::optional< int>                      oi;
   std::optional< std::string>              os;
   std::vector< int>                        vi;
   std::vector< std::string>                vs;
   std::set< int>                           si;
   std::deque< std::string>                 ds;
   std::list< int>                          li;
   std::map< std::string, int>              m;
   std::tuple< int, std::string, double>    t{ 0, "", 0.0};
   std::bitset< 16>                         b;
   std::vector< bool>                       vb;
   std::string                              pos;
   std::string                              cmd;
   int                                      verbose_level = 0;
   bool                                     verbose = false, version = false;
   int                                      sub_i = 0;
   std::string                              sub_s;
   std::vector< int>                        rv;        // DEST_RANGE
   std::bitset< 64>                         rb;        // DEST_RANGE_BITSET
   celma::container::DynamicBitset          dynb{ 8};
   celma::container::DynamicBitset          dynb2{ 64};   // positions clear the bits (unsetFlag)
   std::string                              calls;     // value callable and bracket handlers

   std::string snapshot() const
   {
      std::ostringstream  os_;
      os_ << "f=" << f1 << f2 << f3 << " i=" << i << " l=" << l << " u=" << u << " d=" << d << " s=[" << s << "]";
      os_ << " oi=" << (oi ? std::to_string( *oi) : std::string( "-")) << " os=" << (os ? "[" + *os + "]" : std::string( "-"));
      os_ << " vi=";
      for (int v : vi) os_ << v << ",";
      os_ << " vs=";
      for (auto const& v : vs) os_ << "[" << v << "]";
      os_ << " si=";
      for (int v : si) os_ << v << ",";
      os_ << " ds=";
      for (auto const& v : ds) os_ << "[" << v << "]";
      os_ << " li=";
      for (int v : li) os_ << v << ",";
      os_ << " m=";
      for (auto const& kv : m) os_ << "[" << kv.first << "]" << kv.second << ",";
      os_ << " t=" << std::get< 0>( t) << "[" << std::get< 1>( t) << "]" << std::get< 2>( t);
      os_ << " b=" << b.to_string() << " vb=";
      for (bool v : vb) os_ << (v ? '1' : '0');
      os_ << " pos=[" << pos << "] cmd=[" << cmd << "] vl=" << verbose_level << verbose << version << " sub=" << sub_i << "[" << sub_s << "]";
      if (!rv.empty() || rb.any() || dynb.count() > 0 || dynb.size() != 8 || dynb2.count() > 0 || dynb2.size() != 64)
      {
         os_ << " rv=";
         for (size_t k = 0; k < rv.size() && k < 40; ++k) os_ << rv[ k] << ",";
         os_ << "(" << rv.size() << ") rb=" << rb.to_string() << " dynb=" << dynb.count() << "/" << dynb.size()
             << " dynb2=" << dynb2.count() << "/" << dynb2.size();
      }
      if (!calls.empty()) os_ << " calls=" << calls;
      return os_.str();
   }
};

enum ArgKind { kFlag, kInt, kUnsigned, kDouble, kStr, kOptInt, kOptStr, kIntList, kStrList, kMap, kTuple, kBits, kPositional, kCommand, kRange, kCallValue, kBracket };

/// what the generators need to know about one defined argument
struct ArgInfo
{
   std::string                 skey, lkey;       // without dashes; one may be empty
   ArgKind                     kind = kFlag;
   char                        sep = ',';        // list separator
   char                        pair_sep = ',';   // maps: between key and value
   bool                        multi = false;    // accepts free (space separated) values
   bool                        once = true;      // cardinality limited: use at most once
   bool                        optional_value = false;
   long long                   lo = 0, hi = 99;  // values that pass the checks
   std::vector< std::string>   allowed;          // values check (strings)
   bool                        unique_error = false;
   int                         exact_values = 0; // tuples / exact cardinality
   int                         max_values = 6;
   bool                        in_subgroup = false;
   bool                        invertible = false; // may be preceded by the control character '!'
};

struct Built
{
   std::vector< ArgInfo>       args;
   std::vector< std::string>   setup_errors;     // options the destination type refused
   std::string                 subgroup_key;     // long key that opens the sub-group
};

/// applies an option and records a refusal instead of failing the set-up
template< typename F> void tryOpt( Built& b, const char* what, F f)
{
   try
   {
      f();
   } catch (const std::exception& e)
   {
      b.setup_errors.push_back( std::string( what) + ": " + e.what());
   }
}

inline unsigned fnv1aShort( const std::string& s)
{
   return static_cast< unsigned>( sim::fnv1a( s.data(), s.size()) % 9000);
}

inline bool has( const Json& recipe, const char* set)
{
   const Json&  sets = recipe.get( "sets");
   for (size_t k = 0; k < sets.size(); ++k)
      if (sets.at( k).isStr() && sets.at( k).s() == set) return true;
   return false;
}

inline char sepOf( const Json& recipe)
{
   const std::string&  s = recipe.gets( "sep");
   return s.empty() ? ',' : s[ 0];
}

/// Adds the arguments of the selected recipe sets to the handler.
/// sub: handler for the sub-group (R14), may be nullptr.
inline void build( Handler& h, Handler* sub, Dest& d, const Json& recipe, Built& out)
{
   namespace pa = celma::prog_args;
   const char          sep = sepOf( recipe);
   const bool          multi = recipe.geti( "multi", 0) != 0;
   const bool          sort = recipe.geti( "sort", 0) != 0;
   const long long     unique = recipe.geti( "unique", 0);
   const bool          clear = recipe.geti( "clear", 0) != 0;
   const std::string&  check = recipe.gets( "check");
   const std::string&  fmt = recipe.gets( "fmt");
   const std::string&  card = recipe.gets( "card");
   const std::string&  constraint = recipe.gets( "constraint");
   const bool          mandatory = recipe.geti( "mandatory", 0) != 0;
   // run specific text that ends up in patterns / value lists, so that state
   // keyed by such content cannot be warm from an earlier run
   const std::string&  token = recipe.gets( "token");

   auto listOpts = [ &]( pa::detail::TypedArgBase* a, ArgInfo& ai)
   {
      ai.once = false;
      if (sep != ',') { tryOpt( out, "setListSep", [ &] { a->setListSep( sep); }); ai.sep = sep; }
      if (multi) { tryOpt( out, "setTakesMultiValue", [ &] { a->setTakesMultiValue(); ai.multi = true; }); }
      if (clear) tryOpt( out, "setClearBeforeAssign", [ &] { a->setClearBeforeAssign(); });
      if (sort) tryOpt( out, "setSortData", [ &] { a->setSortData(); });
      if (unique == 1) tryOpt( out, "setUniqueData", [ &] { a->setUniqueData(); });
      if (unique == 2) tryOpt( out, "setUniqueData(true)", [ &] { a->setUniqueData( true); ai.unique_error = true; });
      // with a cardinality the values of all uses add up: use such an argument once
      if (card == "max") tryOpt( out, "cardinality_max", [ &] { a->setCardinality( pa::cardinality_max( 4)); ai.max_values = 4; ai.once = true; });
      if (card == "exact") tryOpt( out, "cardinality_exact", [ &] { a->setCardinality( pa::cardinality_exact( 3)); ai.exact_values = 3; ai.once = true; });
      if (card == "range") tryOpt( out, "cardinality_range", [ &] { a->setCardinality( pa::cardinality_range( 1, 5)); ai.max_values = 5; ai.once = true; });
   };

   if (has( recipe, "R1"))
   {
      h.addArgument( "a", DEST_VAR( d.f1), "flag one");
      h.addArgument( "b,bflag", DEST_VAR( d.f2), "flag two");
      auto  a3 = h.addArgument( "c,cflag", DEST_VAR( d.f3), "flag three");
      tryOpt( out, "unsetFlag", [ &] { a3->unsetFlag(); });
      out.args.push_back( ArgInfo{ "a", "", kFlag});
      out.args.push_back( ArgInfo{ "b", "bflag", kFlag});
      out.args.push_back( ArgInfo{ "c", "cflag", kFlag});
   }
   if (has( recipe, "R2"))
   {
      auto     ai_ = h.addArgument( "i,int", DEST_VAR( d.i), "integer");
      ArgInfo  ii{ "i", "int", kInt};
      if (mandatory) tryOpt( out, "setIsMandatory", [ &] { ai_->setIsMandatory(); });
      if (check == "lower") { tryOpt( out, "lower", [ &] { ai_->addCheck( pa::lower( 10)); }); ii.lo = 10; }
      else if (check == "upper") { tryOpt( out, "upper", [ &] { ai_->addCheck( pa::upper( 50)); }); ii.hi = 49; }
      else if (check == "range") { tryOpt( out, "range", [ &] { ai_->addCheck( pa::range( 5, 25)); }); ii.lo = 5; ii.hi = 24; }
      else if (check == "values")
      {
         // (the run specific token makes the list differ from run to run)
         const std::string  extra = token.empty() ? std::string( "13") : std::to_string( 1000 + fnv1aShort( token));
         tryOpt( out, "values", [ &] { ai_->addCheck( pa::values( "3,7,11," + extra)); });
         ii.allowed = { "3", "7", "11", extra};
      }
      out.args.push_back( ii);
      h.addArgument( "l,long-val", DEST_VAR( d.l), "long");
      out.args.push_back( ArgInfo{ "l", "long-val", kInt});
      h.addArgument( "u", DEST_VAR( d.u), "unsigned");
      out.args.push_back( ArgInfo{ "u", "", kUnsigned});
      h.addArgument( "d,dbl", DEST_VAR( d.d), "double");
      out.args.push_back( ArgInfo{ "d", "dbl", kDouble});
      auto     as = h.addArgument( "s,str", DEST_VAR( d.s), "string");
      ArgInfo  si{ "s", "str", kStr};
      if (fmt == "upper") tryOpt( out, "uppercase", [ &] { as->addFormat( pa::uppercase()); });
      else if (fmt == "lower") tryOpt( out, "lowercase", [ &] { as->addFormat( pa::lowercase()); });
      if (check == "pattern") tryOpt( out, "pattern", [ &] { as->addCheck( pa::pattern( "^[a-zA-Z0-9 _.:'\"\\\\-]*$" + (token.empty() ? std::string() : "|^" + token + "$"))); });
      if (check == "minlen") tryOpt( out, "minLength", [ &] { as->addCheck( pa::minLength( 1)); });
      out.args.push_back( si);
      if (constraint == "requires") tryOpt( out, "requires", [ &] { ai_->addConstraint( pa::requiresArg( "s")); });
      if (constraint == "excludes") tryOpt( out, "excludes", [ &] { ai_->addConstraint( pa::excludes( "u")); });
      if (constraint == "all_of") tryOpt( out, "all_of", [ &] { h.addConstraint( pa::all_of( "i;s")); });
      if (constraint == "any_of") tryOpt( out, "any_of", [ &] { h.addConstraint( pa::any_of( "i;l;u")); });
      if (constraint == "one_of") tryOpt( out, "one_of", [ &] { h.addConstraint( pa::one_of( "l;u")); });
   }
   if (has( recipe, "R3"))
   {
      const bool  opt = recipe.gets( "optmode") == "optional";
      auto  a1 = h.addArgument( "o,opt-int", DEST_VAR( d.oi), "optional int");
      auto  a2 = h.addArgument( "p,opt-str", DEST_VAR( d.os), "optional string");
      ArgInfo  i1{ "o", "opt-int", kOptInt}, i2{ "p", "opt-str", kOptStr};
      if (opt)
      {
         // (the library may refuse the mode for this destination type)
         tryOpt( out, "ValueMode::optional", [ &] { a1->setValueMode( Handler::ValueMode::optional); i1.optional_value = true; });
         tryOpt( out, "ValueMode::optional", [ &] { a2->setValueMode( Handler::ValueMode::optional); i2.optional_value = true; });
      }
      out.args.push_back( i1);
      out.args.push_back( i2);
   }
   if (has( recipe, "R4"))
   {
      auto     a1 = h.addArgument( "v,vec", DEST_VAR( d.vi), "int vector");
      ArgInfo  i1{ "v", "vec", kIntList};
      listOpts( a1, i1);
      out.args.push_back( i1);
      auto     a2 = h.addArgument( "w,words", DEST_VAR( d.vs), "string vector");
      ArgInfo  i2{ "w", "words", kStrList};
      listOpts( a2, i2);
      if (fmt == "upper") tryOpt( out, "uppercase", [ &] { a2->addFormat( pa::uppercase()); });
      out.args.push_back( i2);
   }
   if (has( recipe, "R5"))
   {
      auto     a1 = h.addArgument( "e,set", DEST_VAR( d.si), "int set");
      ArgInfo  i1{ "e", "set", kIntList};
      listOpts( a1, i1);
      out.args.push_back( i1);
      auto     a2 = h.addArgument( "q,deque", DEST_VAR( d.ds), "string deque");
      ArgInfo  i2{ "q", "deque", kStrList};
      listOpts( a2, i2);
      out.args.push_back( i2);
      auto     a3 = h.addArgument( "k,list", DEST_VAR( d.li), "int list");
      ArgInfo  i3{ "k", "list", kIntList};
      listOpts( a3, i3);
      out.args.push_back( i3);
   }
   if (has( recipe, "R6"))
   {
      auto     a1 = h.addArgument( "m,map", DEST_VAR( d.m), "map");
      ArgInfo  i1{ "m", "map", kMap};
      i1.once = false;
      i1.sep = ';';
      if (sep != ',' && sep != ';')
      {
         // list separator from the plan, pair separator stays ','
         tryOpt( out, "map setListSep", [ &] { a1->setListSep( sep); i1.sep = sep; });
      }
      if (recipe.geti( "pairfmt", 0) != 0)
         tryOpt( out, "setPairFormat", [ &] { a1->setPairFormat( "="); i1.pair_sep = '='; });
      if (clear) tryOpt( out, "map clear", [ &] { a1->setClearBeforeAssign(); });
      out.args.push_back( i1);
   }
   if (has( recipe, "R7"))
   {
      auto     a1 = h.addArgument( "t,tuple", DEST_VAR( d.t), "tuple");
      ArgInfo  i1{ "t", "tuple", kTuple};
      i1.exact_values = 3;
      if (sep != ',') { tryOpt( out, "tuple setListSep", [ &] { a1->setListSep( sep); i1.sep = sep; }); }
      out.args.push_back( i1);
   }
   if (has( recipe, "R8"))
   {
      auto     a1 = h.addArgument( "x,bits", DEST_VAR( d.b), "bitset");
      ArgInfo  i1{ "x", "bits", kBits};
      i1.once = false;
      i1.hi = 15;
      if (sep != ',') { tryOpt( out, "bitset setListSep", [ &] { a1->setListSep( sep); i1.sep = sep; }); }
      out.args.push_back( i1);
      auto     a2 = h.addArgument( "y,vbool", DEST_VAR( d.vb), "vector bool");
      ArgInfo  i2{ "y", "vbool", kBits};
      i2.once = false;
      i2.hi = 40;
      if (sep != ',') { tryOpt( out, "vbool setListSep", [ &] { a2->setListSep( sep); i2.sep = sep; }); }
      out.args.push_back( i2);
   }
   if (has( recipe, "R11"))
   {
      h.addArgument( "verbose", DEST_VAR( d.verbose), "verbose");
      h.addArgument( "verbose-level", DEST_VAR( d.verbose_level), "verbose level");
      h.addArgument( "version", DEST_VAR( d.version), "version");
      out.args.push_back( ArgInfo{ "", "verbose", kFlag});
      out.args.push_back( ArgInfo{ "", "verbose-level", kInt});
      out.args.push_back( ArgInfo{ "", "version", kFlag});
   }
   if (has( recipe, "R12"))
   {
      h.addArgument( "-", DEST_VAR( d.pos), "positional");
      ArgInfo  i1{ "", "", kPositional};
      out.args.push_back( i1);
   }
   if (has( recipe, "R13"))
   {
      // value mode "command": this argument takes the rest of the line as one string
      auto  a1 = h.addArgument( "j,exec", DEST_VAR( d.cmd), "command");
      tryOpt( out, "ValueMode::command", [ &] { a1->setValueMode( Handler::ValueMode::command); });
      out.args.push_back( ArgInfo{ "j", "exec", kCommand});
   }
   if (has( recipe, "R15"))
   {
      // range strings ("1-5", "3,7,10-20[2]", "1-9{2-8}") into a container or a
      // bitset, bit positions into the library's own dynamic bitset
      h.addArgument( "r,range", DEST_RANGE( d.rv, int, std::vector), "range into vector");
      ArgInfo  i1{ "r", "range", kRange};
      i1.once = false;
      i1.hi = 99;
      out.args.push_back( i1);
      h.addArgument( "R,range-bits", DEST_RANGE_BITSET( d.rb, 64), "range into bitset");
      ArgInfo  i2{ "R", "range-bits", kRange};
      i2.once = false;
      i2.hi = 63;
      out.args.push_back( i2);
      auto     a3 = h.addArgument( "Y,dyn-bits", DEST_VAR( d.dynb), "dynamic bitset");
      ArgInfo  i3{ "Y", "dyn-bits", kBits};
      i3.once = false;
      i3.hi = 200;
      if (sep != ',') { tryOpt( out, "dynbits setListSep", [ &] { a3->setListSep( sep); i3.sep = sep; }); }
      out.args.push_back( i3);
      // a second one that starts with all 64 bits set; its argument clears bits
      d.dynb2.flip();
      auto     a4 = h.addArgument( "Z,dyn-clear", DEST_VAR( d.dynb2), "dynamic bitset, bits are cleared");
      ArgInfo  i4{ "Z", "dyn-clear", kBits};
      i4.once = false;
      i4.hi = 70;
      tryOpt( out, "dynbits unsetFlag", [ &] { a4->unsetFlag(); });
      if (sep != ',') { tryOpt( out, "dynbits2 setListSep", [ &] { a4->setListSep( sep); i4.sep = sep; }); }
      out.args.push_back( i4);
   }
   if (has( recipe, "R16"))
   {
      // control characters: '!' in front of an argument that allows inversion
      // (a value callable), '(' and ')' with bracket handlers
      Dest* const  dp = &d;
      auto     a1 = h.addArgument( "K,call", DEST_LAMBDA_VALUE( ([ dp]( const std::string& v, bool inverted)
                                      { dp->calls += (inverted ? "!" : "") + v + ";"; })), "value callable");
      ArgInfo  i1{ "K", "call", kCallValue};
      i1.once = false;
      tryOpt( out, "allowsInversion", [ &] { a1->allowsInversion(); i1.invertible = true; });
      out.args.push_back( i1);
      tryOpt( out, "addBracketHandler", [ &]
      {
         h.addBracketHandler( [ dp]() { dp->calls += "(;"; }, [ dp]() { dp->calls += ");"; });
         ArgInfo  i2{ "", "", kBracket};
         i2.once = false;
         out.args.push_back( i2);
      });
   }
   if (has( recipe, "R14") && sub != nullptr)
   {
      sub->addArgument( "n,sub-int", DEST_VAR( d.sub_i), "sub int");
      sub->addArgument( "z,sub-str", DEST_VAR( d.sub_s), "sub string");
      h.addArgument( "g,group", *sub, "sub group");
      out.subgroup_key = "group";
      ArgInfo  i1{ "n", "sub-int", kInt}, i2{ "z", "sub-str", kStr};
      i1.in_subgroup = i2.in_subgroup = true;
      out.args.push_back( i1);
      out.args.push_back( i2);
   }
}

/// What the generators need to know about a recipe's arguments, obtained from
/// a scratch set-up that uses a neutral token: the generator runs in the same
/// process as the simulated run and must not warm anything that is keyed by
/// the run specific content (patterns, value lists).
inline void describeRecipe( const Json& recipe, Built& out, bool with_subgroup)
{
   Json  neutral = recipe;
   neutral[ "token"] = "gen";
   Dest                d;
   std::ostringstream  o1, o2;
   try
   {
      Handler                    h( o1, o2, 0);
      std::unique_ptr< Handler>  sub;
      if (with_subgroup && has( neutral, "R14")) sub.reset( new Handler( h, 0));
      build( h, sub.get(), d, neutral, out);
   } catch (const std::exception&)
   {
   }
   const std::string&  token = recipe.gets( "token");
   if (!token.empty())
      for (auto & a : out.args)
         if (a.allowed.size() == 4)
            a.allowed[ 3] = std::to_string( 1000 + fnv1aShort( token));
}

/// draws a recipe (which sets, which options)
inline Json genRecipe( Rng& rng, bool allow_positional, bool allow_subgroup, bool allow_command = false, bool allow_ranges = false,
                       bool allow_control = false)
{
   static const char* const  sets[] = { "R1", "R2", "R3", "R4", "R5", "R6", "R7", "R8", "R11" };
   Json  r = Json::object();
   Json  chosen = Json::array();
   const size_t  n = 1 + static_cast< size_t>( rng.below( 4));
   std::vector< bool>  used( 9, false);
   for (size_t k = 0; k < n; ++k)
   {
      size_t  pick = static_cast< size_t>( rng.below( 9));
      if (used[ pick]) continue;
      used[ pick] = true;
      chosen.push( sets[ pick]);
   }
   // free multi-value words and positional words compete for the same words
   const bool  multi = rng.chance( 1, 3);
   if (allow_positional && !multi && rng.chance( 1, 4)) chosen.push( "R12");
   if (allow_subgroup && rng.chance( 1, 6)) chosen.push( "R14");
   if (allow_command && rng.chance( 1, 5)) chosen.push( "R13");
   if (allow_ranges && rng.chance( 1, 4)) chosen.push( "R15");
   if (allow_control && rng.chance( 1, 4)) chosen.push( "R16");
   r[ "sets"] = chosen;
   static const char* const  seps[] = { ",", ",", ";", ":", ".", "+", "|" };
   r[ "sep"] = seps[ rng.below( 7)];
   r[ "multi"] = multi;
   r[ "sort"] = rng.chance( 1, 4);
   r[ "unique"] = static_cast< long long>( rng.chance( 1, 2) ? 0 : rng.range( 1, 2));
   r[ "clear"] = rng.chance( 1, 5);
   static const char* const  checks[] = { "", "", "lower", "upper", "range", "values", "pattern", "minlen" };
   r[ "check"] = checks[ rng.below( 8)];
   static const char* const  fmts[] = { "", "", "upper", "lower" };
   r[ "fmt"] = fmts[ rng.below( 4)];
   static const char* const  cards[] = { "", "", "", "max", "exact", "range" };
   r[ "card"] = cards[ rng.below( 6)];
   static const char* const  cons[] = { "", "", "", "requires", "excludes", "all_of", "any_of", "one_of" };
   r[ "constraint"] = cons[ rng.below( 8)];
   r[ "mandatory"] = rng.chance( 1, 6);
   r[ "optmode"] = rng.chance( 1, 2) ? "optional" : "required";
   r[ "pairfmt"] = rng.chance( 1, 4);
   return r;
}

// ------------------------------------------------------- value generators

/// C04 only: string values that are small text blocks (several lines, list
/// items "- ...", words up to a few hundred characters): what the usage
/// output prints as the default value of a destination and has to wrap
inline bool  g_text_blocks = false;

inline std::string genTextBlock( Rng& rng, const std::string& forbidden)
{
   std::string   s;
   const size_t  lines = 1 + static_cast< size_t>( rng.below( 3));
   for (size_t l = 0; l < lines; ++l)
   {
      if (l > 0) s += "\n";
      if (l > 0 && rng.chance( 1, 2)) s += "- ";
      const size_t  words = 1 + static_cast< size_t>( rng.below( 4));
      for (size_t w = 0; w < words; ++w)
      {
         size_t  len = 1 + static_cast< size_t>( rng.below( 10));
         // long words: dense around one and two times the width a wrapped
         // usage line can have (80 columns minus the indent), plus a wide spread
         if (rng.chance( 2, 5))
         {
            const unsigned  pick = static_cast< unsigned>( rng.below( 4));
            len = static_cast< size_t>( pick <= 1 ? rng.range( 50, 82) : (pick == 2 ? rng.range( 100, 165) : rng.range( 40, 330)));
         }
         if (w > 0) s += " ";
         s += std::string( len, static_cast< char>( 'a' + rng.below( 26)));
      }
   }
   for (auto & c : s)
      if (forbidden.find( c) != std::string::npos) c = 'x';
   return s;
}

inline std::string genStringValue( Rng& rng, const std::string& forbidden, bool hostile)
{
   static const char  plain[] = "abcdefghijklmnopqrstuvwxyzABCXYZ0123456789_";
   static const char  special[] = " '\"\\ :.";
   if (hostile && g_text_blocks && rng.chance( 1, 4))
      return genTextBlock( rng, forbidden);
   std::string   s;
   const size_t  len = 1 + static_cast< size_t>( rng.below( hostile ? 12 : 6));
   for (size_t k = 0; k < len; ++k)
   {
      char  c = (hostile && rng.chance( 1, 3)) ? special[ rng.below( sizeof( special) - 1)]
                                               : plain[ rng.below( sizeof( plain) - 1)];
      if (forbidden.find( c) != std::string::npos) c = 'x';
      s.push_back( c);
   }
   // a value must not look like a key, a control character or an empty word
   if (s[ 0] == '-' || s[ 0] == '!' || s[ 0] == '(' || s[ 0] == ')' || s[ 0] == ' ' || s[ 0] == '=') s[ 0] = 'v';
   return s;
}

/// value words of one use of an argument; empty vector: the argument takes no value
inline std::vector< std::string> genValues( Rng& rng, const ArgInfo& a, bool hostile_strings)
{
   std::vector< std::string>  v;
   auto intVal = [ &]() -> std::string
   {
      if (!a.allowed.empty()) return a.allowed[ rng.below( a.allowed.size())];
      return std::to_string( rng.range( a.lo, a.hi));
   };
   const std::string  no_sep = std::string( 1, a.sep) + std::string( 1, a.pair_sep) + "{}";
   switch (a.kind)
   {
   case kFlag: break;
   case kInt: case kUnsigned: v.push_back( intVal()); break;
   case kDouble: v.push_back( std::to_string( rng.range( 0, 999)) + "." + std::to_string( rng.range( 0, 99))); break;
   case kStr: v.push_back( genStringValue( rng, "", hostile_strings)); break;
   case kOptInt: if (!a.optional_value || rng.chance( 2, 3)) v.push_back( intVal()); break;
   case kOptStr: if (!a.optional_value || rng.chance( 2, 3)) v.push_back( genStringValue( rng, "", hostile_strings)); break;
   case kIntList: case kStrList:
   {
      size_t  n = a.exact_values ? static_cast< size_t>( a.exact_values) : 1 + static_cast< size_t>( rng.below( static_cast< uint64_t>( a.max_values)));
      std::vector< std::string>  items;
      for (size_t k = 0; k < n; ++k)
      {
         std::string  item = (a.kind == kIntList) ? std::to_string( a.unique_error ? static_cast< long long>( 100 * k) + rng.range( 0, 99) : rng.range( 0, 99))
                                                  : genStringValue( rng, no_sep, hostile_strings) + (a.unique_error ? std::to_string( k) : std::string());
         items.push_back( item);
      }
      if (a.multi && rng.chance( 1, 2))
      {
         v = items;   // free words
         // values that start with a dash need "--" in front of them
         if (a.kind == kIntList && a.exact_values == 0 && !a.unique_error && items.size() + 2 <= static_cast< size_t>( a.max_values)
             && rng.chance( 1, 3))
         {
            v.push_back( "--");
            v.push_back( "-" + std::to_string( rng.range( 1, 99)));
            if (rng.chance( 1, 2)) v.push_back( "-" + std::to_string( rng.range( 100, 199)));
         }
      }
      else
      {
         std::string  joined;
         for (size_t k = 0; k < items.size(); ++k) joined += (k ? std::string( 1, a.sep) : std::string()) + items[ k];
         v.push_back( joined);
      }
      break;
   }
   case kMap:
   {
      size_t       n = 1 + static_cast< size_t>( rng.below( 3));
      std::string  joined;
      for (size_t k = 0; k < n; ++k)
         joined += (k ? std::string( 1, a.sep) : std::string()) + genStringValue( rng, no_sep + ",;=", false)
                   + std::string( 1, a.pair_sep) + std::to_string( rng.range( 0, 99));
      v.push_back( joined);
      break;
   }
   case kTuple:
      v.push_back( std::to_string( rng.range( 0, 99)) + std::string( 1, a.sep) + genStringValue( rng, no_sep, false)
                   + std::string( 1, a.sep) + std::to_string( rng.range( 0, 9)) + ".5");
      break;
   case kBits:
   {
      size_t       n = 1 + static_cast< size_t>( rng.below( 4));
      std::string  joined;
      for (size_t k = 0; k < n; ++k)
      {
         std::string  pos = std::to_string( rng.range( 0, a.hi));
         // positions around the sizes the bit containers of the menu have
         if (rng.chance( 1, 4))
         {
            static const int  edges[] = { 0, 7, 8, 9, 15, 16, 17, 39, 40, 41, 63, 64, 65 };
            const int  e = edges[ rng.below( 13)];
            if (e <= a.hi + 1) pos = std::to_string( e);
         }
         // C04: positions no container can have (small enough to be cheap or
         // so large that any allocation is refused at once)
         if (hostile_strings && g_text_blocks && rng.chance( 1, 8))
         {
            // ("-1" is what lexical_cast< size_t> turns into the largest position;
            // long digit strings are avoided: cut short by a mutation they are
            // legal positions that cost gigabytes and minutes)
            static const char* const  odd[] = { "-1", "-1", "-1", "-0", "+3", "0x10", "1e3", "" };
            pos = odd[ rng.below( 8)];
         }
         joined += (k ? std::string( 1, a.sep) : std::string()) + pos;
      }
      v.push_back( joined);
      break;
   }
   case kRange:
   {
      // numbers of at most two digits: a word glued to another one by a
      // mutation still describes a range of a few thousand values
      auto num = [ &]() { return std::to_string( rng.range( 0, a.hi)); };
      size_t       n = 1 + static_cast< size_t>( rng.below( 3));
      std::string  joined;
      for (size_t k = 0; k < n; ++k)
      {
         std::string  part;
         switch (rng.below( 6))
         {
         case 0: part = num(); break;
         case 1: { long long lo = rng.range( 0, a.hi / 2); part = std::to_string( lo) + "-" + std::to_string( rng.range( lo, a.hi)); break; }
         case 2: { long long lo = rng.range( 0, a.hi / 2); part = std::to_string( lo) + "-" + std::to_string( rng.range( lo, a.hi)) + "[" + std::to_string( rng.range( 1, 5)) + "]"; break; }
         case 3: { long long lo = rng.range( 0, a.hi / 3); part = std::to_string( lo) + "-" + std::to_string( rng.range( lo + 6, a.hi)) + "{" + std::to_string( lo + 1) + "-" + std::to_string( lo + 4) + "}"; break; }
         default:
            if (hostile_strings && g_text_blocks)
            {
               switch (rng.below( 8))
               {
               case 0: part = num() + "-" + num() + "[0]"; break;            // increment zero
               case 1: part = "5-1"; break;
               case 2: part = "1-"; break;
               case 3: part = "-1"; break;
               case 4: part = "1-9{2-8[0]}"; break;
               case 5: part = "1-5[-1]"; break;
               case 6:
               {
                  // nested excludes, a few up to a few thousand levels
                  static const unsigned  depths[] = { 3, 12, 40, 400, 6000 };
                  const unsigned  depth = depths[ rng.below( 5)];
                  part = "1-9";
                  for (unsigned l = 0; l < depth; ++l) part += "{2-8";
                  part += std::string( depth, '}');
                  break;
               }
               default: part = num() + "-" + num() + "[" + num() + "]{" + num() + "}"; break;
               }
            } else
               part = num();
            break;
         }
         joined += (k ? "," : "") + part;
      }
      v.push_back( joined);
      break;
   }
   case kPositional: v.push_back( genStringValue( rng, "", false)); break;
   case kCallValue: v.push_back( genStringValue( rng, "", false)); break;
   case kBracket: v.push_back( rng.chance( 1, 2) ? "(" : ")"); break;
   case kCommand:
   {
      // the command and its own arguments (may be empty: the key is the last word)
      const size_t  n = static_cast< size_t>( rng.below( 4));
      for (size_t k = 0; k < n; ++k)
         v.push_back( rng.chance( 1, 3) ? "-" + genStringValue( rng, "", false) : genStringValue( rng, "", false));
      break;
   }
   }
   return v;
}

/// the words of one use of an argument in a randomly chosen legal spelling
inline std::vector< std::string> genWords( Rng& rng, const ArgInfo& a, const std::vector< std::string>& values)
{
   std::vector< std::string>  w;
   if (a.kind == kPositional || a.kind == kBracket)
      return values;
   if (a.invertible && rng.chance( 1, 3))
      w.push_back( "!");
   const bool  use_long = !a.lkey.empty() && (a.skey.empty() || rng.chance( 1, 2));
   if (values.empty())
   {
      w.push_back( use_long ? "--" + a.lkey : "-" + a.skey);
      return w;
   }
   if (use_long)
   {
      if (rng.chance( 1, 2) && values.size() == 1)
         w.push_back( "--" + a.lkey + "=" + values[ 0]);
      else
      {
         w.push_back( "--" + a.lkey);
         w.insert( w.end(), values.begin(), values.end());
      }
   } else
   {
      w.push_back( "-" + a.skey);
      w.insert( w.end(), values.begin(), values.end());
   }
   return w;
}

/// renders one word for a command-line string (file line, environment
/// variable): style 0 backslash escapes, 1 single quotes, 2 double quotes,
/// 3 mixed. splitString() handles a backslash before anything else, also
/// inside quotes.
inline std::string quoteWord( const std::string& word, unsigned style, bool force_quote)
{
   auto needs = []( char c) { return c == ' ' || c == '\'' || c == '"' || c == '\\'; };
   bool  any = force_quote;
   for (char c : word) if (needs( c)) any = true;
   if (!any)
      return word;
   std::string  out;
   switch (style % 4)
   {
   case 0:
      if (force_quote) { out = "'"; for (char c : word) { if (c == '\'' || c == '\\') out.push_back( '\\'); out.push_back( c); } out.push_back( '\''); break; }
      for (char c : word) { if (needs( c)) out.push_back( '\\'); out.push_back( c); }
      break;
   case 1:
      out = "'";
      for (char c : word) { if (c == '\'' || c == '\\') out.push_back( '\\'); out.push_back( c); }
      out.push_back( '\'');
      break;
   case 2:
      out = "\"";
      for (char c : word) { if (c == '"' || c == '\\') out.push_back( '\\'); out.push_back( c); }
      out.push_back( '"');
      break;
   default:
   {
      // alternate: quoted segment for the first half, escapes for the rest
      const size_t  half = word.size() / 2;
      out = "\"";
      for (size_t k = 0; k < half; ++k) { char c = word[ k]; if (c == '"' || c == '\\') out.push_back( '\\'); out.push_back( c); }
      out.push_back( '"');
      for (size_t k = half; k < word.size(); ++k) { char c = word[ k]; if (needs( c)) out.push_back( '\\'); out.push_back( c); }
      if (half == 0 && force_quote) out = "''" + out.substr( 2);
      break;
   }
   }
   return out;
}

// ------------------------------------------------ hostile / mutated words

inline std::string randomBytes( Rng& rng, size_t len, bool allow_nul)
{
   std::string  s;
   for (size_t k = 0; k < len; ++k)
   {
      unsigned  c = static_cast< unsigned>( rng.below( 256));
      if (c == 0 && !allow_nul) c = 1 + static_cast< unsigned>( rng.below( 255));
      s.push_back( static_cast< char>( c));
   }
   return s;
}

inline std::string punctWord( Rng& rng)
{
   static const char  set[] = "--==()!!-";
   std::string   s;
   const size_t  len = 1 + static_cast< size_t>( rng.below( 6));
   for (size_t k = 0; k < len; ++k) s.push_back( set[ rng.below( sizeof( set) - 1)]);
   return s;
}

/// words of a rule-obeying line for the recipe, then optionally mutated
inline std::vector< std::string> grammarWords( Rng& rng, const Built& built, bool mutate)
{
   std::vector< std::string>  words, command_words;
   for (auto const& a : built.args)
   {
      if (rng.chance( 1, 2)) continue;
      auto  w = genWords( rng, a, genValues( rng, a, true));
      if (a.kind == kCommand) command_words = w;   // takes the rest of the line: goes last
      else words.insert( words.end(), w.begin(), w.end());
   }
   words.insert( words.end(), command_words.begin(), command_words.end());
   if (!mutate || words.empty())
      return words;
   const size_t  nm = 1 + static_cast< size_t>( rng.below( 3));
   for (size_t m = 0; m < nm && !words.empty(); ++m)
   {
      const size_t  at = static_cast< size_t>( rng.below( words.size()));
      switch (rng.below( 8))
      {
      case 0: words.erase( words.begin() + static_cast< long>( at)); break;
      case 1: words.insert( words.begin() + static_cast< long>( at), words[ at]); break;
      case 2: std::swap( words[ at], words[ rng.below( words.size())]); break;
      case 3: if (words[ at].size() > 1) words[ at].resize( 1 + rng.below( words[ at].size() - 1)); break;
      case 4: if (at + 1 < words.size()) { words[ at] += words[ at + 1]; words.erase( words.begin() + static_cast< long>( at) + 1); } break;
      case 5: words.insert( words.begin() + static_cast< long>( at), punctWord( rng)); break;
      case 6: words[ at] = "-" + words[ at]; break;
      default: words.insert( words.begin() + static_cast< long>( at), randomBytes( rng, 1 + rng.below( 8), false)); break;
      }
   }
   return words;
}

} // namespace recipes
