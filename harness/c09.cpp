// C09 - independent handlers can be used concurrently.
// Real code: prog_args::Handler and everything below it (ArgListParser,
// TypedArg<...>, common::Tokenizer, ConstraintContainer, format::toString,
// boost::lexical_cast, Groups singleton when usage is printed), libstdc++.
// Replaced: the OS thread scheduler (sim/sched.cpp). ThreadSanitizer runs
// inside every simulated run.

#include <locale>
#include <sstream>
#include <thread>

#include "handler_eval.hpp"

#include "../sim/harness.hpp"
#include "../sim/sched.hpp"
#include "../sim/sched_json.hpp"
#include "../sim/symbolize.hpp"

using sim::Json;
using sim::Result;
using sim::Rng;
using sim::Stats;
using celma::prog_args::Handler;

namespace {

enum FaultId { F_preemption, F_child_first, F_parent_first, F_lock_contention };
const char* const kFaultNames[] = { "preemption", "child_runs_first_at_create", "parent_runs_first_at_create", "mutex_contention" };
enum ProbeId { P_threads_2, P_threads_3_4, P_threads_5_8, P_threads_9_16, P_job_returned, P_job_threw, P_job_with_usage,
               P_different_separators, P_job_evaluated_repeatedly, P_policy_random, P_policy_pct, P_policy_rr,
               P_switches_over_100, P_one_job_through_groups };
const char* const kProbeNames[] = { "threads_2", "threads_3_to_4", "threads_5_to_8", "threads_9_to_16", "job_returned", "job_threw",
               "job_printed_usage_groups_singleton", "neighbouring_threads_with_different_separators", "job_evaluated_repeatedly",
               "policy_random", "policy_pct", "policy_rr", "more_than_100_context_switches",
               "one_thread_evaluates_through_the_groups_front_end" };

struct Job
{
   recipes::EvalCfg   cfg;
   recipes::EvalOut   solo;
   recipes::EvalOut   conc;
};

Result*  g_result = nullptr;

void onFatal( const char* kind, const char* detail)
{
   Result  r;
   if (g_result != nullptr) r = *g_result;
   r.outcome = "OK";
   r.fail( kind, strcmp( kind, "DEADLOCK") == 0 ? "T3-deadlock" : "T3-progress", detail);
   sim::SchedStats  st;
   sim::schedEnd( &st);
   r.sim_time = st.points;
   r.hash = st.switch_hash;
   r.extra = Json::object();
   r.extra[ "explicit_schedule"] = sim::explicitSchedule();
   sim::abandonRun( r);
}

void worker( Job* job)
{
   job->conc = recipes::evaluate( job->cfg);
}

/// One fixed single-threaded pass over the recipe menu per process.
void warmUp()
{
   static bool  done = false;
   if (done) return;
   done = true;
   // libstdc++ fills the narrow table of std::ctype<char> per character on
   // first use (a documented benign race of the library, not Celma state)
   {
      auto const&  ct = std::use_facet< std::ctype< char>>( std::locale());
      char         lo[ 256], dst[ 256];
      for (int c = 0; c < 256; ++c) lo[ c] = static_cast< char>( c);
      ct.narrow( lo, lo + 256, '?', dst);
      ct.widen( lo, lo + 256, dst);
      for (int c = 0; c < 256; ++c) { (void) ct.narrow( static_cast< char>( c), '\0'); (void) ct.widen( static_cast< char>( c)); }
   }
   static const char* const  sets[] = { "R1", "R2", "R3", "R4", "R5", "R6", "R7", "R8", "R11", "R13" };
   static const char* const  checks[] = { "", "lower", "upper", "range", "values", "pattern", "minlen" };
   static const char* const  cards[] = { "", "max", "exact", "range" };
   static const char* const  cons[] = { "", "requires", "excludes", "all_of", "any_of", "one_of" };
   Rng  rng( 12345, "warmup");
   for (unsigned round = 0; round < 48; ++round)
   {
      Json  recipe = Json::object();
      Json  chosen = Json::array();
      chosen.push( sets[ round % 10]);
      chosen.push( sets[ (round * 7 + 3) % 10]);
      if ((round % 3) == 1) chosen.push( "R12");
      recipe[ "sets"] = chosen;
      recipe[ "sep"] = (round % 3) ? ";" : ",";
      recipe[ "multi"] = (round % 4) == 1;
      recipe[ "sort"] = (round % 2) == 1;
      recipe[ "unique"] = static_cast< long long>( round % 3);
      recipe[ "clear"] = (round % 5) == 1;
      recipe[ "check"] = checks[ round % 7];
      recipe[ "fmt"] = (round % 3) == 0 ? "upper" : ((round % 3) == 1 ? "lower" : "");
      recipe[ "card"] = cards[ round % 4];
      recipe[ "constraint"] = cons[ round % 6];
      recipe[ "mandatory"] = (round % 6) == 2;
      recipe[ "optmode"] = (round % 2) ? "optional" : "required";
      recipe[ "pairfmt"] = (round % 4) == 3;
      recipe[ "token"] = "warm";
      recipes::Built  built;
      {
         recipes::Dest       d;
         std::ostringstream  o1, o2;
         try
         {
            Handler  h( o1, o2, 0);
            recipes::build( h, nullptr, d, recipe, built);
         } catch (const std::exception&)
         {
         }
      }
      recipes::EvalCfg  cfg;
      cfg.recipe = &recipe;
      cfg.flags = Handler::hfUsageCont | Handler::hfHelpShort | Handler::hfHelpLong | ((round % 2) ? Handler::hfVerboseArgs : 0)
                  | ((round % 3) ? Handler::hfListArgVar : 0) | ((round % 5) == 0 ? Handler::hfNoAbbr : 0);
      cfg.argv = recipes::grammarWords( rng, built, (round % 3) == 0);
      cfg.argv.insert( cfg.argv.begin(), "warm");
      if ((round % 4) == 0) cfg.argv.push_back( "--help");
      if ((round % 8) == 1) cfg.argv.push_back( "--list-arg-vars");
      cfg.repeat = 1 + (round % 2);
      (void) recipes::evaluate( cfg);
      if ((round % 6) == 5)
      {
         // the same through the Groups front end (two handlers of the singleton)
         Json  r2 = recipe;
         Json  s1 = Json::array(), s2 = Json::array();
         s1.push( "R1"); s1.push( "R2");
         s2.push( "R4");
         Json  r1 = recipe;
         r1[ "sets"] = s1;
         r2[ "sets"] = s2;
         recipes::EvalCfg  gcfg = cfg;
         gcfg.recipe = &r1;
         gcfg.recipe2 = &r2;
         gcfg.repeat = 1;
         (void) recipes::evaluate( gcfg);
      }
   }
}

class C09 final: public sim::Harness
{
public:
   const char* property() const override { return "C09"; }
   std::vector< std::string> faultKinds() const override
   {
      return std::vector< std::string>( std::begin( kFaultNames), std::end( kFaultNames));
   }
   std::vector< std::string> probeNames() const override
   {
      return std::vector< std::string>( std::begin( kProbeNames), std::end( kProbeNames));
   }
   std::string stateName( uint64_t key) const override
   {
      return "threads=" + std::to_string( key >> 8) + " distinct_recipe_sets=" + std::to_string( key & 0xff);
   }

   Json gen( uint64_t seed, const std::string& tier) override
   {
      Rng   cfg( seed, "config"), wl( seed, "workload"), sc( seed, "schedule");
      const bool  thorough = (tier == "thorough");
      Json  plan = Json::object();
      plan[ "prop"] = "C09";
      const long long  maxk = thorough ? 16 : 6;
      const long long  k = cfg.chance( 1, 2) ? cfg.range( 2, 3) : cfg.range( 2, maxk);
      // swarm: in some runs all threads work with handler constraints of
      // different kinds over the same scalar arguments (helpers shared by all
      // handlers are then used with different data at the same time)
      const bool  constraint_clash = cfg.chance( 1, 4);
      static const char* const  hcons[] = { "all_of", "any_of", "one_of" };
      Json  threads = Json::array();
      std::vector< std::vector< std::string>>  groups_words;
      for (long long t = 0; t < k; ++t)
      {
         Json  job = Json::object();
         Json  recipe = recipes::genRecipe( cfg, true, false, true);
         if (constraint_clash)
         {
            recipe[ "constraint"] = hcons[ (static_cast< size_t>( t) + cfg.below( 2)) % 3];
            if (!recipes::has( recipe, "R2")) recipe[ "sets"].push( "R2");
         }
         // list destinations in most jobs: the separator handling is where
         // helper classes could share state
         if (cfg.chance( 2, 3))
         {
            static const char* const  list_sets[] = { "R4", "R5", "R6", "R7", "R8" };
            recipe[ "sets"].push( list_sets[ cfg.below( 5)]);
         }
         // run and thread specific text for patterns / value lists
         {
            static const char  alpha[] = "abcdefghijklmnopqrstuvwxyz";
            std::string  token = "t";
            for (int c = 0; c < 6; ++c) token.push_back( alpha[ cfg.below( 26)]);
            recipe[ "token"] = token;
            if (cfg.chance( 1, 3)) { recipe[ "check"] = cfg.chance( 1, 2) ? "pattern" : "values"; if (!recipes::has( recipe, "R2")) recipe[ "sets"].push( "R2"); }
         }
         job[ "recipe"] = recipe;
         Json  flags = Json::array();
         if (cfg.chance( 1, 6)) { flags.push( "hfHelpShort"); flags.push( "hfHelpLong"); }
         if (cfg.chance( 1, 6)) flags.push( "hfVerboseArgs");
         if (cfg.chance( 1, 6)) flags.push( "hfNoAbbr");
         if (cfg.chance( 1, 8)) flags.push( "hfListArgVar");
         job[ "flags"] = flags;
         recipes::Built  built;
         recipes::describeRecipe( recipe, built, false);
         std::vector< std::string>  words = recipes::grammarWords( wl, built, wl.chance( 1, 3));
         if (flags.size() >= 2 && flags.at( 0).s() == "hfHelpShort" && wl.chance( 1, 2))
            words.insert( words.begin(), wl.chance( 1, 2) ? "--help" : "-h");
         if (words.size() > 14) words.resize( 14);
         Json  wj = Json::array();
         for (auto const& w : words) wj.push( w);
         job[ "words"] = wj;
         job[ "repeat"] = wl.chance( 1, 5) ? wl.range( 2, 3) : 1;
         threads.push( job);
         groups_words.push_back( words);
      }
      // in some runs ONE thread evaluates through the Groups front end (the
      // process-wide singleton belongs to it alone); the handlers of the other
      // threads stay ordinary ones, one of them asks for its usage
      if (cfg.chance( 1, 5))
      {
         Json  r1 = threads.at( 0).get( "recipe"), r2 = threads.at( 0).get( "recipe");
         Json  s1 = Json::array(), s2 = Json::array();
         for (auto const& x : r1.get( "sets").arr())
            if (x.s() == "R1" || x.s() == "R2" || x.s() == "R3" || x.s() == "R11") s1.push( x);
            else if (x.s() == "R4" || x.s() == "R5" || x.s() == "R6" || x.s() == "R7" || x.s() == "R8") s2.push( x);
         if (s1.size() == 0) s1.push( "R1");
         if (s2.size() == 0) s2.push( "R4");
         r1[ "sets"] = s1;
         r2[ "sets"] = s2;
         r2[ "constraint"] = "";
         threads.at( 0)[ "recipe"] = r1;
         threads.at( 0)[ "recipe2"] = r2;
         Json  f1 = Json::array();
         f1.push( "hfHelpShort"); f1.push( "hfHelpLong");
         threads.at( 1)[ "flags"] = f1;
         Json  w1 = Json::array();
         for (auto const& w : groups_words[ 1]) w1.push( w);
         w1.push( wl.chance( 1, 2) ? "--help" : "-h");
         threads.at( 1)[ "words"] = w1;
      }
      plan[ "threads"] = threads;
      plan[ "sched"] = sim::genSchedule( sc, 60000 * static_cast< uint64_t>( k));
      return plan;
   }

   Result run( const Json& plan, Stats& st, std::string* trace) override
   {
      Result       res;
      const Json&  tj = plan.get( "threads");
      const size_t k = tj.size();
      if (k < 1 || k > 32) { res.fail( "BADPLAN", "plan", "thread count"); return res; }
      std::vector< Job>  jobs( k);
      std::vector< std::string>  seps;
      std::vector< std::string>  recipe_ids;
      bool                       groups_job_seen = false;
      for (size_t t = 0; t < k; ++t)
      {
         const Json&  j = tj.at( t);
         Job&         job = jobs[ t];
         job.cfg.recipe = &j.get( "recipe");
         if (j.get( "recipe2").isObj() && !groups_job_seen)
         {
            job.cfg.recipe2 = &j.get( "recipe2");
            groups_job_seen = true;
            st.probe( P_one_job_through_groups);
         }
         job.cfg.flags = Handler::hfUsageCont;
         const Json&  fj = j.get( "flags");
         for (size_t f = 0; f < fj.size(); ++f)
         {
            const std::string&  n = fj.at( f).s();
            if (n == "hfHelpShort") job.cfg.flags |= Handler::hfHelpShort;
            else if (n == "hfHelpLong") job.cfg.flags |= Handler::hfHelpLong;
            else if (n == "hfVerboseArgs") job.cfg.flags |= Handler::hfVerboseArgs;
            else if (n == "hfNoAbbr") job.cfg.flags |= Handler::hfNoAbbr;
            else if (n == "hfListArgVar") job.cfg.flags |= Handler::hfListArgVar;
         }
         job.cfg.argv.push_back( "prog" + std::to_string( t));
         const Json&  wj = j.get( "words");
         for (size_t w = 0; w < wj.size(); ++w)
            if (wj.at( w).isStr() && !wj.at( w).s().empty()) job.cfg.argv.push_back( wj.at( w).s());
         job.cfg.repeat = static_cast< int>( std::max< long long>( 1, std::min< long long>( 3, j.geti( "repeat", 1))));
         if (job.cfg.repeat > 1) st.probe( P_job_evaluated_repeatedly);
         seps.push_back( j.get( "recipe").gets( "sep"));
         recipe_ids.push_back( j.get( "recipe").get( "sets").dump());
      }
      for (size_t t = 1; t < k; ++t) if (seps[ t] != seps[ t - 1]) { st.probe( P_different_separators); break; }
      if (k == 2) st.probe( P_threads_2);
      else if (k <= 4) st.probe( P_threads_3_4);
      else if (k <= 8) st.probe( P_threads_5_8);
      else st.probe( P_threads_9_16);

      // every process starts from the same warm state (function-local statics,
      // lazily filled libstdc++ tables), in a batch as well as in a replay
      warmUp();

      sim::ScheduleHolder  sh;
      sim::scheduleFromJson( plan.get( "sched"), sh, 400000000ULL);
      switch (sh.cfg.policy)
      {
      case sim::polRandom: st.probe( P_policy_random); break;
      case sim::polPct: st.probe( P_policy_pct); break;
      case sim::polRoundRobin: st.probe( P_policy_rr); break;
      default: break;   // explicit switch list: replays only
      }
      g_result = &res;
      sim::schedSetFatal( &onFatal);
      sim::raceReset();
      sim::schedBegin( sh.cfg);
      {
         std::vector< std::thread>  threads;
         for (size_t t = 0; t < k; ++t)
            threads.emplace_back( worker, &jobs[ t]);
         for (auto & t : threads)
            t.join();
      }
      sim::SchedStats  ss;
      sim::schedEnd( &ss);
      g_result = nullptr;

      // "running alone": the same jobs one after the other on this thread,
      // AFTER the concurrent phase, so that nothing the jobs need is already
      // warm when the threads run (content-keyed caches, lazily built tables)
      for (auto & job : jobs)
      {
         job.solo = recipes::evaluate( job.cfg);
         if (job.solo.threw) st.probe( P_job_threw); else st.probe( P_job_returned);
         if (job.solo.out.find( "Usage:") != std::string::npos) st.probe( P_job_with_usage);
      }

      st.fault( F_preemption, ss.preemptions);
      st.fault( F_child_first, ss.child_first);
      st.fault( F_parent_first, ss.parent_first);
      st.fault( F_lock_contention, ss.blocked_lock);
      if (ss.switches > 100) st.probe( P_switches_over_100);
      st.misc[ "schedule_points"] += ss.points;
      st.misc[ "memory_access_points"] += ss.mem_points;
      st.misc[ "context_switches"] += ss.switches;
      {
         std::vector< std::string>  u = recipe_ids;
         std::sort( u.begin(), u.end());
         u.erase( std::unique( u.begin(), u.end()), u.end());
         st.state( (static_cast< uint64_t>( k) << 8) | u.size());
      }

      sim::TraceHash  th;
      // T1: every thread observes exactly what it observes running alone
      for (size_t t = 0; t < k && res.ok(); ++t)
      {
         const std::string  a = jobs[ t].solo.record(), b = jobs[ t].conc.record();
         th.add( b);
         if (a != b)
         {
            size_t  d = 0;
            while (d < a.size() && d < b.size() && a[ d] == b[ d]) ++d;
            const size_t  from = d > 40 ? d - 40 : 0;
            res.fail( "VIOLATION", "T1-same-as-alone", "thread " + std::to_string( t) + " of " + std::to_string( k)
               + " observed a different result than when running alone; alone: ..." + a.substr( from, 160)
               + " | concurrent: ..." + b.substr( from, 160));
         }
      }
      // T2: no data race on library-internal state
      const sim::RaceInfo&  ri = sim::raceInfo();
      if (ri.count > 0)
      {
         std::ostringstream  os;
         os << ri.description << ":";
         for (int a = 0; a < ri.accesses; ++a)
         {
            auto const&  acc = ri.access[ a];
            os << (a ? " vs " : " ") << (acc.atomic ? "atomic " : "") << (acc.write ? "write" : "read") << "(" << acc.size << ") in "
               << sim::symbolizeAccess( acc.pc, 4);
         }
         res.fail( "RACE", "data-race", os.str());
      }
      th.add( ss.switch_hash);
      res.hash = th.value();
      res.sim_time = ss.points;
      res.nontrivial = ss.preemptions > 0;
      if (!res.ok() || trace != nullptr)
      {
         res.extra = Json::object();
         res.extra[ "explicit_schedule"] = sim::explicitSchedule();
      }
      if (trace != nullptr)
      {
         std::ostringstream  os;
         os << "points=" << ss.points << " mem_points=" << ss.mem_points << " switches=" << ss.switches
            << " preemptions=" << ss.preemptions << " lock_waits=" << ss.blocked_lock << " races=" << ri.count << "\n";
         for (size_t t = 0; t < k; ++t)
            os << "thread " << t << " alone:      " << jobs[ t].solo.record() << "\n"
               << "thread " << t << " concurrent: " << jobs[ t].conc.record() << "\n";
         *trace += os.str();
      }
      return res;
   }
};

} // namespace

sim::Harness& sim::harness()
{
   static C09  h;
   return h;
}

int main( int argc, char* argv[])
{
   return sim::harnessMain( argc, argv);
}
