// One construction + evaluation of an argument handler from the recipe menu.
// Shared by the C04, C07 and C09 harnesses. No simulator dependency in here:
// argument file and environment are prepared by the caller.
#pragma once

#include <cstring>
#include <cxxabi.h>
#include <memory>
#include <sstream>
#include <typeinfo>

#include "recipes.hpp"

#include "celma/prog_args/eval_argument_string.hpp"
#include "celma/prog_args/groups.hpp"
#include "celma/prog_args/value_handler.hpp"

namespace recipes {

struct EvalCfg
{
   int                         flags = 0;            // Handler::HandleFlags
   const Json*                 recipe = nullptr;
   std::vector< std::string>   argv;                 // argv[ 0] = program name
   bool                        arg_file_arg = false; // define --arg-file
   bool                        named_env = false;    // checkEnvVarArgs( env_name)
   std::string                 env_name;
   int                         repeat = 1;           // evaluate the same handler n times
   /// group mode: two handlers obtained from the Groups singleton (this recipe
   /// and recipe2), evaluated through Groups::evalArguments()
   const Json*                 recipe2 = nullptr;
   /// the words behind argv[ 0] come as one string through evalArgumentString()
   bool                        use_arg_string = false;
   std::string                 arg_string;
   /// the ValueHandler front end (the handler owns the destination values)
   /// with a fixed set of arguments instead of a recipe
   bool                        value_handler = false;
};

struct EvalOut
{
   bool         threw = false;
   bool         std_exception = true;
   bool         in_setup = false;
   std::string  ex_type, what, snapshot, out, err;
   size_t       setup_refusals = 0;

   /// comparable record of everything the caller can observe
   std::string record( bool with_text = true) const
   {
      std::string  r = threw ? ("THROW " + ex_type + (with_text ? ": " + what : std::string())) : std::string( "RETURN");
      r += " | " + snapshot;
      if (with_text) r += " | out=" + out + " | err=" + err;
      return r;
   }
};

inline std::string demangle( const char* name)
{
   int    status = 0;
   char*  d = abi::__cxa_demangle( name, nullptr, nullptr, &status);
   std::string  r = (status == 0 && d != nullptr) ? d : name;
   free( d);
   return r;
}

/// argv as a C main() would get it: every word in a heap block of exactly its
/// size, the array terminated by a null pointer
class ArgvBlock
{
public:
   explicit ArgvBlock( const std::vector< std::string>& words):
      mArgc( static_cast< int>( words.size())),
      mpArgv( new char*[ words.size() + 1])
   {
      for (size_t k = 0; k < words.size(); ++k)
      {
         mpArgv[ k] = new char[ words[ k].size() + 1];
         memcpy( mpArgv[ k], words[ k].c_str(), words[ k].size() + 1);
      }
      mpArgv[ words.size()] = nullptr;
   }
   ~ArgvBlock()
   {
      for (int k = 0; k < mArgc; ++k) delete [] mpArgv[ k];
      delete [] mpArgv;
   }
   ArgvBlock( const ArgvBlock&) = delete;
   ArgvBlock& operator =( const ArgvBlock&) = delete;
   int argc() const { return mArgc; }
   char** argv() const { return mpArgv; }
private:
   int     mArgc;
   char**  mpArgv;
};

/// the arguments of the ValueHandler mode: keys with a short form only, a
/// long form only, both, a container and the positional argument
inline void valueHandlerArguments( celma::prog_args::ValueHandler& vh)
{
   vh.addValueArgument< std::string>( "a", "string, short key only");
   vh.addValueArgument< int>( "bcd", "int, long key only");
   vh.addValueArgument< int>( "n,number", "int, both keys");
   vh.addValueArgument< std::vector< int>>( "v,values", "vector of int");
   vh.addValueArgument< std::string>( "free value");
}

inline void valueHandlerInfo( Built& out)
{
   out.args.clear();
   out.args.push_back( ArgInfo{ "a", "", kStr});
   out.args.push_back( ArgInfo{ "", "bcd", kInt});
   out.args.push_back( ArgInfo{ "n", "number", kInt});
   ArgInfo  v{ "v", "values", kIntList};
   v.once = false;
   out.args.push_back( v);
   out.args.push_back( ArgInfo{ "", "", kPositional});
}

inline std::string valueHandlerSnapshot( celma::prog_args::ValueHandler& vh)
{
   std::ostringstream  os;
   auto get = [ &]( auto dest, const char* key, const char* name)
   {
      try
      {
         if (key[ 0] == '-' && key[ 1] == '\0') vh.getValue( dest); else vh.getValue( dest, key);
         os << name << "=";
         if constexpr (std::is_same_v< decltype( dest), std::vector< int>>)
            for (int x : dest) os << x << ",";
         else
            os << dest;
         os << " ";
      } catch (const std::exception& e)
      {
         os << name << "!" << e.what() << " ";
      }
   };
   get( std::string(), "a", "a");
   get( int( 0), "bcd", "bcd");
   get( int( 0), "n", "n");
   get( std::vector< int>(), "v", "v");
   get( std::string(), "-", "pos");
   return os.str();
}

inline EvalOut evaluate( const EvalCfg& cfg)
{
   EvalOut             out;
   std::ostringstream  os, es;
   Dest                d;
   Built               b;
   ArgvBlock           args( cfg.argv);
   bool                setup_done = false;
   if (cfg.recipe2 != nullptr)
   {
      namespace pa = celma::prog_args;
      Dest  d2;
      pa::Groups::reset();
      try
      {
         auto &  grp = pa::Groups::instance( os, es, cfg.flags | Handler::hfUsageCont);
         // (flags that make the handler create standard arguments of its own)
         auto    h1 = grp.getArgHandler( "first", cfg.flags & (Handler::hfHelpShort | Handler::hfHelpLong | Handler::hfArgHidden
                                                                | Handler::hfArgDeprecated | Handler::hfUsageShort | Handler::hfUsageLong));
         auto    h2 = grp.getArgHandler( "second");
         if (cfg.recipe != nullptr) build( *h1, nullptr, d, *cfg.recipe, b);
         build( *h2, nullptr, d2, *cfg.recipe2, b);
         setup_done = true;
         for (int r = 0; r < cfg.repeat; ++r)
            grp.evalArguments( args.argc(), args.argv());
      } catch (const std::exception& e)
      {
         out.threw = true;
         out.ex_type = demangle( typeid( e).name());
         out.what = e.what();
      } catch (...)
      {
         out.threw = true;
         out.std_exception = false;
         out.ex_type = "not derived from std::exception";
      }
      pa::Groups::reset();
      out.in_setup = out.threw && !setup_done;
      out.snapshot = d.snapshot() + " || " + d2.snapshot();
      out.out = os.str();
      out.err = es.str();
      out.setup_refusals = b.setup_errors.size();
      return out;
   }
   if (cfg.value_handler)
   {
      namespace pa = celma::prog_args;
      std::string  snap;
      try
      {
         pa::ValueHandler  vh( os, es, cfg.flags);
         if (cfg.arg_file_arg) vh.addArgumentFile( "arg-file");
         if (cfg.named_env) vh.checkEnvVarArgs( cfg.env_name);
         valueHandlerArguments( vh);
         setup_done = true;
         for (int r = 0; r < cfg.repeat; ++r)
            vh.evalArguments( args.argc(), args.argv());
         snap = valueHandlerSnapshot( vh);
      } catch (const std::exception& e)
      {
         out.threw = true;
         out.ex_type = demangle( typeid( e).name());
         out.what = e.what();
      } catch (...)
      {
         out.threw = true;
         out.std_exception = false;
         out.ex_type = "not derived from std::exception";
      }
      out.in_setup = out.threw && !setup_done;
      out.snapshot = snap;
      out.out = os.str();
      out.err = es.str();
      return out;
   }
   try
   {
      Handler                    h( os, es, cfg.flags);
      std::unique_ptr< Handler>  sub;
      if (cfg.recipe != nullptr && has( *cfg.recipe, "R14"))
         sub.reset( new Handler( h, 0));
      if (cfg.arg_file_arg) h.addArgumentFile( "arg-file");
      if (cfg.named_env) h.checkEnvVarArgs( cfg.env_name);
      if (cfg.recipe != nullptr) build( h, sub.get(), d, *cfg.recipe, b);
      setup_done = true;
      for (int r = 0; r < cfg.repeat; ++r)
      {
         if (cfg.use_arg_string)
            celma::prog_args::evalArgumentString( h, cfg.arg_string, cfg.argv.empty() ? "prog" : cfg.argv[ 0].c_str());
         else
            h.evalArguments( args.argc(), args.argv());
      }
   } catch (const std::exception& e)
   {
      out.threw = true;
      out.ex_type = demangle( typeid( e).name());
      out.what = e.what();
   } catch (...)
   {
      out.threw = true;
      out.std_exception = false;
      out.ex_type = "not derived from std::exception";
   }
   out.in_setup = out.threw && !setup_done;
   out.snapshot = d.snapshot();
   out.out = os.str();
   out.err = es.str();
   out.setup_refusals = b.setup_errors.size();
   return out;
}

} // namespace recipes
