// C07 - arguments from a file or the environment equal the same words on argv.
// Real code: prog_args::Handler with its file / environment sources,
// appl::ArgString2Array (splitString), libstdc++ std::ifstream.
// Simulated: file system and environment (sim/simfs.cpp) that carry the words,
// incl. chunked / interrupted reads and a last line without newline.
//
// Differential oracle: subject run (words delivered through file lines and/or
// the environment variable, quoted in a randomly chosen style) versus
// reference run (the same words on argv, sources switched off).

#include <sstream>

#include "handler_eval.hpp"

#include "../sim/budget.hpp"
#include "../sim/harness.hpp"
#include "../sim/simfs.hpp"

using sim::Json;
using sim::Result;
using sim::Rng;
using sim::Stats;
namespace fs = sim::fs;
using recipes::ArgInfo;
using celma::prog_args::Handler;

namespace sim { namespace fs { extern std::string g_last_assert; } }

namespace {

enum FaultId { F_chunked_read, F_short_read, F_eintr_read, F_no_final_newline };
const char* const kFaultNames[] = { "chunked_read", "short_read", "eintr_read", "file_without_final_newline" };
enum ProbeId { P_item_by_file, P_item_by_env, P_item_by_argv, P_all_three_sources, P_both_returned, P_both_threw,
               P_word_needed_quoting, P_style_backslash, P_style_single, P_style_double, P_style_mixed,
               P_comment_or_empty_line, P_multi_value_in_file_line, P_override_file_argv, P_override_env_argv,
               P_read_returned_one_byte, P_file_via_flag, P_file_via_argument, P_env_default_name, P_env_named,
               P_several_items_on_one_line, P_file_line_evaluated, P_nested_argument_file, P_env_names_argument_file, P_value_list_continued,
               P_whole_line_as_string };
const char* const kProbeNames[] = { "item_delivered_by_file", "item_delivered_by_env", "item_delivered_by_argv",
               "all_three_sources_in_one_run", "both_runs_returned", "both_runs_threw", "word_needed_quoting",
               "style_backslash", "style_single_quotes", "style_double_quotes", "style_mixed", "comment_or_empty_line_skipped",
               "multi_value_words_in_file_line", "override_file_then_argv", "override_env_then_argv", "read_returned_one_byte",
               "file_via_program_name_flag", "file_via_argument", "env_default_name", "env_named", "several_items_on_one_line",
               "file_line_evaluated", "argument_file_includes_another_file", "environment_variable_names_argument_file",
               "value_list_continued_on_next_line_or_source", "whole_line_through_evalArgumentString" };

std::string upper( std::string s)
{
   for (auto & c : s) c = static_cast< char>( toupper( static_cast< unsigned char>( c)));
   return s;
}

std::string baseName( const std::string& p)
{
   size_t  pos = p.find_last_of( '/');
   return pos == std::string::npos ? p : p.substr( pos + 1);
}

class C07 final: public sim::Harness
{
public:
   const char* property() const override { return "C07"; }
   std::vector< std::string> faultKinds() const override
   {
      return std::vector< std::string>( std::begin( kFaultNames), std::end( kFaultNames));
   }
   std::vector< std::string> probeNames() const override
   {
      return std::vector< std::string>( std::begin( kProbeNames), std::end( kProbeNames));
   }
   std::string stateName( uint64_t key) const override
   {
      std::ostringstream  os;
      os << "file=" << ((key >> 4) & 3) << " env=" << ((key >> 2) & 3) << " sources_used=" << (key & 3);
      return os.str();
   }

   Json gen( uint64_t seed, const std::string& tier) override
   {
      Rng   cfg( seed, "config"), wl( seed, "workload"), ch( seed, "chunking"), fl( seed, "faults");
      const bool  thorough = (tier == "thorough");
      Json  plan = Json::object();
      plan[ "prop"] = "C07";
      Json  recipe = recipes::genRecipe( cfg, true, true, false, false, true);
      // (on argv a control character behind the arguments of a sub-group is taken
      // by the handler of the sub-group; the two are not combined here)
      if (recipes::has( recipe, "R14") && recipes::has( recipe, "R16"))
      {
         Json  sets = Json::array();
         for (auto const& x : recipe.get( "sets").arr()) if (x.s() != "R16") sets.push( x);
         recipe[ "sets"] = sets;
      }
      plan[ "recipe"] = recipe;
      static const char* const  progs[] = { "prog", "/usr/bin/prog", "./bin/my-tool", "tool.v2", "/opt/x/Y_z", "a" };
      plan[ "argv0"] = progs[ cfg.below( 6)];
      static const char* const  fvia[] = { "flag", "flag", "arg", "none" };
      static const char* const  evia[] = { "default", "named", "none" };
      plan[ "file_via"] = fvia[ cfg.below( 4)];
      plan[ "env_via"] = evia[ cfg.below( 3)];
      plan[ "noabbr"] = cfg.chance( 1, 5);
      // fourth way of delivery: the whole line as one string through
      // evalArgumentString() (same splitter, no file, no environment)
      if (cfg.chance( 1, 7))
      {
         plan[ "via_string"] = true;
         plan[ "file_via"] = "none";
         plan[ "env_via"] = "none";
      }
      // an argument file may include another one; the environment variable may name the argument file
      if (plan.gets( "file_via") != "none" && cfg.chance( 1, 3))
      {
         Json  nest = Json::object();
         nest[ "start"] = static_cast< long long>( cfg.below( 4));
         nest[ "count"] = static_cast< long long>( cfg.below( 4));
         plan[ "nest"] = nest;
      }
      if (plan.gets( "file_via") == "arg" && plan.gets( "env_via") != "none" && cfg.chance( 1, 3))
         plan[ "env_names_file"] = true;
      plan[ "final_newline"] = !fl.chance( 1, 3);

      // the arguments of this recipe (set-up on a scratch handler)
      recipes::Built  built;
      {
         recipes::Dest       d;
         std::ostringstream  o1, o2;
         try
         {
            Handler                    h( o1, o2, 0);
            std::unique_ptr< Handler>  sub;
            if (recipes::has( recipe, "R14")) sub.reset( new Handler( h, 0));
            recipes::build( h, sub.get(), d, recipe, built);
         } catch (const std::exception&)
         {
         }
      }
      const bool  hostile = cfg.chance( 2, 3);
      // abstract command line: every cardinality-limited argument at most once
      std::vector< size_t>  order;
      for (size_t k = 0; k < built.args.size(); ++k) order.push_back( k);
      for (size_t k = order.size(); k > 1; --k) std::swap( order[ k - 1], order[ wl.below( k)]);
      const size_t  max_items = thorough ? 12 : 8;
      Json          items = Json::array();
      size_t        positional_at = ~size_t( 0);
      std::vector< std::pair< size_t, Json>>  made;   // arg index, words
      for (size_t k = 0; k < order.size() && made.size() < max_items; ++k)
      {
         const ArgInfo&  a = built.args[ order[ k]];
         if (wl.chance( 1, 4)) continue;
         const size_t  uses = a.once ? 1 : 1 + static_cast< size_t>( wl.below( 2));
         for (size_t u = 0; u < uses; ++u)
         {
            auto  vals = recipes::genValues( wl, a, hostile);
            auto  words = recipes::genWords( wl, a, vals);
            // an argument of the sub-group: behind the argument that opens the group
            if (a.in_subgroup) words.insert( words.begin(), "--" + built.subgroup_key);
            Json  wj = Json::array();
            for (auto const& w : words) wj.push( w);
            if (a.kind == recipes::kPositional) positional_at = made.size();
            made.emplace_back( order[ k], wj);
         }
      }
      for (size_t k = made.size(); k > 1; --k) std::swap( made[ k - 1], made[ wl.below( k)]);
      // a free multi-value list may continue on the next file line or in the next
      // source (the argument that takes the values stays the "last argument"
      // across lines and sources); not when an argument-file argument sits in
      // between (it becomes the last argument itself)
      // (and not together with an override, whose first use is appended to the source)
      const bool  want_override = wl.chance( 1, 3) && recipe.gets( "constraint").empty();
      // "--" (the words behind it are values even if they start with a dash) is
      // in effect up to the end of the argument list it stands in: a file line, the
      // environment variable, argv. Only the very last item of the abstract
      // command line may contain it, then nothing can follow it on argv either.
      {
         const bool  allowed = !want_override && !recipes::has( recipe, "R12") && !recipes::has( recipe, "R13")
                               && plan.gets( "file_via") != "arg" && !plan.has( "nest") && !plan.has( "env_names_file");
         size_t  keep = ~size_t( 0);
         for (size_t k = 0; k < made.size(); ++k)
         {
            Json&   w = made[ k].second;
            size_t  at = ~size_t( 0);
            for (size_t j = 0; j < w.size(); ++j) if (w.at( j).s() == "--") { at = j; break; }
            if (at == ~size_t( 0)) continue;
            if (allowed && keep == ~size_t( 0)) { keep = k; continue; }
            Json  cut = Json::array();
            for (size_t j = 0; j < at; ++j) cut.push( w.at( j));
            w = cut;
         }
         if (keep != ~size_t( 0) && keep + 1 != made.size())
         {
            auto  item = made[ keep];
            made.erase( made.begin() + static_cast< long>( keep));
            made.push_back( item);
         }
      }
      if (!want_override && recipe.geti( "multi", 0) != 0 && plan.gets( "file_via") != "arg" && !plan.has( "nest"))
      {
         for (size_t k = 0; k < made.size(); ++k)
         {
            const ArgInfo&  a = built.args[ made[ k].first];
            const Json&     w = made[ k].second;
            // (an argument with a cardinality counts only the values that come from argv)
            if (!a.multi || a.once || w.size() < 3 || w.at( 0).s().empty() || w.at( 0).s()[ 0] != '-' || !wl.chance( 1, 2)) continue;
            // ("--" stays in front of the dashed values it announces: its effect ends with the line)
            size_t  last_cut = w.size() - 1;
            for (size_t j = 0; j < w.size(); ++j) if (w.at( j).s() == "--") { last_cut = j; break; }
            if (last_cut < 2) continue;
            const size_t  cut = 2 + static_cast< size_t>( wl.below( last_cut - 1));
            Json  head = Json::array(), tail = Json::array();
            for (size_t j = 0; j < w.size(); ++j) (j < cut ? head : tail).push( w.at( j));
            made[ k].second = head;
            made.insert( made.begin() + static_cast< long>( k) + 1, std::make_pair( made[ k].first, tail));
            ++k;
         }
      }
      // consecutive parts F, E, A; positional values and the rest of the line go to argv
      size_t  nf = plan.gets( "file_via") == "none" ? 0 : static_cast< size_t>( wl.below( made.size() + 1));
      size_t  ne = plan.gets( "env_via") == "none" ? 0 : static_cast< size_t>( wl.below( made.size() - nf + 1));
      size_t  line = 0;
      for (size_t k = 0; k < made.size(); ++k)
      {
         const ArgInfo&  a = built.args[ made[ k].first];
         Json  it = Json::object();
         const char*  src = k < nf ? "f" : (k < nf + ne ? "e" : "a");
         if (a.kind == recipes::kPositional) src = "a";
         it[ "src"] = src;
         if (src[ 0] == 'f')
         {
            if (k > 0 && wl.chance( 2, 3)) ++line;
            it[ "line"] = static_cast< long long>( line);
         }
         it[ "words"] = made[ k].second;
         it[ "style"] = static_cast< long long>( ch.below( 4));
         it[ "once"] = a.once;
         items.push( it);
      }
      // positional words must not be swallowed: keep them last
      (void) positional_at;
      plan[ "items"] = items;

      // override case: a single-value argument given by a source and again on argv
      // (not together with argument constraints: 'excludes'/'requires' depend on
      // the order of first appearance, which an override changes by design)
      if (want_override)
      {
         // candidates in random order: scalars and the tuple (a complete new
         // set of values replaces the one from the source)
         std::vector< size_t>  cand;
         for (size_t k = 0; k < built.args.size(); ++k)
         {
            const ArgInfo&  a = built.args[ k];
            if (!a.once) continue;
            if (a.kind != recipes::kInt && a.kind != recipes::kStr && a.kind != recipes::kDouble && a.kind != recipes::kTuple) continue;
            bool  used = false;
            for (auto const& m : made) if (m.first == k) used = true;
            if (!used) cand.push_back( k);
         }
         for (size_t c = cand.size(); c > 1; --c) std::swap( cand[ c - 1], cand[ wl.below( c)]);
         for (size_t k : cand)
         {
            const ArgInfo&  a = built.args[ k];
            const bool  via_file = plan.gets( "file_via") != "none" && (plan.gets( "env_via") == "none" || wl.chance( 1, 2));
            if (!via_file && plan.gets( "env_via") == "none") break;
            Json  ov = Json::object();
            ov[ "src"] = via_file ? "f" : "e";
            Json  w1 = Json::array(), w2 = Json::array();
            if (a.in_subgroup) { w1.push( "--" + built.subgroup_key); w2.push( "--" + built.subgroup_key); }
            for (auto const& w : recipes::genWords( wl, a, recipes::genValues( wl, a, false))) w1.push( w);
            for (auto const& w : recipes::genWords( wl, a, recipes::genValues( wl, a, false))) w2.push( w);
            ov[ "first"] = w1;
            ov[ "second"] = w2;
            ov[ "style"] = static_cast< long long>( ch.below( 4));
            plan[ "override"] = ov;
            break;
         }
      }
      // comment and empty lines in the file: positions in the rendered line list
      Json  extra = Json::array();
      const size_t  nx = static_cast< size_t>( wl.below( 4));
      for (size_t k = 0; k < nx; ++k)
      {
         Json  e = Json::object();
         e[ "at"] = static_cast< long long>( wl.below( 8));
         e[ "text"] = wl.chance( 1, 2) ? "" : "# comment -i 5 --str 'x";
         extra.push( e);
      }
      plan[ "extra_lines"] = extra;
      // benign read faults
      Json  chunks = Json::array();
      if (ch.chance( 2, 3))
      {
         const size_t  nc = 1 + static_cast< size_t>( ch.below( 4));
         for (size_t k = 0; k < nc; ++k) chunks.push( static_cast< long long>( ch.chance( 1, 3) ? 1 : 1 + ch.below( 16)));
      }
      plan[ "chunks"] = chunks;
      Json  faults = Json::array();
      const size_t  nfault = static_cast< size_t>( fl.below( 3));
      for (size_t k = 0; k < nfault; ++k)
      {
         Json  f = Json::object();
         f[ "kind"] = fl.chance( 1, 2) ? "short_read" : "eintr_read";
         f[ "at"] = "read";
         f[ "n"] = static_cast< long long>( fl.below( 6));
         f[ "bytes"] = static_cast< long long>( fl.below( 40));
         faults.push( f);
      }
      plan[ "faults"] = faults;
      return plan;
   }

   Result run( const Json& plan, Stats& st, std::string* trace) override
   {
      Result          res;
      sim::TraceHash  th;
      auto log = [ &]( const std::string& s) { th.add( s); if (trace) *trace += s + "\n"; };

      const Json&         recipe = plan.get( "recipe");
      const std::string   argv0 = plan.gets( "argv0").empty() ? "prog" : plan.gets( "argv0");
      const std::string&  file_via = plan.gets( "file_via");
      const std::string&  env_via = plan.gets( "env_via");
      const bool          noabbr = plan.geti( "noabbr", 0) != 0;
      const Json&         items = plan.get( "items");
      const Json&         ov = plan.get( "override");

      std::vector< std::string>                wf, we, wa;             // raw words per source, in order
      std::vector< std::vector< std::string>>  file_lines_words;       // words per file line
      std::vector< std::vector< unsigned>>     file_lines_styles;
      std::vector< unsigned>                   env_styles, argv_styles;
      long long                                last_line = -1;
      bool                                     multi_in_line = false, several_on_line = false;
      for (size_t k = 0; k < items.size(); ++k)
      {
         const Json&         it = items.at( k);
         const std::string&  src = it.gets( "src");
         const Json&         words = it.get( "words");
         const unsigned      style = static_cast< unsigned>( it.geti( "style", 0));
         if (words.size() == 0) continue;
         for (size_t w = 0; w < words.size(); ++w)
         {
            const std::string&  word = words.at( w).s();
            if (word.empty()) { res.fail( "BADPLAN", "plan", "empty word"); return res; }
            if (src == "f") wf.push_back( word);
            else if (src == "e") { we.push_back( word); env_styles.push_back( style); }
            else { wa.push_back( word); argv_styles.push_back( style); }
         }
         if (words.at( 0).s()[ 0] != '-' && words.at( 0).s() != "!" && words.at( 0).s() != "(" && words.at( 0).s() != ")"
             && !it.geti( "once", 0) && k > 0) st.probe( P_value_list_continued);
         if (src == "f")
         {
            const long long  line = it.geti( "line", 0);
            if (line != last_line || file_lines_words.empty())
            {
               file_lines_words.emplace_back();
               file_lines_styles.emplace_back();
               last_line = line;
            } else
               several_on_line = true;
            for (size_t w = 0; w < words.size(); ++w)
            {
               file_lines_words.back().push_back( words.at( w).s());
               file_lines_styles.back().push_back( style);
            }
            if (words.size() > 2) multi_in_line = true;
            st.probe( P_item_by_file);
         } else if (src == "e") st.probe( P_item_by_env);
         else st.probe( P_item_by_argv);
      }
      // override: first use through a source, second use on argv
      std::vector< std::string>  ov_second;
      bool                       ov_active = false;
      if (ov.isObj() && ov.get( "first").size() > 0 && ov.get( "second").size() > 0 && recipe.gets( "constraint").empty())
      {
         const bool      via_file = ov.gets( "src") == "f";
         const unsigned  style = static_cast< unsigned>( ov.geti( "style", 0));
         if ((via_file && file_via != "none") || (!via_file && env_via != "none"))
         {
            ov_active = true;
            if (via_file)
            {
               file_lines_words.emplace_back();
               file_lines_styles.emplace_back();
               for (size_t w = 0; w < ov.get( "first").size(); ++w)
               {
                  file_lines_words.back().push_back( ov.get( "first").at( w).s());
                  file_lines_styles.back().push_back( style);
               }
               st.probe( P_override_file_argv);
            } else
            {
               for (size_t w = 0; w < ov.get( "first").size(); ++w)
               {
                  we.push_back( ov.get( "first").at( w).s());
                  env_styles.push_back( style);
               }
               st.probe( P_override_env_argv);
            }
            for (size_t w = 0; w < ov.get( "second").size(); ++w)
               ov_second.push_back( ov.get( "second").at( w).s());
         }
      }
      if (file_via == "none" && !wf.empty()) { res.fail( "BADPLAN", "plan", "file words without a file source"); return res; }
      if (env_via == "none" && !we.empty()) { res.fail( "BADPLAN", "plan", "env words without an env source"); return res; }

      // ---- render the sources
      auto styleProbe = [ &]( unsigned s)
      {
         switch (s % 4)
         {
         case 0: st.probe( P_style_backslash); break;
         case 1: st.probe( P_style_single); break;
         case 2: st.probe( P_style_double); break;
         default: st.probe( P_style_mixed); break;
         }
      };
      auto needsQuoting = []( const std::string& w)
      {
         return w.find_first_of( " '\"\\") != std::string::npos;
      };
      std::vector< std::string>  lines;
      for (size_t l = 0; l < file_lines_words.size(); ++l)
      {
         std::string  text;
         for (size_t w = 0; w < file_lines_words[ l].size(); ++w)
         {
            const std::string&  word = file_lines_words[ l][ w];
            const bool          force = (w == 0 && word[ 0] == '#');
            if (w) text += (file_lines_styles[ l][ w] & 1) ? "  " : " ";
            if (needsQuoting( word) || force) { st.probe( P_word_needed_quoting); styleProbe( file_lines_styles[ l][ w]); }
            text += recipes::quoteWord( word, file_lines_styles[ l][ w], force);
         }
         lines.push_back( text);
      }
      // nesting: some lines move into a second file that the first one includes
      std::string  inner_text;
      bool         nested = false;
      const Json&  nest = plan.get( "nest");
      const std::string  inner_path = "/simfs/cfg/inner.args";
      if (nest.isObj() && file_via != "none" && !lines.empty())
      {
         size_t  start = static_cast< size_t>( std::max< long long>( 0, nest.geti( "start", 0)));
         size_t  count = static_cast< size_t>( std::max< long long>( 0, nest.geti( "count", 0)));
         if (start > lines.size()) start = lines.size();
         if (start + count > lines.size()) count = lines.size() - start;
         // the override line (always the last one) stays in the outer file, after the include
         if (ov_active && ov.gets( "src") == "f" && start + count == lines.size() && count > 0) --count;
         for (size_t l = start; l < start + count; ++l) inner_text += lines[ l] + "\n";
         lines.erase( lines.begin() + static_cast< long>( start), lines.begin() + static_cast< long>( start + count));
         lines.insert( lines.begin() + static_cast< long>( start), "--arg-file " + inner_path);
         nested = true;
         st.probe( P_nested_argument_file);
      }
      const Json&  extra = plan.get( "extra_lines");
      for (size_t k = 0; k < extra.size(); ++k)
      {
         size_t  at = static_cast< size_t>( std::max< long long>( 0, extra.at( k).geti( "at", 0)));
         if (at > lines.size()) at = lines.size();
         std::string  text = extra.at( k).gets( "text");
         if (!text.empty() && text[ 0] != '#') text = "#" + text;
         lines.insert( lines.begin() + static_cast< long>( at), text);
         st.probe( P_comment_or_empty_line);
      }
      std::string  file_text;
      for (size_t l = 0; l < lines.size(); ++l)
         file_text += lines[ l] + ((l + 1 < lines.size() || plan.geti( "final_newline", 1) != 0) ? "\n" : "");
      // a last line without newline only counts if it carries words
      const bool  torn_tail = !lines.empty() && plan.geti( "final_newline", 1) == 0;
      std::string  env_text;
      for (size_t w = 0; w < we.size(); ++w)
      {
         if (w) env_text += " ";
         if (needsQuoting( we[ w])) { st.probe( P_word_needed_quoting); styleProbe( env_styles[ w]); }
         env_text += recipes::quoteWord( we[ w], env_styles[ w], false);
      }

      // ---- the world of the subject run
      fs::reset();
      fs::traceTo( trace);
      const std::string  prog = baseName( argv0);
      const std::string  arg_file_path = "/simfs/cfg/args.txt";
      fs::envSet( "HOME", "/simfs/home/u");
      fs::mkdirs( "/simfs/home/u/.progargs");
      fs::mkdirs( "/simfs/cfg");
      const bool  have_file_words = !file_lines_words.empty();
      if (file_via == "flag")
      {
         if (have_file_words || !lines.empty()) fs::putFile( "/simfs/home/u/.progargs/" + prog + ".pa", file_text);
         st.probe( P_file_via_flag);
      } else if (file_via == "arg")
      {
         fs::putFile( arg_file_path, file_text);
         st.probe( P_file_via_argument);
      }
      const std::string  env_name = (env_via == "named") ? "SIM_ARGS_VAR" : upper( prog);
      fs::envUnset( env_name);
      const bool  env_names_file = plan.geti( "env_names_file", 0) != 0 && file_via == "arg" && env_via != "none";
      if (env_names_file)
      {
         // evaluation order becomes: file (named by the variable), rest of the variable, command line
         env_text = "--arg-file " + arg_file_path + (env_text.empty() ? "" : " " + env_text);
         st.probe( P_env_names_argument_file);
      }
      if (nested) fs::putFile( inner_path, inner_text);
      if (env_via != "none" && !env_text.empty()) fs::envSet( env_name, env_text);
      if (env_via == "default") st.probe( P_env_default_name);
      if (env_via == "named") st.probe( P_env_named);

      std::vector< long long>  chunks;
      const Json&  cj = plan.get( "chunks");
      for (size_t k = 0; k < cj.size(); ++k) chunks.push_back( cj.at( k).i());
      fs::setReadChunks( chunks);
      std::vector< fs::Fault>  faults;
      const Json&  fj = plan.get( "faults");
      for (size_t k = 0; k < fj.size(); ++k)
      {
         fs::Fault  f;
         f.kind = fj.at( k).gets( "kind");
         if (f.kind != "short_read" && f.kind != "eintr_read") continue;   // benign kinds only
         f.at = "read";
         f.n = fj.at( k).geti( "n", 0);
         f.bytes = fj.at( k).geti( "bytes", 0);
         faults.push_back( f);
      }

      // ---- subject run Y
      recipes::EvalCfg  ycfg;
      ycfg.recipe = &recipe;
      ycfg.flags = (noabbr ? Handler::hfNoAbbr : 0);
      if (file_via == "flag") ycfg.flags |= Handler::hfReadProgArg;
      if (file_via == "arg" || nested) ycfg.arg_file_arg = true;
      if (env_via == "default") ycfg.flags |= Handler::hfEnvVarArgs;
      if (env_via == "named") { ycfg.named_env = true; ycfg.env_name = env_name; }
      ycfg.argv.push_back( argv0);
      if (file_via == "arg" && !env_names_file) { ycfg.argv.push_back( "--arg-file"); ycfg.argv.push_back( arg_file_path); }
      for (auto const& w : wa) ycfg.argv.push_back( w);
      for (auto const& w : ov_second) ycfg.argv.push_back( w);
      const bool  via_string = plan.geti( "via_string", 0) != 0 && file_via == "none" && env_via == "none" && !wa.empty();
      std::string  arg_string;
      if (via_string)
      {
         for (size_t w = 0; w < wa.size(); ++w)
         {
            if (w) arg_string += (argv_styles[ w] & 1) ? "  " : " ";
            if (needsQuoting( wa[ w])) { st.probe( P_word_needed_quoting); styleProbe( argv_styles[ w]); }
            arg_string += recipes::quoteWord( wa[ w], argv_styles[ w], false);
         }
         ycfg.use_arg_string = true;
         ycfg.arg_string = arg_string;
         st.probe( P_whole_line_as_string);
      }

      recipes::EvalOut  y, x;
      fs::opBegin( faults);
      if (!guarded( res, [ &] { y = recipes::evaluate( ycfg); }))
      {
         fs::opEnd();
         res.hash = th.value();
         return res;
      }
      fs::OpReport  rep = fs::opEnd();
      for (auto const& f : rep.faults)
         if (f.fired) st.fault( f.kind == "short_read" ? F_short_read : F_eintr_read);
      if (!chunks.empty() && rep.calls[ fs::ccRead] > 0) st.fault( F_chunked_read);
      if (torn_tail && rep.calls[ fs::ccRead] > 0) st.fault( F_no_final_newline);
      if (rep.calls[ fs::ccRead] > 0 && have_file_words) st.probe( P_file_line_evaluated);
      for (long long c : chunks) if (c == 1 && rep.calls[ fs::ccRead] > 0) { st.probe( P_read_returned_one_byte); break; }
      if (multi_in_line) st.probe( P_multi_value_in_file_line);
      if (several_on_line) st.probe( P_several_items_on_one_line);
      const unsigned  used = (wf.empty() ? 0u : 1u) + (we.empty() ? 0u : 1u) + (wa.empty() ? 0u : 1u);
      if (used == 3) st.probe( P_all_three_sources);
      st.state( (static_cast< uint64_t>( file_via == "flag" ? 1 : (file_via == "arg" ? 2 : 0)) << 4)
                | (static_cast< uint64_t>( env_via == "default" ? 1 : (env_via == "named" ? 2 : 0)) << 2) | used);

      // ---- reference run X: the same words on argv, no sources. Evaluation
      // order of the library: program-name file, environment, command line (an
      // argument-file argument is evaluated at its place on the command line)
      recipes::EvalCfg  xcfg;
      xcfg.recipe = &recipe;
      xcfg.flags = (noabbr ? Handler::hfNoAbbr : 0);
      xcfg.argv.push_back( argv0);
      std::vector< std::string>  first_words;   // the overridden first use is left out
      const bool  env_first = (file_via == "arg") && !env_names_file;
      if (env_first)
      {
         for (auto const& w : we) xcfg.argv.push_back( w);
         for (auto const& w : wf) xcfg.argv.push_back( w);
      } else
      {
         for (auto const& w : wf) xcfg.argv.push_back( w);
         for (auto const& w : we) xcfg.argv.push_back( w);
      }
      if (ov_active && ov.gets( "src") == "e")
      {
         // the first use was appended to the environment words: take it out again
         const size_t  n1 = ov.get( "first").size();
         const size_t  env_end = env_first ? 1 + we.size() : 1 + wf.size() + we.size();
         xcfg.argv.erase( xcfg.argv.begin() + static_cast< long>( env_end - n1), xcfg.argv.begin() + static_cast< long>( env_end));
      }
      for (auto const& w : wa) xcfg.argv.push_back( w);
      for (auto const& w : ov_second) xcfg.argv.push_back( w);
      fs::envUnset( env_name);
      if (!guarded( res, [ &] { x = recipes::evaluate( xcfg); }))
      {
         res.hash = th.value();
         return res;
      }

      log( "file[" + file_via + "]: " + file_text);
      log( "env[" + env_via + "] " + env_name + "=" + env_text);
      if (via_string) log( "string: " + arg_string);
      std::string  xa, ya;
      for (auto const& w : xcfg.argv) xa += "[" + w + "]";
      for (auto const& w : ycfg.argv) ya += "[" + w + "]";
      log( "reference argv: " + xa);
      log( "subject argv:   " + ya);
      log( "reference: " + x.record());
      log( "subject:   " + y.record());

      if (!x.std_exception || !y.std_exception)
         res.fail( "VIOLATION", "D3-exception-type", "an exception not derived from std::exception escaped");
      else if (x.threw && !y.threw && (x.what == "too many values" || x.what == "not all expected values"))
      {
         // by design the library does not count values from a file or the
         // environment for the cardinality (that is what makes the override
         // possible): a line that argv rejects for its cardinality only may be
         // accepted through the sources. Not a statement about C07.
         ++st.misc[ "argv_rejected_for_cardinality_only_sources_accepted"];
      }
      else if (x.threw != y.threw)
         res.fail( "VIOLATION", "D1-outcome", std::string( "words on argv ") + (x.threw ? "are rejected (" + x.what + ")" : "are accepted")
            + " but the same words through " + (wf.empty() ? "" : "file ") + (we.empty() ? "" : "environment ") + (via_string ? "evalArgumentString( '" + arg_string + "') " : "") + "are "
            + (y.threw ? "rejected (" + y.what + ")" : "accepted") + "; file: '" + file_text + "' env: '" + env_text + "'");
      else if (!x.threw && x.snapshot != y.snapshot)
         res.fail( "VIOLATION", ov_active ? "D2-override-value" : "D2-destination-values", "destination values differ; argv: " + x.snapshot
            + " sources: " + y.snapshot + "; file: '" + file_text + "' env: '" + env_text + "'" + (via_string ? " string: '" + arg_string + "'" : ""));
      if (x.threw && y.threw) st.probe( P_both_threw);
      if (!x.threw && !y.threw) st.probe( P_both_returned);

      fs::traceTo( nullptr);
      fs::closeLeaked();
      th.add( fs::eventHash());
      res.hash = th.value();
      res.nontrivial = !wf.empty() || !we.empty() || ov_active || via_string;
      return res;
   }

private:
   template< typename F> static bool guarded( Result& res, F f)
   {
      sim::OpBudget  guard( 20000000);
      const int      jr = sigsetjmp( guard.env(), 0);
      if (jr == 0)
      {
         f();
         guard.disarm();
         return true;
      }
      res.poisoned = true;
      switch (jr)
      {
      case sim::jrBudget: res.fail( "NONTERMINATION", "T1-progress", "evaluation exceeded the step budget"); break;
      case sim::jrExit:   res.fail( "EXIT", "T2-exit", "exit() called during evaluation"); break;
      case sim::jrAssert: res.fail( "ABORT", "T2-assert", "assertion failed: " + fs::g_last_assert); break;
      default:            res.fail( "ABORT", "T2-abort", "abort() called during evaluation"); break;
      }
      return false;
   }
};

} // namespace

sim::Harness& sim::harness()
{
   static C07  h;
   return h;
}

int main( int argc, char* argv[])
{
   return sim::harnessMain( argc, argv);
}
