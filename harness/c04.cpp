// C04 - argument evaluation is memory-safe and terminates for every argument
// vector and every source. Real code: prog_args::Handler with all three
// argument sources, ArgListParser/ArgListIterator, ArgString2Array,
// ArgumentKey, TypedArg<...>. Simulated: the file system and the environment
// the file / environment sources read from, incl. read errors in the middle,
// directories and unreadable files at the expected path, chunked reads.
// ASan + UBSan run inside every evaluation; termination is a step budget.

#include <sstream>

#include "handler_eval.hpp"

#include "../sim/budget.hpp"
#include "../sim/harness.hpp"
#include "../sim/simfs.hpp"

using sim::Json;
using sim::Result;
using sim::Rng;
using sim::Stats;
namespace fs = sim::fs;
using celma::prog_args::Handler;

namespace sim { namespace fs { extern std::string g_last_assert; } }

namespace {

enum FaultId { F_chunked_read, F_short_read, F_eintr_read, F_eio_read, F_open_eacces, F_open_enoent, F_open_eisdir,
               F_file_is_directory, F_file_unreadable, F_home_unset, F_no_final_newline };
const char* const kFaultNames[] = { "chunked_read", "short_read", "eintr_read", "eio_read", "open_eacces", "open_enoent",
               "open_eisdir", "file_is_directory", "file_unreadable", "home_unset", "file_without_final_newline" };
enum ProbeId { P_returned, P_threw_std_exception, P_threw_in_setup, P_file_source_read, P_env_source_read, P_argfile_argument_read,
               P_eio_while_reading, P_read_after_short_read, P_progname_without_slash, P_progname_len_0_or_1,
               P_progname_long, P_progname_only_slashes, P_double_dash_word, P_control_char_word, P_punct_only_word,
               P_nul_in_file, P_long_line_in_file, P_usage_printed, P_subgroup, P_evaluated_twice, P_many_words, P_groups_evaluation,
               P_nested_argument_files, P_empty_argument_vector, P_value_handler };
const char* const kProbeNames[] = { "evaluation_returned", "threw_std_exception", "threw_in_setup", "file_source_read",
               "env_source_read", "argument_file_argument_read", "eio_while_reading_a_source", "read_after_short_read",
               "program_name_without_slash", "program_name_of_length_0_or_1", "program_name_longer_than_200",
               "program_name_only_slashes", "double_dash_word", "control_character_word", "punctuation_only_word",
               "nul_byte_in_file", "line_longer_than_1000_in_file", "usage_printed", "sub_group", "same_handler_evaluated_twice",
               "more_than_12_words", "two_handlers_through_groups_singleton", "argument_files_opened_three_or_more_times", "argument_vector_of_zero_words", "value_handler_front_end" };

using recipes::randomBytes;
using recipes::punctWord;
using recipes::grammarWords;

std::string renderLine( Rng& rng, const std::vector< std::string>& words)
{
   std::string  line;
   for (size_t k = 0; k < words.size(); ++k)
   {
      if (k) line += " ";
      line += recipes::quoteWord( words[ k], static_cast< unsigned>( rng.below( 4)), false);
   }
   return line;
}

std::string sourceText( Rng& rng, const recipes::Built& built, bool allow_nul, bool& final_newline)
{
   std::string   text;
   const size_t  nlines = static_cast< size_t>( rng.below( 6));
   for (size_t l = 0; l < nlines; ++l)
   {
      switch (rng.below( 9))
      {
      case 8:
      {
         // a source that names an argument file: the file itself (an argument
         // file may then include itself, directly or through the other file),
         // something that is not there, a directory
         static const char* const  targets[] = { "/simfs/cfg/args.txt", "/simfs/cfg/args.txt", "/simfs/cfg/none.txt", "/simfs/cfg",
                                                 "/simfs/home/u/.progargs/prog.pa" };
         text += std::string( rng.chance( 1, 4) ? "--arg-file=" : "--arg-file ") + targets[ rng.below( 5)];
         break;
      }
      case 0: text += "# a comment"; break;
      case 1: break;
      case 2: text += randomBytes( rng, 1 + rng.below( 40), allow_nul); break;
      case 3: text += std::string( 1000 + rng.below( 3000), "-=x "[ rng.below( 4)]); break;
      case 4: text += "'unterminated " + renderLine( rng, grammarWords( rng, built, false)); break;
      case 5: text += renderLine( rng, grammarWords( rng, built, true)) + " \\"; break;
      default: text += renderLine( rng, grammarWords( rng, built, rng.chance( 1, 2))); break;
      }
      if (l + 1 < nlines) text += "\n";
   }
   final_newline = rng.chance( 2, 3);
   if (final_newline && !text.empty()) text += "\n";
   return text;
}

struct FlagName { const char* name; int value; };
const FlagName  kFlags[] = {
   { "hfHelpShort", Handler::hfHelpShort }, { "hfHelpLong", Handler::hfHelpLong }, { "hfHelpArg", Handler::hfHelpArg },
   { "hfHelpArgFull", Handler::hfHelpArgFull }, { "hfReadProgArg", Handler::hfReadProgArg },
   { "hfEnvVarArgs", Handler::hfEnvVarArgs }, { "hfVerboseArgs", Handler::hfVerboseArgs }, { "hfNoAbbr", Handler::hfNoAbbr },
   { "hfUsageHidden", Handler::hfUsageHidden }, { "hfArgHidden", Handler::hfArgHidden },
   { "hfUsageDeprecated", Handler::hfUsageDeprecated }, { "hfArgDeprecated", Handler::hfArgDeprecated },
   { "hfUsageShort", Handler::hfUsageShort }, { "hfUsageLong", Handler::hfUsageLong }, { "hfListArgVar", Handler::hfListArgVar },
   { "hfEndValues", Handler::hfEndValues }, { "hfListArgGroups", Handler::hfListArgGroups } };

class C04 final: public sim::Harness
{
public:
   const char* property() const override { return "C04"; }
   std::vector< std::string> faultKinds() const override
   {
      return std::vector< std::string>( std::begin( kFaultNames), std::end( kFaultNames));
   }
   std::vector< std::string> probeNames() const override
   {
      return std::vector< std::string>( std::begin( kProbeNames), std::end( kProbeNames));
   }
   std::string stateName( uint64_t key) const override
   {
      std::ostringstream  os;
      os << "file=" << ((key >> 8) & 0xf) << " env=" << ((key >> 4) & 0xf) << " outcome=" << (key & 0xf);
      return os.str();
   }

   Json gen( uint64_t seed, const std::string& tier) override
   {
      Rng   cfg( seed, "config"), wl( seed, "workload"), fl( seed, "faults"), ch( seed, "chunking");
      const bool  thorough = (tier == "thorough");
      Json  plan = Json::object();
      plan[ "prop"] = "C04";
      Json  recipe = recipes::genRecipe( cfg, true, true, true, true, true);
      plan[ "recipe"] = recipe;
      Json  flags = Json::array();
      for (auto const& f : kFlags)
         if (cfg.chance( 1, 3)) flags.push( f.name);
      plan[ "flags"] = flags;
      plan[ "arg_file_arg"] = cfg.chance( 1, 3);
      plan[ "named_env"] = cfg.chance( 1, 4);
      plan[ "repeat"] = cfg.chance( 1, 8) ? 2 : 1;
      if (cfg.chance( 1, 50)) plan[ "no_program_name"] = true;
      // the ValueHandler front end with its own fixed set of arguments
      const bool  value_handler = cfg.chance( 1, 10) && !plan.has( "recipe2");
      if (value_handler) plan[ "value_handler"] = true;
      // a minority of runs: two handlers from the Groups singleton, evaluated
      // through Groups::evalArguments(); the second one takes the list recipes
      if (cfg.chance( 1, 6))
      {
         Json  r2 = recipes::genRecipe( cfg, false, false);
         Json  s1 = Json::array(), s2 = Json::array();
         for (auto const& x : recipe.get( "sets").arr())
            if (x.s() == "R1" || x.s() == "R2" || x.s() == "R3" || x.s() == "R11" || x.s() == "R12") s1.push( x);
         for (auto const& x : r2.get( "sets").arr())
            if (x.s() == "R4" || x.s() == "R5" || x.s() == "R6" || x.s() == "R7" || x.s() == "R8") s2.push( x);
         if (s2.size() == 0) s2.push( "R4");
         recipe[ "sets"] = s1;
         r2[ "sets"] = s2;
         plan[ "recipe"] = recipe;
         plan[ "recipe2"] = r2;
      }

      recipes::g_text_blocks = true;
      recipes::Built  built;
      {
         recipes::Dest       d;
         std::ostringstream  o1, o2;
         try
         {
            Handler                    h( o1, o2, 0);
            std::unique_ptr< Handler>  sub;
            if (recipes::has( recipe, "R14")) sub.reset( new Handler( h, 0));
            recipes::build( h, sub.get(), d, recipe, built);
         } catch (const std::exception&)
         {
         }
      }
      if (plan.geti( "value_handler", 0) != 0) recipes::valueHandlerInfo( built);
      // program name
      std::string  argv0;
      switch (wl.below( 10))
      {
      case 0: argv0 = ""; break;
      case 1: argv0 = "p"; break;
      case 2: argv0 = "/"; break;
      case 3: argv0 = "////"; break;
      case 4: argv0 = "/usr/bin/prog/"; break;
      case 5: argv0 = std::string( 200 + wl.below( 100), 'n'); break;
      case 6: argv0 = "/" + std::string( wl.below( 300), 'd') + "/" + std::string( wl.below( 40), 'p'); break;
      case 7: argv0 = randomBytes( wl, 1 + wl.below( 20), false); break;
      default: argv0 = wl.chance( 1, 2) ? "/opt/tools/prog" : "prog"; break;
      }
      plan[ "argv0"] = argv0;
      // words
      std::vector< std::string>  words;
      const size_t  max_words = thorough ? 24 : 16;
      switch (wl.below( 4))
      {
      case 0:
      {
         const size_t  n = static_cast< size_t>( wl.below( max_words + 1));
         for (size_t k = 0; k < n; ++k) words.push_back( randomBytes( wl, 1 + wl.below( wl.chance( 1, 10) ? 300 : 12), false));
         break;
      }
      case 1:
      {
         const size_t  n = static_cast< size_t>( wl.below( max_words + 1));
         for (size_t k = 0; k < n; ++k) words.push_back( wl.chance( 2, 3) ? punctWord( wl) : randomBytes( wl, 1 + wl.below( 4), false));
         break;
      }
      default:
         words = grammarWords( wl, built, wl.chance( 2, 3));
         break;
      }
      if (plan.geti( "arg_file_arg") && wl.chance( 2, 3))
      {
         const size_t  at = words.empty() ? 0 : static_cast< size_t>( wl.below( words.size() + 1));
         words.insert( words.begin() + static_cast< long>( at), "/simfs/cfg/args.txt");
         words.insert( words.begin() + static_cast< long>( at), "--arg-file");
      }
      if (recipes::has( recipe, "R14") && wl.chance( 1, 2))
      {
         words.push_back( "--group");
         words.push_back( "-n");
         words.push_back( "5");
         if (wl.chance( 1, 2)) words.push_back( punctWord( wl));
      }
      if (words.size() > max_words) words.resize( max_words);
      // the standard arguments that the chosen flags add (help, usage variants,
      // lists of arguments): mostly behind the other words, so that the usage
      // shows the values set so far as default values
      {
         struct Ctl { const char* flag; const char* word; bool takes_key; };
         static const Ctl  ctls[] = {
            { "hfHelpShort", "-h", false }, { "hfHelpLong", "--help", false }, { "hfHelpArg", "--help-arg", true },
            { "hfHelpArgFull", "--help-arg-full", true }, { "hfArgHidden", "--print-hidden", false },
            { "hfArgDeprecated", "--print-deprecated", false }, { "hfUsageShort", "--help-short", false },
            { "hfUsageLong", "--help-long", false }, { "hfListArgVar", "--list-arg-vars", false },
            { "hfListArgGroups", "--list-arg-groups", false }, { "hfVerboseArgs", "--verbose-args", false },
            { "hfEndValues", "--endvalues", false } };
         for (auto const& c : ctls)
         {
            bool  enabled = false;
            for (auto const& f : flags.arr()) if (f.s() == c.flag) enabled = true;
            if (!enabled || !wl.chance( 1, 2)) continue;
            size_t  at = words.size() - std::min< size_t>( words.size(), static_cast< size_t>( wl.below( 3)));
            if (wl.chance( 1, 5)) at = static_cast< size_t>( wl.below( words.size() + 1));
            if (c.takes_key)
            {
               std::string  key = "x";
               if (!built.args.empty() && wl.chance( 4, 5))
               {
                  auto const&  a = built.args[ wl.below( built.args.size())];
                  key = (!a.lkey.empty() && (a.skey.empty() || wl.chance( 1, 2))) ? a.lkey : a.skey;
                  if (wl.chance( 1, 2)) key = (key.size() > 1 ? "--" : "-") + key;
               }
               words.insert( words.begin() + static_cast< long>( at), key);
            }
            words.insert( words.begin() + static_cast< long>( at), c.word);
         }
      }
      Json  wj = Json::array();
      for (auto const& w : words) wj.push( w);
      plan[ "words"] = wj;
      // sources
      static const char* const  fmodes[] = { "absent", "present", "present", "present", "dir", "unreadable", "home_unset" };
      auto genFile = [ &]( const char* key)
      {
         Json  f = Json::object();
         f[ "mode"] = fmodes[ wl.below( 7)];
         bool  fin = true;
         f[ "text"] = sourceText( wl, built, true, fin);
         plan[ key] = f;
      };
      genFile( "file");
      genFile( "argfile");
      {
         Json  e = Json::object();
         static const char* const  emodes[] = { "absent", "empty", "set", "set", "set" };
         e[ "mode"] = emodes[ wl.below( 5)];
         bool  fin = true;
         std::string  text = sourceText( wl, built, false, fin);
         e[ "text"] = text;
         plan[ "env"] = e;
      }
      Json  chunks = Json::array();
      if (ch.chance( 1, 2))
      {
         const size_t  nc = 1 + static_cast< size_t>( ch.below( 4));
         for (size_t k = 0; k < nc; ++k) chunks.push( static_cast< long long>( ch.chance( 1, 3) ? 1 : 1 + ch.below( 64)));
      }
      plan[ "chunks"] = chunks;
      Json  faults = Json::array();
      if (fl.chance( 1, 2))
      {
         const size_t  nf = 1 + static_cast< size_t>( fl.below( 2));
         for (size_t k = 0; k < nf; ++k)
         {
            static const char* const  kinds[] = { "short_read", "eintr_read", "eio_read", "eio_read", "open_eacces", "open_enoent", "open_eisdir" };
            Json  f = Json::object();
            f[ "kind"] = kinds[ fl.below( 7)];
            f[ "n"] = static_cast< long long>( fl.below( 4));
            f[ "bytes"] = static_cast< long long>( fl.below( 64));
            faults.push( f);
         }
      }
      plan[ "faults"] = faults;

      // swarm: two arrangements that the independent draws above produce too rarely
      Rng  sw( seed, "swarm");
      const unsigned  arrangement = static_cast< unsigned>( sw.below( 12));
      if (arrangement == 0 && !plan.has( "recipe2") && plan.geti( "value_handler", 0) == 0)
      {
         // files that name files: a source names the argument file, the
         // argument file names itself, the other file, a missing one
         plan[ "arg_file_arg"] = true;
         static const char* const  via[] = { "argv", "env", "file" };
         const std::string  how = via[ sw.below( 3)];
         static const char* const  targets[] = { "/simfs/cfg/args.txt", "/simfs/cfg/args.txt", "/simfs/home/u/.progargs/prog.pa",
                                                 "/simfs/cfg/none.txt" };
         std::string  inner;
         const size_t  nl = 1 + static_cast< size_t>( sw.below( 3));
         for (size_t l = 0; l < nl; ++l)
            inner += std::string( sw.chance( 1, 4) ? "--arg-file=" : "--arg-file ") + targets[ sw.below( 4)] + "\n";
         Json  af = Json::object();
         af[ "mode"] = "present";
         af[ "text"] = inner;
         plan[ "argfile"] = af;
         if (how == "argv")
         {
            Json  w2 = Json::array();
            w2.push( "--arg-file"); w2.push( "/simfs/cfg/args.txt");
            plan[ "words"] = w2;
         } else if (how == "env")
         {
            Json  e = Json::object();
            e[ "mode"] = "set";
            e[ "text"] = "--arg-file /simfs/cfg/args.txt";
            plan[ "env"] = e;
            Json  fl2 = plan.get( "flags");
            fl2.push( "hfEnvVarArgs");
            plan[ "flags"] = fl2;
            plan[ "named_env"] = sw.chance( 1, 2);
         } else
         {
            Json  f = Json::object();
            f[ "mode"] = "present";
            f[ "text"] = "--arg-file /simfs/cfg/args.txt\n";
            plan[ "file"] = f;
            Json  fl2 = plan.get( "flags");
            fl2.push( "hfReadProgArg");
            plan[ "flags"] = fl2;
            plan[ "argv0"] = sw.chance( 1, 2) ? "/opt/tools/prog" : "prog";
         }
      } else if (arrangement == 1 && !plan.has( "recipe2") && plan.geti( "value_handler", 0) == 0)
      {
         // usage of long values: a string destination gets a text block, then
         // the usage (or the help for that argument) is asked for
         Json  r = plan.get( "recipe");
         if (!recipes::has( r, "R2")) { Json sets = r.get( "sets"); sets.push( "R2"); r[ "sets"] = sets; plan[ "recipe"] = r; }
         Json  fl2 = Json::array();
         fl2.push( "hfHelpShort"); fl2.push( "hfHelpLong"); fl2.push( "hfHelpArg"); fl2.push( "hfHelpArgFull");
         if (sw.chance( 1, 2)) fl2.push( "hfUsageLong");
         plan[ "flags"] = fl2;
         Json  w2 = Json::array();
         w2.push( sw.chance( 1, 2) ? "-s" : "--str");
         w2.push( "x\n" + recipes::genTextBlock( sw, ""));
         if (sw.chance( 1, 2)) { w2.push( "-i"); w2.push( "5"); }
         switch (sw.below( 4))
         {
         case 0: w2.push( "-h"); break;
         case 1: w2.push( "--help"); break;
         case 2: w2.push( "--help-arg"); w2.push( sw.chance( 1, 2) ? "s" : "str"); break;
         default: w2.push( "--help-arg-full"); w2.push( "s"); break;
         }
         plan[ "words"] = w2;
      }
      return plan;
   }

   Result run( const Json& plan, Stats& st, std::string* trace) override
   {
      Result          res;
      sim::TraceHash  th;
      auto log = [ &]( const std::string& s) { th.add( s); if (trace) *trace += s + "\n"; };

      recipes::EvalCfg  cfg;
      const Json&       recipe = plan.get( "recipe");
      cfg.recipe = &recipe;
      if (plan.get( "recipe2").isObj())
      {
         cfg.recipe2 = &plan.get( "recipe2");
         st.probe( P_groups_evaluation);
      }
      cfg.flags = Handler::hfUsageCont;   // exit() is never a legitimate outcome
      const Json&  fj = plan.get( "flags");
      for (size_t k = 0; k < fj.size(); ++k)
         for (auto const& f : kFlags)
            if (fj.at( k).isStr() && fj.at( k).s() == f.name) cfg.flags |= f.value;
      cfg.arg_file_arg = plan.geti( "arg_file_arg", 0) != 0;
      cfg.named_env = plan.geti( "named_env", 0) != 0;
      cfg.env_name = "SIM_ARGS_VAR";
      cfg.repeat = static_cast< int>( std::max< long long>( 1, std::min< long long>( 3, plan.geti( "repeat", 1))));
      cfg.value_handler = plan.geti( "value_handler", 0) != 0 && !plan.get( "recipe2").isObj();
      if (cfg.value_handler) st.probe( P_value_handler);
      const std::string&  argv0 = plan.gets( "argv0");
      cfg.argv.push_back( argv0);
      const Json&  wj = plan.get( "words");
      bool  dd = false, ctrl = false, punct = false;
      for (size_t k = 0; k < wj.size(); ++k)
      {
         if (!wj.at( k).isStr()) continue;
         std::string  w = wj.at( k).s();
         const size_t  nul = w.find( '\0');
         if (nul != std::string::npos) w.resize( nul);   // a C string ends at the first NUL
         cfg.argv.push_back( w);
         if (w == "--") dd = true;
         for (unsigned char c : w) if (c < 0x20 || c == 0x7f) ctrl = true;
         if (!w.empty() && w.find_first_not_of( "-=()!") == std::string::npos) punct = true;
      }
      if (dd) st.probe( P_double_dash_word);
      if (ctrl) st.probe( P_control_char_word);
      if (punct) st.probe( P_punct_only_word);
      if (cfg.argv.size() > 13) st.probe( P_many_words);
      // an argument vector of zero words: main( 0, { nullptr }) - what execve()
      // with an empty argv gives a program
      if (plan.geti( "no_program_name", 0) != 0)
      {
         cfg.argv.clear();
         st.probe( P_empty_argument_vector);
      }
      if (argv0.find( '/') == std::string::npos) st.probe( P_progname_without_slash);
      if (argv0.size() <= 1) st.probe( P_progname_len_0_or_1);
      if (argv0.size() > 200) st.probe( P_progname_long);
      if (!argv0.empty() && argv0.find_first_not_of( '/') == std::string::npos) st.probe( P_progname_only_slashes);
      if (recipes::has( recipe, "R14")) st.probe( P_subgroup);
      if (cfg.repeat > 1) st.probe( P_evaluated_twice);

      // ---- the world
      fs::reset();
      fs::traceTo( trace);
      fs::mkdirs( "/simfs/cfg");
      fs::mkdirs( "/simfs/home/u/.progargs");
      fs::envSet( "HOME", "/simfs/home/u");
      std::string  prog = argv0;
      {
         // what basename() makes of it (trailing slashes, empty name)
         while (prog.size() > 1 && prog.back() == '/') prog.pop_back();
         size_t  pos = prog.find_last_of( '/');
         if (pos != std::string::npos && prog.size() > 1) prog = prog.substr( pos + 1);
         if (prog.empty()) prog = ".";
      }
      uint64_t  file_state = 0, env_state = 0;
      auto placeFile = [ &]( const Json& f, const std::string& path, bool is_prog_file)
      {
         const std::string&  mode = f.gets( "mode");
         const std::string&  text = f.gets( "text");
         if (mode == "present")
         {
            fs::putFile( path, text);
            if (text.find( '\0') != std::string::npos) st.probe( P_nul_in_file);
            size_t  run = 0, best = 0;
            for (char c : text) { run = (c == '\n') ? 0 : run + 1; best = std::max( best, run); }
            if (best > 1000) st.probe( P_long_line_in_file);
            if (!text.empty() && text.back() != '\n') st.fault( F_no_final_newline);
            if (is_prog_file) file_state = 1;
         } else if (mode == "dir")
         {
            fs::putDir( path);
            st.fault( F_file_is_directory);
            if (is_prog_file) file_state = 2;
         } else if (mode == "unreadable")
         {
            fs::putFile( path, text);
            fs::setUnreadable( path, true);
            st.fault( F_file_unreadable);
            if (is_prog_file) file_state = 3;
         } else if (mode == "home_unset" && is_prog_file)
         {
            fs::envUnset( "HOME");
            st.fault( F_home_unset);
            file_state = 4;
         }
      };
      placeFile( plan.get( "file"), "/simfs/home/u/.progargs/" + prog + ".pa", true);
      placeFile( plan.get( "argfile"), "/simfs/cfg/args.txt", false);
      {
         std::string  env_name = cfg.named_env ? cfg.env_name : prog;
         if (!cfg.named_env) for (auto & c : env_name) c = static_cast< char>( toupper( static_cast< unsigned char>( c)));
         const std::string&  mode = plan.get( "env").gets( "mode");
         std::string  text = plan.get( "env").gets( "text");
         const size_t  nul = text.find( '\0');
         if (nul != std::string::npos) text.resize( nul);
         fs::envUnset( env_name);
         if (mode == "empty") { fs::envSet( env_name, ""); env_state = 1; }
         else if (mode == "set") { fs::envSet( env_name, text); env_state = 2; }
      }
      std::vector< long long>  chunks;
      const Json&  cj = plan.get( "chunks");
      for (size_t k = 0; k < cj.size(); ++k) chunks.push_back( cj.at( k).i());
      fs::setReadChunks( chunks);
      std::vector< fs::Fault>  faults;
      const Json&  fl = plan.get( "faults");
      for (size_t k = 0; k < fl.size(); ++k)
      {
         fs::Fault  f;
         f.kind = fl.at( k).gets( "kind");
         f.at = (f.kind.compare( 0, 5, "open_") == 0) ? "open" : "read";
         f.n = fl.at( k).geti( "n", 0);
         f.bytes = fl.at( k).geti( "bytes", 0);
         faults.push_back( f);
      }

      // ---- the evaluation under the step budget and the exit/assert traps
      recipes::EvalOut  out;
      fs::opBegin( faults);
      sim::OpBudget  guard( 30000000);
      const int      jr = sigsetjmp( guard.env(), 0);
      if (jr == 0)
      {
         out = recipes::evaluate( cfg);
         guard.disarm();
      } else
      {
         res.poisoned = true;
         switch (jr)
         {
         case sim::jrBudget:
            res.fail( "NONTERMINATION", "O3-terminates", "evaluation did not end within 30000000 control-flow edges");
            break;
         case sim::jrExit: res.fail( "EXIT", "O2-outcome", "exit() was called although hfUsageCont is set"); break;
         case sim::jrAssert: res.fail( "ABORT", "O2-outcome", "assertion failed: " + fs::g_last_assert); break;
         default: res.fail( "ABORT", "O2-outcome", "abort()/terminate() was called"); break;
         }
      }
      fs::OpReport  rep = fs::opEnd();
      bool  short_fired = false;
      for (auto const& f : rep.faults)
      {
         if (!f.fired) continue;
         if (f.kind == "short_read") { st.fault( F_short_read); short_fired = true; }
         else if (f.kind == "eintr_read") st.fault( F_eintr_read);
         else if (f.kind == "eio_read") { st.fault( F_eio_read); st.probe( P_eio_while_reading); }
         else if (f.kind == "open_eacces") st.fault( F_open_eacces);
         else if (f.kind == "open_enoent") st.fault( F_open_enoent);
         else if (f.kind == "open_eisdir") st.fault( F_open_eisdir);
      }
      if (!chunks.empty() && rep.calls[ fs::ccRead] > 0) st.fault( F_chunked_read);
      if (short_fired && rep.calls[ fs::ccRead] > 1) st.probe( P_read_after_short_read);
      if (rep.calls[ fs::ccRead] > 0 && (cfg.flags & Handler::hfReadProgArg) && file_state == 1) st.probe( P_file_source_read);
      if (rep.calls[ fs::ccRead] > 0 && cfg.arg_file_arg) st.probe( P_argfile_argument_read);
      if (env_state == 2 && ((cfg.flags & Handler::hfEnvVarArgs) || cfg.named_env)) st.probe( P_env_source_read);
      if (rep.calls[ fs::ccOpen] >= 3) st.probe( P_nested_argument_files);

      uint64_t  oc = 0;
      if (res.ok())
      {
         if (!out.std_exception)
         {
            res.fail( "VIOLATION", "O2-outcome", "an exception not derived from std::exception escaped from the evaluation");
            oc = 3;
         } else if (out.threw)
         {
            st.probe( out.in_setup ? P_threw_in_setup : P_threw_std_exception);
            oc = 1;
         } else
         {
            st.probe( P_returned);
            oc = 2;
         }
         if (out.out.find( "Usage:") != std::string::npos) st.probe( P_usage_printed);
      }
      log( "outcome: " + (res.ok() ? out.record( true) : res.outcome));
      st.state( (file_state << 8) | (env_state << 4) | oc);
      fs::traceTo( nullptr);
      fs::closeLeaked();
      th.add( fs::eventHash());
      res.hash = th.value();
      res.nontrivial = rep.calls[ fs::ccOpen] > 0 || env_state == 2;
      return res;
   }
};

} // namespace

sim::Harness& sim::harness()
{
   static C04  h;
   return h;
}

int main( int argc, char* argv[])
{
   return sim::harnessMain( argc, argv);
}
