// C20 - concurrency helpers keep their contract under every schedule.
// Real code: celma::common::Singleton<T>, celma::common::ManagedThread (header
// only), libstdc++ std::thread / std::mutex. Replaced: the OS thread scheduler
// (baton scheduler over real pthreads, sim/sched.cpp). ThreadSanitizer runs
// inside every simulated run.

#include <atomic>
#include <cstring>
#include <memory>
#include <sstream>
#include <stdexcept>
#include <thread>
#include <vector>

#include "celma/common/managed_thread.hpp"
#include "celma/common/singleton.hpp"

#include "../sim/harness.hpp"
#include "../sim/sched.hpp"
#include "../sim/sched_json.hpp"
#include "../sim/symbolize.hpp"

using sim::Json;
using sim::Result;
using sim::Rng;
using sim::Stats;

namespace {

enum FaultId { F_preemption, F_child_first, F_parent_first, F_lock_contention };
const char* const kFaultNames[] = { "preemption", "child_runs_first_at_create", "parent_runs_first_at_create",
                                    "mutex_contention" };
enum ProbeId { P_singleton_run, P_managed_run, P_two_threads_inside_instance, P_lock_waited,
               P_query_while_running, P_query_before_start, P_query_after_finish, P_child_ran_before_ctor_end,
               P_join_explicit, P_join_by_destructor, P_observer_thread, P_reset_between_rounds,
               P_policy_random, P_policy_pct, P_policy_rr, P_function_over_before_ctor_end, P_two_singleton_types, P_persistent_threads, P_constructor_throws_once,
               P_mixed_call_forms, P_results_read_after_inactive };
const char* const kProbeNames[] = { "singleton_run", "managed_run", "two_threads_inside_instance", "lock_waited",
               "query_while_function_running", "query_before_start", "query_after_finish",
               "child_ran_before_constructor_finished", "join_explicit", "join_by_destructor", "observer_thread",
               "reset_between_rounds", "policy_random", "policy_pct", "policy_rr",
               "function_finished_before_constructor_returned", "two_singleton_types_in_one_run", "threads_living_across_reset", "first_construction_attempt_throws",
               "first_access_through_different_call_forms", "function_results_read_after_inactive_report" };

// ------------------------------------------------------------ singleton

std::atomic< int>  g_constructions{ 0 };
std::atomic< int>  g_inside{ 0 };       // threads currently between entry and exit of instance()
std::atomic< int>  g_max_inside{ 0 };

std::atomic< int>  g_fail_next{ 0 };    // the next Probe constructor throws
std::atomic< int>  g_ctor_failures_seen{ 0 };

uint64_t payloadWord( int arg, int idx)
{
   uint64_t  x = static_cast< uint64_t>( arg) * 1000003ULL + static_cast< uint64_t>( idx);
   return sim::splitmix64( x);
}

/// objects of the probe type come from a bump arena: an address is not handed
/// out again soon, so an old (destroyed) object and a new one can be told apart
alignas( 64) unsigned char  g_arena[ 1 << 20];
std::atomic< size_t>        g_arena_pos{ 0 };

class Probe: public celma::common::Singleton< Probe>
{
   friend class celma::common::Singleton< Probe>;
public:
   int       arg;
   uint64_t  words[ 6];
   static void* operator new( size_t size)
   {
      const size_t  step = (size + 63) & ~size_t( 63);
      size_t        pos = g_arena_pos.fetch_add( step, std::memory_order_relaxed) % (sizeof( g_arena) - 4096);
      return g_arena + (pos & ~size_t( 63));
   }
   static void operator delete( void*) {}
protected:
   explicit Probe( int a): arg( a)
   {
      // plan option: the first construction attempt of a round fails
      if (g_fail_next.exchange( 0, std::memory_order_relaxed) != 0)
         throw std::runtime_error( "simulated failure in the constructor of the singleton object");
      // relaxed: the probes of the harness must not synchronise the threads
      g_constructions.fetch_add( 1, std::memory_order_relaxed);
      for (int k = 0; k < 6; ++k)
         words[ k] = payloadWord( a, k);
   }
   Probe( int a, int): Probe( a) {}
};

/// instance() is a variadic template: the same singleton can be reached
/// through several instantiations (lvalue, rvalue, const reference, another
/// constructor, another argument type); all of them are "the first access"
constexpr int  kCallForms = 5;

Probe& accessProbe( int form, int ctor_arg)
{
   switch (form)
   {
   case 1:  return Probe::instance( int( ctor_arg));
   case 2:  return Probe::instance( static_cast< const int&>( ctor_arg));
   case 3:  return Probe::instance( ctor_arg, 0);
   case 4:  return Probe::instance( static_cast< short>( ctor_arg));
   default: return Probe::instance( ctor_arg);
   }
}

/// a second singleton type with a two-argument constructor: the static
/// members are per type, the two must not interfere
std::atomic< int>  g_constructions_b{ 0 };

class ProbeB: public celma::common::Singleton< ProbeB>
{
   friend class celma::common::Singleton< ProbeB>;
public:
   int          arg;
   std::string  text;
   uint64_t     words[ 6];
protected:
   ProbeB( int a, const std::string& t): arg( a), text( t)
   {
      g_constructions_b.fetch_add( 1, std::memory_order_relaxed);
      for (int k = 0; k < 6; ++k)
         words[ k] = payloadWord( a + 7, k);
   }
};

struct Slot
{
   const void*  addr = nullptr;
   int          arg = -1;
   uint64_t     words[ 6] = { 0, 0, 0, 0, 0, 0 };
   bool         done = false;
   bool         text_ok = true;
};

void singletonWorkerB( int ctor_arg, Slot* slot, std::atomic< int>* go, int)
{
   if (go != nullptr)
      while (go->load() == 0)
         sim::schedYield();
   ProbeB&  p = ProbeB::instance( ctor_arg, "text-" + std::to_string( ctor_arg));
   slot->addr = &p;
   slot->arg = p.arg;
   for (int k = 0; k < 6; ++k)
      slot->words[ k] = p.words[ k];
   slot->text_ok = (p.text == "text-" + std::to_string( p.arg));
   slot->done = true;
}

struct RoundCtl
{
   std::atomic< int>  round_go{ 0 };
   std::atomic< int>  done{ 0 };
};

/// a thread that lives through all rounds: its first access of every round
/// comes after another thread's reset()
void persistentWorker( int tid, int rounds, std::vector< std::vector< Slot>>* slots, RoundCtl* ctl, int form, int form_step)
{
   for (int r = 0; r < rounds; ++r)
   {
      while (ctl->round_go.load() < r + 1)
         sim::schedYield();
      Probe&  p = accessProbe( (form + r * form_step) % kCallForms, 1000 * (r + 1) + tid);
      Slot&   slot = (*slots)[ static_cast< size_t>( r)][ static_cast< size_t>( tid)];
      slot.addr = &p;
      slot.arg = p.arg;
      for (int k = 0; k < 6; ++k)
         slot.words[ k] = p.words[ k];
      slot.done = true;
      ctl->done.fetch_add( 1);
   }
}

void singletonWorker( int ctor_arg, Slot* slot, std::atomic< int>* go, int form)
{
   if (go != nullptr)
      while (go->load() == 0)
         sim::schedYield();
   // relaxed on purpose: an acquire/release pair here would order the threads'
   // accesses inside instance() and hide a race from ThreadSanitizer
   int  now = g_inside.fetch_add( 1, std::memory_order_relaxed) + 1;
   int  seen = g_max_inside.load( std::memory_order_relaxed);
   while (now > seen && !g_max_inside.compare_exchange_weak( seen, now, std::memory_order_relaxed)) {}
   Probe*  pp = nullptr;
   for (int attempt = 0; attempt < 3 && pp == nullptr; ++attempt)
   {
      try
      {
         pp = &accessProbe( form, ctor_arg);
      } catch (const std::runtime_error&)
      {
         // a failed construction must leave the singleton "not created":
         // this thread or another one constructs it on the next access
         g_ctor_failures_seen.fetch_add( 1, std::memory_order_relaxed);
      }
   }
   if (pp == nullptr) { g_inside.fetch_sub( 1, std::memory_order_relaxed); return; }
   Probe&  p = *pp;
   g_inside.fetch_sub( 1, std::memory_order_relaxed);
   slot->addr = &p;
   slot->arg = p.arg;
   for (int k = 0; k < 6; ++k)
      slot->words[ k] = p.words[ k];
   slot->done = true;
}

// -------------------------------------------------------- managed thread

struct ManagedShared
{
   std::atomic< int>                             started{ 0 };
   std::atomic< int>                             release{ 0 };
   std::atomic< int>                             finished{ 0 };
   std::atomic< celma::common::ManagedThread*>   published{ nullptr };
   std::atomic< int>                             stop_observers{ 0 };
   /// what the thread function produces: plain memory on the heap, written by
   /// the function just before it returns. Whoever has seen the function
   /// started and then gets "not active" reads it without joining first.
   uint64_t*                                     results = nullptr;
   int                                           results_key = 0;
};
constexpr int  kResultWords = 4;

struct QueryLog
{
   int  m1_violations = 0;
   int  while_running = 0, before_start = 0, after_finish = 0;
   int  first_bad_query = -1;
   int  results_read = 0, results_wrong = 0;
};

void query( ManagedShared& sh, celma::common::ManagedThread& mt, QueryLog& ql, int qidx)
{
   const int   s = sh.started.load();
   const bool  a = mt.isActive();
   // "not active" after the start was seen = the function has returned: its
   // results are read here, BEFORE the harness flag `finished` is loaded (that
   // load would order the two threads and must not stand in for isActive())
   uint64_t    seen[ kResultWords] = { 0, 0, 0, 0 };
   const bool  read_results = (s == 1 && !a && sh.results != nullptr);
   if (read_results)
      for (int k = 0; k < kResultWords; ++k)
         seen[ k] = sh.results[ k];
   const int   f = sh.finished.load();
   if (read_results && f == 1)
   {
      ++ql.results_read;
      for (int k = 0; k < kResultWords; ++k)
         if (seen[ k] != payloadWord( sh.results_key, k)) ++ql.results_wrong;
   }
   if (s == 1 && f == 0)
   {
      ++ql.while_running;
      if (!a)
      {
         if (ql.m1_violations++ == 0) ql.first_bad_query = qidx;
      }
   } else if (s == 0) ++ql.before_start;
   else ++ql.after_finish;
}

/// latch: the function runs until the creating thread releases it; without
/// latch it returns at once (it may be over before the constructor of the
/// ManagedThread object has finished)
void managedBody( ManagedShared* sh, bool latch)
{
   sh->started.store( 1);
   while (latch && sh->release.load() == 0)
      sim::schedYield();
   for (int k = 0; k < kResultWords; ++k)
      sh->results[ k] = payloadWord( sh->results_key, k);
   sh->finished.store( 1);
}

void managedBodyArg( ManagedShared* sh, int spin_extra, bool latch)
{
   sh->started.store( 1);
   for (int k = 0; k < spin_extra; ++k)
      sim::schedYield();
   while (latch && sh->release.load() == 0)
      sim::schedYield();
   for (int k = 0; k < kResultWords; ++k)
      sh->results[ k] = payloadWord( sh->results_key, k);
   sh->finished.store( 1);
}

void observer( ManagedShared* sh, QueryLog* ql, int queries)
{
   celma::common::ManagedThread*  mt;
   while ((mt = sh->published.load()) == nullptr)
   {
      if (sh->stop_observers.load() != 0) return;
      sim::schedYield();
   }
   for (int q = 0; q < queries && sh->stop_observers.load() == 0; ++q)
   {
      query( *sh, *mt, *ql, q);
      sim::schedYield();
   }
}

// ------------------------------------------------------------------- run

Result*  g_result = nullptr;   // for the fatal call-back
Stats*   g_stats = nullptr;

void onFatal( const char* kind, const char* detail)
{
   Result  r;
   if (g_result != nullptr) r = *g_result;
   r.outcome = "OK";
   r.fail( kind, strcmp( kind, "DEADLOCK") == 0 ? "S5-deadlock" : "S5-progress", detail);
   sim::SchedStats  st;
   sim::schedEnd( &st);
   r.sim_time = st.points;
   r.hash = st.switch_hash;
   r.extra = Json::object();
   r.extra[ "explicit_schedule"] = sim::explicitSchedule();
   sim::abandonRun( r);
}

class C20 final: public sim::Harness
{
public:
   const char* property() const override { return "C20"; }
   std::vector< std::string> faultKinds() const override
   {
      return std::vector< std::string>( std::begin( kFaultNames), std::end( kFaultNames));
   }
   std::vector< std::string> probeNames() const override
   {
      return std::vector< std::string>( std::begin( kProbeNames), std::end( kProbeNames));
   }
   std::string stateName( uint64_t key) const override
   {
      std::ostringstream  os;
      os << ((key >> 16) ? "managed" : "singleton") << " threads=" << ((key >> 8) & 0xff) << " max_inside=" << (key & 0xff);
      return os.str();
   }

   Json gen( uint64_t seed, const std::string& tier) override
   {
      Rng   cfg( seed, "config"), sc( seed, "schedule");
      Json  plan = Json::object();
      plan[ "prop"] = "C20";
      const bool  thorough = (tier == "thorough");
      if (cfg.chance( 1, 2))
      {
         plan[ "scenario"] = "singleton";
         const long long  maxk = thorough ? 16 : 8;
         plan[ "threads"] = cfg.chance( 1, 2) ? cfg.range( 2, 4) : cfg.range( 2, maxk);
         plan[ "rounds"] = cfg.range( 1, 3);
         plan[ "barrier"] = cfg.chance( 1, 2);
         plan[ "two_types"] = cfg.chance( 1, 3);
         plan[ "persistent"] = cfg.chance( 1, 4);
         plan[ "ctor_throws"] = cfg.chance( 1, 4);
         if (cfg.chance( 1, 2))
         {
            Json  fl = Json::array();
            for (long long t = 0; t < plan.geti( "threads"); ++t)
               fl.push( cfg.range( 0, kCallForms - 1));
            plan[ "forms"] = fl;
            plan[ "form_step"] = cfg.range( 0, 3);
         }
         plan[ "sched"] = sim::genSchedule( sc, 400 * static_cast< uint64_t>( plan.geti( "threads")));
      } else
      {
         plan[ "scenario"] = "managed";
         plan[ "observers"] = cfg.range( 0, 2);
         plan[ "queries"] = cfg.range( 1, thorough ? 8 : 4);
         plan[ "join"] = cfg.chance( 2, 3) ? "explicit" : "dtor";
         plan[ "with_arg"] = cfg.chance( 1, 2);
         plan[ "spin_extra"] = cfg.range( 0, 3);
         plan[ "latch"] = !cfg.chance( 1, 3);
         plan[ "rounds"] = cfg.range( 1, 2);
         plan[ "sched"] = sim::genSchedule( sc, 600);
      }
      return plan;
   }

   Result run( const Json& plan, Stats& st, std::string* trace) override
   {
      Result               res;
      sim::ScheduleHolder  sh;
      sim::scheduleFromJson( plan.get( "sched"), sh, 3000000);
      switch (sh.cfg.policy)
      {
      case sim::polRandom: st.probe( P_policy_random); break;
      case sim::polPct: st.probe( P_policy_pct); break;
      case sim::polRoundRobin: st.probe( P_policy_rr); break;
      default: break;   // explicit switch list: replays only
      }
      g_result = &res;
      g_stats = &st;
      sim::schedSetFatal( &onFatal);
      sim::raceReset();
      sim::TraceHash  th;
      const bool  singleton = plan.gets( "scenario") == "singleton";
      uint64_t    state_key = 0;

      if (singleton)
         runSingleton( plan, sh, res, st, th, state_key, trace);
      else
         runManaged( plan, sh, res, st, th, state_key, trace);

      sim::SchedStats  ss;
      sim::schedEnd( &ss);
      g_result = nullptr;

      st.fault( F_preemption, ss.preemptions);
      st.fault( F_child_first, ss.child_first);
      st.fault( F_parent_first, ss.parent_first);
      st.fault( F_lock_contention, ss.blocked_lock);
      if (ss.blocked_lock) st.probe( P_lock_waited);
      st.state( state_key);
      st.misc[ "schedule_points"] += ss.points;
      st.misc[ "memory_access_points"] += ss.mem_points;
      st.misc[ "context_switches"] += ss.switches;

      // S4 / M3: no data race
      const sim::RaceInfo&  ri = sim::raceInfo();
      if (ri.count > 0)
      {
         std::ostringstream  os;
         os << ri.description << ":";
         for (int k = 0; k < ri.accesses; ++k)
         {
            auto const&  a = ri.access[ k];
            os << (k ? " vs " : " ") << (a.atomic ? "atomic " : "") << (a.write ? "write" : "read") << "(" << a.size << ") in "
               << sim::symbolizeAccess( a.pc, 4);
         }
         res.fail( "RACE", "data-race", os.str());
      }

      th.add( ss.switch_hash);
      res.hash = th.value();
      res.sim_time = ss.points;
      res.nontrivial = (ss.preemptions + ss.blocked_lock) > 0;
      if (!res.ok() || trace != nullptr)
      {
         res.extra = Json::object();
         res.extra[ "explicit_schedule"] = sim::explicitSchedule();
      }
      if (trace != nullptr)
      {
         std::ostringstream  os;
         os << "points=" << ss.points << " mem_points=" << ss.mem_points << " switches=" << ss.switches
            << " preemptions=" << ss.preemptions << " lock_waits=" << ss.blocked_lock << " races=" << ri.count << "\n";
         size_t                   n = 0;
         const sim::SwitchEntry*  log = sim::schedLog( &n);
         for (size_t k = 0; k < n && k < 400; ++k)
            os << "switch T" << log[ k].from << "@" << log[ k].n << " -> T" << log[ k].to << " kind=" << log[ k].kind << "\n";
         *trace += os.str();
      }
      return res;
   }

private:
   void runSingleton( const Json& plan, sim::ScheduleHolder& sh, Result& res, Stats& st, sim::TraceHash& th,
                      uint64_t& state_key, std::string* trace)
   {
      st.probe( P_singleton_run);
      long long  k = plan.geti( "threads", 2);
      if (k < 1) k = 1;
      if (k > 32) k = 32;
      const long long  rounds = std::max< long long>( 1, std::min< long long>( 4, plan.geti( "rounds", 1)));
      const bool       barrier = plan.geti( "barrier", 0) != 0;
      const bool  two_types = plan.geti( "two_types", 0) != 0;
      if (two_types) st.probe( P_two_singleton_types);
      Probe::reset();
      ProbeB::reset();
      // everything is read from the plan BEFORE the simulated region starts:
      // inside it every load of non-stack memory is a schedule point, and
      // whether the plan object lives on the stack or on the heap must not matter
      const bool  persistent = plan.geti( "persistent", 0) != 0;
      const bool  ctor_throws = plan.geti( "ctor_throws", 0) != 0 && !persistent;
      if (ctor_throws) st.probe( P_constructor_throws_once);
      g_fail_next.store( 0);
      g_ctor_failures_seen.store( 0);
      int  max_inside_all = 0;
      // call form of every thread: [ 2, 0, 1] = thread 0 uses form 2, ...; missing = 0
      std::vector< int>  forms( static_cast< size_t>( k), 0);
      bool               mixed = false;
      if (plan.get( "forms").isArr())
      {
         auto const&  fl = plan.get( "forms");
         for (size_t t = 0; t < forms.size() && t < fl.size(); ++t)
            forms[ t] = static_cast< int>( (((fl.at( t).isInt() ? fl.at( t).i() : 0) % kCallForms) + kCallForms) % kCallForms);
      }
      for (int f : forms)
         if (f != forms[ 0]) mixed = true;
      const int  form_step = static_cast< int>( plan.geti( "form_step", 0) & 3);
      if (mixed) st.probe( P_mixed_call_forms);
      sim::schedBegin( sh.cfg);
      if (persistent)
      {
         st.probe( P_persistent_threads);
         std::vector< std::vector< Slot>>  slots( static_cast< size_t>( rounds), std::vector< Slot>( static_cast< size_t>( k)));
         std::vector< const void*>         round_addr;
         RoundCtl                          ctl;
         std::vector< std::thread>         threads;
         for (long long t = 0; t < k; ++t)
            threads.emplace_back( persistentWorker, static_cast< int>( t), static_cast< int>( rounds), &slots, &ctl,
                                  forms[ static_cast< size_t>( t)], form_step);
         for (long long round = 0; round < rounds; ++round)
         {
            if (round > 0)
            {
               // all workers are between two rounds: quiescent
               Probe::reset();
               st.probe( P_reset_between_rounds);
            }
            g_constructions.store( 0);
            ctl.done.store( 0);
            ctl.round_go.store( static_cast< int>( round) + 1);
            while (ctl.done.load() < static_cast< int>( k))
               sim::schedYield();
            const int  c = g_constructions.load();
            th.add( static_cast< uint64_t>( c));
            if (c != 1 && res.ok())
               res.fail( "VIOLATION", "S1-constructed-once", "round " + std::to_string( round) + " (threads that live across reset()): "
                  + std::to_string( c) + " objects were constructed for " + std::to_string( k) + " first accesses after the reset");
            auto const&  sl = slots[ static_cast< size_t>( round)];
            for (size_t t = 0; t < sl.size() && res.ok(); ++t)
            {
               if (sl[ t].addr != sl[ 0].addr || sl[ t].arg != sl[ 0].arg)
                  res.fail( "VIOLATION", "S2-same-object", "round " + std::to_string( round) + ": thread " + std::to_string( t)
                     + " received a different object than thread 0");
               for (int w = 0; w < 6; ++w)
                  if (sl[ t].words[ w] != payloadWord( sl[ t].arg, w))
                     res.fail( "VIOLATION", "S3-fully-constructed", "round " + std::to_string( round) + ": thread " + std::to_string( t)
                        + " saw payload that does not belong to a completely constructed object");
               for (auto const* old : round_addr)
                  if (sl[ t].addr == old)
                     res.fail( "VIOLATION", "S2-same-object", "round " + std::to_string( round) + ": thread " + std::to_string( t)
                        + " still received the object of an earlier round that reset() had destroyed");
            }
            round_addr.push_back( sl[ 0].addr);
         }
         for (auto & t : threads)
            t.join();
         state_key = (static_cast< uint64_t>( k) << 8) | 0x80;
         return;
      }
      for (long long round = 0; round < rounds && res.ok(); ++round)
      {
         g_constructions.store( 0);
         g_constructions_b.store( 0);
         g_fail_next.store( ctor_throws ? 1 : 0);
         g_inside.store( 0);
         g_max_inside.store( 0);
         std::vector< Slot>            slots( static_cast< size_t>( k));
         std::vector< std::thread>     threads;
         std::atomic< int>             go{ 0 };
         for (long long t = 0; t < k; ++t)
            threads.emplace_back( (two_types && (t % 2) == 1) ? singletonWorkerB : singletonWorker,
                                  static_cast< int>( 1000 * (round + 1) + t),
                                  &slots[ static_cast< size_t>( t)], barrier ? &go : nullptr,
                                  forms[ static_cast< size_t>( t)]);
         go.store( 1);
         for (auto & t : threads)
            t.join();
         max_inside_all = std::max( max_inside_all, g_max_inside.load());
         // S1 exactly one construction
         const int  c = g_constructions.load();
         const int  cb = g_constructions_b.load();
         th.add( static_cast< uint64_t>( c));
         th.add( static_cast< uint64_t>( cb));
         if (two_types && k >= 2 && cb != 1)
            res.fail( "VIOLATION", "S1-constructed-once", "round " + std::to_string( round) + ": "
               + std::to_string( cb) + " objects of the second singleton type were constructed");
         if (c != 1)
            res.fail( "VIOLATION", "S1-constructed-once", "round " + std::to_string( round) + ": "
               + std::to_string( c) + " objects were constructed for " + std::to_string( k) + " racing first accesses");
         // S2 same object for everybody, S3 completely constructed
         for (size_t t = 0; t < slots.size() && res.ok(); ++t)
         {
            if (!slots[ t].done)
            {
               res.fail( "VIOLATION", "S5-progress", "thread " + std::to_string( t) + " did not finish");
               break;
            }
            const bool    is_b = two_types && (t % 2) == 1;
            const size_t  ref = is_b ? 1 : 0;
            if (slots[ t].addr != slots[ ref].addr)
               res.fail( "VIOLATION", "S2-same-object", "round " + std::to_string( round) + ": thread "
                  + std::to_string( t) + " received a different object than thread " + std::to_string( ref));
            if (!slots[ t].text_ok)
               res.fail( "VIOLATION", "S3-fully-constructed", "round " + std::to_string( round) + ": thread "
                  + std::to_string( t) + " saw a string member that does not belong to the constructed object");
            for (int w = 0; w < 6; ++w)
               if (slots[ t].words[ w] != payloadWord( slots[ t].arg + (is_b ? 7 : 0), w))
                  res.fail( "VIOLATION", "S3-fully-constructed", "round " + std::to_string( round) + ": thread "
                     + std::to_string( t) + " saw payload word " + std::to_string( w) + " of a partly constructed object");
            if (slots[ t].arg != slots[ ref].arg)
               res.fail( "VIOLATION", "S2-same-object", "threads saw objects built from different constructor arguments");
         }
         if (trace != nullptr)
            *trace += "round " + std::to_string( round) + ": constructions=" + std::to_string( c)
               + " max threads inside instance()=" + std::to_string( g_max_inside.load()) + "\n";
         if (round + 1 < rounds)
         {
            Probe::reset();
            ProbeB::reset();
            st.probe( P_reset_between_rounds);
         }
      }
      if (max_inside_all >= 2) st.probe( P_two_threads_inside_instance);
      state_key = (static_cast< uint64_t>( k) << 8) | static_cast< uint64_t>( std::min( max_inside_all, 255));
   }

   void runManaged( const Json& plan, sim::ScheduleHolder& sh, Result& res, Stats& st, sim::TraceHash& th,
                    uint64_t& state_key, std::string* trace)
   {
      st.probe( P_managed_run);
      const long long  nobs = std::max< long long>( 0, std::min< long long>( 4, plan.geti( "observers", 0)));
      const int        queries = static_cast< int>( std::max< long long>( 1, std::min< long long>( 16, plan.geti( "queries", 2))));
      const bool       explicit_join = plan.gets( "join") != "dtor";
      const bool       with_arg = plan.geti( "with_arg", 0) != 0;
      const int        spin_extra = static_cast< int>( std::max< long long>( 0, std::min< long long>( 8, plan.geti( "spin_extra", 0))));
      const bool       latch = plan.geti( "latch", 1) != 0;
      const long long  rounds = std::max< long long>( 1, std::min< long long>( 3, plan.geti( "rounds", 1)));
      sim::schedBegin( sh.cfg);
      for (long long round = 0; round < rounds && res.ok(); ++round)
      {
         ManagedShared            shd;
         std::unique_ptr< uint64_t[]>  result_words( new uint64_t[ kResultWords]());
         shd.results = result_words.get();
         shd.results_key = 4242 + static_cast< int>( round);
         std::vector< QueryLog>   qlogs( static_cast< size_t>( nobs) + 1);
         std::vector< std::thread>  observers;
         for (long long o = 0; o < nobs; ++o)
         {
            observers.emplace_back( observer, &shd, &qlogs[ static_cast< size_t>( o) + 1], queries);
            st.probe( P_observer_thread);
         }
         bool  active_after_join = false;
         {
            std::unique_ptr< celma::common::ManagedThread>  mt;
            if (with_arg)
               mt.reset( new celma::common::ManagedThread( managedBodyArg, &shd, spin_extra, latch));
            else
               mt.reset( new celma::common::ManagedThread( [ &shd, latch] { managedBody( &shd, latch); }));
            if (shd.finished.load() == 1) st.probe( P_function_over_before_ctor_end);
            // did the new thread already run while the constructor was still busy?
            if (shd.started.load() == 1) st.probe( P_child_ran_before_ctor_end);
            shd.published.store( mt.get());
            for (int q = 0; q < queries; ++q)
            {
               query( shd, *mt, qlogs[ 0], q);
               if (q + 1 < queries) sim::schedYield();
            }
            // make sure the function has been seen running at least once, then ask again
            while (shd.started.load() == 0)
               sim::schedYield();
            query( shd, *mt, qlogs[ 0], queries);
            shd.release.store( 1);
            // observers must be gone before the object is destroyed
            shd.stop_observers.store( 1);
            for (auto & o : observers)
               o.join();
            if (explicit_join)
            {
               st.probe( P_join_explicit);
               mt->join();
               // M2: inactive once the function has returned and the thread was joined
               active_after_join = mt->isActive();
               if (shd.finished.load() != 1)
                  res.fail( "VIOLATION", "M2-joined", "join() returned before the thread function had finished");
            } else
               st.probe( P_join_by_destructor);
         }  // destructor joins if still joinable
         if (shd.finished.load() != 1)
            res.fail( "VIOLATION", "M2-joined", "destructor returned before the thread function had finished");
         if (active_after_join)
            res.fail( "VIOLATION", "M2-inactive-after-join", "isActive() is still true after the function returned and the thread was joined");
         int  running = 0, before = 0, after = 0;
         for (size_t q = 0; q < qlogs.size(); ++q)
         {
            running += qlogs[ q].while_running;
            before += qlogs[ q].before_start;
            after += qlogs[ q].after_finish;
            if (qlogs[ q].results_read > 0) st.probe( P_results_read_after_inactive);
            if (qlogs[ q].results_wrong > 0)
               res.fail( "VIOLATION", "M4-results-visible", std::string( q == 0 ? "creating thread" : "observer thread")
                  + ": isActive() returned false after the function had started, but the values the function wrote before"
                    " it returned were not what was read");
            if (qlogs[ q].m1_violations > 0)
               res.fail( "VIOLATION", "M1-active-while-running", std::string( q == 0 ? "creating thread" : "observer thread")
                  + ": isActive() returned false in query " + std::to_string( qlogs[ q].first_bad_query)
                  + " although the thread function had been seen started before and not finished after the query");
         }
         if (running) st.probe( P_query_while_running, static_cast< uint64_t>( running));
         if (before) st.probe( P_query_before_start, static_cast< uint64_t>( before));
         if (after) st.probe( P_query_after_finish, static_cast< uint64_t>( after));
         th.add( static_cast< uint64_t>( running));
         th.add( static_cast< uint64_t>( before));
         th.add( static_cast< uint64_t>( after));
         if (trace != nullptr)
            *trace += "round " + std::to_string( round) + ": queries while running=" + std::to_string( running)
               + " before start=" + std::to_string( before) + " after finish=" + std::to_string( after) + "\n";
      }
      state_key = (1ULL << 16) | (static_cast< uint64_t>( nobs + 2) << 8);
   }
};

} // namespace

sim::Harness& sim::harness()
{
   static C20  h;
   return h;
}

int main( int argc, char* argv[])
{
   return sim::harnessMain( argc, argv);
}
