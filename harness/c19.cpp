// C19 - buffered reading and writing preserve the byte stream for every
// chunking. Real code: celma::common::ReadBuffer / WriteBuffer (header only).
// Simulated: the data source and the data sink behind the classes' own
// virtual seam (readData / writeData): delivery sizes, idle deliveries and
// transient errors are plan decisions.

#include <cstring>
#include <memory>
#include <sstream>
#include <stdexcept>

#include "celma/common/read_buffer.hpp"
#include "celma/common/write_buffer.hpp"

#include "../sim/budget.hpp"
#include "../sim/harness.hpp"

#ifndef C19_PART
#define C19_PART 0
#endif

using sim::Json;
using sim::Result;
using sim::Rng;
using sim::Stats;

namespace c19 {

const size_t  kSizes[] = { 1, 2, 3, 4, 5, 7, 8, 16, 31, 64, 256 };

enum FaultId { F_short_delivery, F_source_idle, F_source_throw, F_sink_throw };
enum ProbeId { P_source_call, P_delivery_one_byte, P_delivery_exactly_max, P_refill_with_data_pending, P_served_from_buffer, P_request_equals_N, P_source_exception_mid_get, P_oversized_get, P_sink_call, P_append_fits, P_flush_then_buffer, P_passthrough_after_buffered, P_passthrough_empty_buffer, P_flush_with_data, P_sink_exception_in_flush, P_sink_exception_in_append, P_sink_exception_in_passthrough };
const char* const kFaultNames[] = { "short_delivery", "source_idle", "source_throw", "sink_throw" };
const char* const kProbeNames[] = { "source_call", "delivery_one_byte", "delivery_exactly_max", "refill_with_data_pending", "served_from_buffer", "request_equals_N", "source_exception_mid_get", "oversized_get", "sink_call", "append_fits", "flush_then_buffer", "passthrough_after_buffered", "passthrough_empty_buffer", "flush_with_data", "sink_exception_in_flush", "sink_exception_in_append", "sink_exception_in_passthrough" };

/// thrown by the simulated source / sink as a transient error
struct SimIoError: public std::runtime_error
{
   SimIoError(): std::runtime_error( "simulated transient I/O error") {}
};

/// thrown by the simulated source when an operation does not make progress
struct SimBudgetExceeded
{
};

inline unsigned char streamByte( uint64_t key, uint64_t idx)
{
   uint64_t  x = key ^ (idx * 0x9e3779b97f4a7c15ULL);
   return static_cast< unsigned char>( sim::splitmix64( x) >> 24);
}

inline uint64_t stateKey( unsigned side, size_t n, unsigned buf, unsigned req, unsigned kind)
{
   return (static_cast< uint64_t>( n) << 16) | (side << 12) | (buf << 8) | (req << 4) | kind;
}

struct Ctx
{
   Stats*           st = nullptr;
   std::string*     trace = nullptr;
   sim::TraceHash   th;
   Result           res;
   void ev( const char* what, uint64_t a = 0, uint64_t b = 0, uint64_t c = 0)
   {
      th.add( sim::fnv1a( what, strlen( what)));
      th.add( a); th.add( b); th.add( c);
      if (trace)
      {
         std::ostringstream  os;
         os << "#" << th.events() / 4 << " " << what << " " << a << " " << b << " " << c << "\n";
         *trace += os.str();
      }
   }
};

// ---------------------------------------------------------------- read side

/// what the simulated source does on successive readData() calls of one get()
struct SourceScript
{
   const Json*  decisions = nullptr;   // array of {"k":..., "n":...}
   size_t       next = 0;
   size_t       calls = 0;
   size_t       budget = 0;            // max. calls for this operation
   size_t       request = 0;           // length asked for by the get() in progress
};

template< size_t N, typename P> class SimSource final: public celma::common::ReadBuffer< N, P>
{
public:
   SimSource( Ctx& c, uint64_t key): ctx( c), mKey( key) {}

   Ctx&          ctx;
   SourceScript  script;
   uint64_t      delivered = 0;   // stream position of the source
   uint64_t      consumed = 0;    // stream position of the reader (model)

protected:
   size_t readData( unsigned char* data, size_t len) override
   {
      ++script.calls;
      ctx.st->probe( P_source_call);
      if (len == 0 || len > N)
      {
         // free space is at least 1 whenever more data is needed and can
         // never exceed the buffer size
         ctx.res.fail( "VIOLATION", "R4-max", "readData() asked for " + std::to_string( len)
            + " bytes with buffer size " + std::to_string( N));
         throw SimBudgetExceeded();
      }
      if (script.calls > script.budget)
      {
         ctx.res.fail( "NONTERMINATION", "R5-progress", "get(" + std::to_string( script.request)
            + ") still reading after " + std::to_string( script.calls) + " source calls");
         throw SimBudgetExceeded();
      }
      static const std::string  dflt = "max";
      const std::string*  kp = &dflt;
      long long           n = 0;
      if (script.decisions && script.next < script.decisions->size())
      {
         const Json&  d = script.decisions->at( script.next++);
         kp = &d.gets( "k");
         n = d.geti( "n", 1);
      }
      const std::string&  kind = *kp;
      size_t  give = len;
      if (kind == "throw")
      {
         ctx.st->fault( F_source_throw);
         ctx.ev( "src-throw", len);
         throw SimIoError();
      }
      if (kind == "zero")
      {
         ctx.st->fault( F_source_idle);
         ctx.ev( "src-zero", len);
         return 0;
      }
      if (kind == "one") give = 1;
      else if (kind == "n") give = 1 + static_cast< size_t>( (n < 1 ? 0 : n - 1)) % len;
      else if (kind == "need")
      {
         const uint64_t  have = delivered - consumed;
         give = (script.request > have) ? static_cast< size_t>( script.request - have) : 1;
         if (give > len) give = len;
         if (give == 0) give = 1;
      }
      if (give == 1) ctx.st->probe( P_delivery_one_byte);
      if (give == len) ctx.st->probe( P_delivery_exactly_max);
      else ctx.st->fault( F_short_delivery);
      for (size_t k = 0; k < give; ++k)
         data[ k] = streamByte( mKey, delivered + k);
      delivered += give;
      ctx.ev( "src-data", len, give);
      return give;
   }

private:
   uint64_t  mKey;
};

template< size_t N, typename P> void runRead( const Json& plan, Ctx& ctx)
{
   const uint64_t     key = static_cast< uint64_t>( plan.geti( "key", 1));
   SimSource< N, P>   rb( ctx, key);
   const Json&        ops = plan.get( "ops");
   bool               refilled = false;

   for (size_t oi = 0; oi < ops.size() && ctx.res.ok(); ++oi)
   {
      const Json&   op = ops.at( oi);
      const std::string&  kind = op.gets( "op");
      const size_t  len = static_cast< size_t>( op.geti( "len", 0));
      const Json&   src = op.get( "src");

      rb.script = SourceScript();
      rb.script.decisions = src.isArr() ? &src : nullptr;
      rb.script.request = len;
      rb.script.budget = (src.isArr() ? src.size() : 0) + len + 2;

      const uint64_t  buffered_before = rb.delivered - rb.consumed;
      const uint64_t  delivered_before = rb.delivered;
      ctx.ev( kind.c_str(), len, buffered_before);
      ctx.st->state( stateKey( 0, N, buffered_before == 0 ? 0 : (buffered_before >= len ? 1 : 2),
         len == 0 ? 0 : (len == 1 ? 1 : (len < N ? 2 : (len == N ? 3 : 4))), 0));

      // the caller's memory is a heap block of exactly len bytes
      std::unique_ptr< unsigned char[]>  dest( new unsigned char[ len ? len : 1]);
      unsigned char*  target = (kind == "getnull") ? nullptr : dest.get();
      bool            threw = false, threw_sim = false;
      std::string     what;
      sim::OpBudget   guard( 4000000);
      if (sigsetjmp( guard.env(), 0) == 0)
      {
         try
         {
            if (len == 0 && kind == "get" && op.geti( "nullzero", 0))
               rb.get( static_cast< unsigned char*>( nullptr), 0);
            else
               rb.get( target, len);
         } catch (const SimIoError&)
         {
            threw = threw_sim = true;
         } catch (const SimBudgetExceeded&)
         {
            break;
         } catch (const std::exception& e)
         {
            threw = true;
            what = e.what();
         } catch (...)
         {
            ctx.res.fail( "VIOLATION", "R6-exception-type", "get() threw something not derived from std::exception");
            break;
         }
      } else
      {
         ctx.res.fail( "NONTERMINATION", "R5-progress", "get(" + std::to_string( len) + ") exceeded the step budget");
         ctx.res.poisoned = true;
         break;
      }
      guard.disarm();

      if (rb.script.calls > 0) refilled = true;
      if (rb.script.calls > 0 && buffered_before > 0) ctx.st->probe( P_refill_with_data_pending);
      if (rb.script.calls == 0 && len > 0 && !threw) ctx.st->probe( P_served_from_buffer);
      if (len == N && !threw) ctx.st->probe( P_request_equals_N);
      if (threw_sim) ctx.st->probe( P_source_exception_mid_get);

      if (len > N)
      {
         ctx.st->probe( P_oversized_get);
         if (!threw)
            ctx.res.fail( "VIOLATION", "R2-oversize", "get(" + std::to_string( len)
               + ") with buffer size " + std::to_string( N) + " was not refused");
         else if (rb.delivered != delivered_before)
            ctx.res.fail( "VIOLATION", "R2-oversize", "refused oversized get() still pulled data from the source");
         ctx.ev( "refused", len);
         continue;
      }
      if (threw && !threw_sim && target != nullptr && len > 0)
      {
         ctx.res.fail( "VIOLATION", "R3-spurious-error", "get(" + std::to_string( len)
            + ") failed without a source error: " + what);
         break;
      }
      if (threw)
      {
         // nothing handed out: the reader position is unchanged, data already
         // pulled from the source must stay available
         ctx.ev( "get-failed", len);
         continue;
      }
      if (len == 0)
      {
         if (rb.delivered != delivered_before)
            ctx.res.fail( "VIOLATION", "R1-stream", "get(0) pulled data from the source");
         continue;
      }
      if (target == nullptr)
      {
         // accepted a null destination without touching memory: can only be a skip
         rb.consumed += len;
         continue;
      }
      // R1: returned bytes are the next len bytes of the stream
      for (size_t k = 0; k < len; ++k)
      {
         const unsigned char  exp = streamByte( key, rb.consumed + k);
         if (dest[ k] != exp)
         {
            std::ostringstream  os;
            os << "op " << oi << " get(" << len << "): byte " << k << " (stream offset "
               << (rb.consumed + k) << ") is " << int( dest[ k]) << ", source has " << int( exp);
            ctx.res.fail( "VIOLATION", "R1-stream", os.str());
            break;
         }
      }
      rb.consumed += len;
      if (rb.consumed > rb.delivered)
         ctx.res.fail( "VIOLATION", "R1-stream", "more bytes returned than the source delivered");
      ctx.ev( "got", len, rb.delivered - rb.consumed);
   }
   ctx.res.nontrivial = refilled;
}

// --------------------------------------------------------------- write side

struct SinkScript
{
   const Json*  decisions = nullptr;
   size_t       next = 0;
   size_t       calls = 0;
   size_t       budget = 0;
};

template< size_t N, typename P> class SimSink final: public celma::common::WriteBuffer< N, P>
{
public:
   explicit SimSink( Ctx& c): ctx( c) {}
   Ctx&                                  ctx;
   mutable SinkScript                    script;
   mutable std::vector< unsigned char>   content;
   mutable const unsigned char*          last_ptr = nullptr;

protected:
   void writeData( const unsigned char* const data, size_t len) const override
   {
      ++script.calls;
      ctx.st->probe( P_sink_call);
      if (script.calls > script.budget)
      {
         ctx.res.fail( "NONTERMINATION", "W5-progress", "operation still writing after "
            + std::to_string( script.calls) + " sink calls");
         throw SimBudgetExceeded();
      }
      static const std::string  dflt = "accept";
      const std::string*  kp = &dflt;
      if (script.decisions && script.next < script.decisions->size())
         kp = &script.decisions->at( script.next++).gets( "k");
      const std::string&  kind = *kp;
      if (kind == "throw")
      {
         ctx.st->fault( F_sink_throw);
         ctx.ev( "sink-throw", len);
         throw SimIoError();
      }
      // reading exactly len bytes from data: an over-long length is an
      // AddressSanitizer report on the internal buffer or the caller's block
      const size_t  old = content.size();
      content.resize( old + len);
      if (len) memcpy( content.data() + old, data, len);
      last_ptr = data;
      ctx.ev( "sink-data", len);
   }
};

template< size_t N, typename P> void runWrite( const Json& plan, Ctx& ctx)
{
   const uint64_t               key = static_cast< uint64_t>( plan.geti( "key", 1));
   SimSink< N, P>               wb( ctx);
   std::vector< unsigned char>  model;    // all bytes of accepted appends
   uint64_t                     produced = 0;
   const Json&                  ops = plan.get( "ops");
   bool                         wrote = false;

   auto checkPrefix = [&]( const char* when) -> bool
   {
      const size_t  b = wb.buffered();
      if (wb.content.size() + b != model.size())
      {
         std::ostringstream  os;
         os << when << ": sink holds " << wb.content.size() << " bytes + " << b
            << " buffered, but " << model.size() << " bytes were appended";
         ctx.res.fail( "VIOLATION", "W1-conservation", os.str());
         return false;
      }
      if (wb.content.size() > model.size()
          || (!wb.content.empty() && memcmp( wb.content.data(), model.data(), wb.content.size()) != 0))
      {
         size_t  k = 0;
         while (k < wb.content.size() && k < model.size() && wb.content[ k] == model[ k]) ++k;
         std::ostringstream  os;
         os << when << ": sink content differs from the appended bytes at offset " << k;
         ctx.res.fail( "VIOLATION", "W1-order", os.str());
         return false;
      }
      return true;
   };

   for (size_t oi = 0; oi <= ops.size() && ctx.res.ok(); ++oi)
   {
      // after the planned operations: one final flush into an accepting sink
      static const Json  final_flush = [] { Json j = Json::object(); j[ "op"] = "flush"; return j; }();
      const Json&   op = (oi < ops.size()) ? ops.at( oi) : final_flush;
      const std::string&  kind = op.gets( "op");
      const size_t  len = static_cast< size_t>( op.geti( "len", 0));
      const Json&   snk = op.get( "sink");

      wb.script = SinkScript();
      wb.script.decisions = snk.isArr() ? &snk : nullptr;
      wb.script.budget = (snk.isArr() ? snk.size() : 0) + 4;

      const size_t  buffered_before = wb.buffered();
      const size_t  sink_before = wb.content.size();
      ctx.ev( kind.c_str(), len, buffered_before);
      ctx.st->state( stateKey( 1, N, buffered_before == 0 ? 0 : (N - buffered_before < len ? 2 : 1),
         len == 0 ? 0 : (len == 1 ? 1 : (len < N ? 2 : (len == N ? 3 : 4))),
         kind == "flush" ? 1 : (kind == "appendnull" ? 2 : 0)));

      std::unique_ptr< unsigned char[]>  block( new unsigned char[ len ? len : 1]);
      for (size_t k = 0; k < len; ++k)
         block[ k] = streamByte( key, produced + k);

      bool           threw = false, threw_sim = false;
      std::string    what;
      sim::OpBudget  guard( 4000000);
      if (sigsetjmp( guard.env(), 0) == 0)
      {
         try
         {
            if (kind == "flush") wb.flush();
            else if (kind == "appendnull") wb.append( static_cast< const unsigned char*>( nullptr), len);
            else wb.append( block.get(), len);
         } catch (const SimIoError&)
         {
            threw = threw_sim = true;
         } catch (const SimBudgetExceeded&)
         {
            break;
         } catch (const std::exception& e)
         {
            threw = true;
            what = e.what();
         } catch (...)
         {
            ctx.res.fail( "VIOLATION", "W6-exception-type", "threw something not derived from std::exception");
            break;
         }
      } else
      {
         ctx.res.fail( "NONTERMINATION", "W5-progress", kind + " exceeded the step budget");
         ctx.res.poisoned = true;
         break;
      }
      guard.disarm();
      if (wb.script.calls > 0) wrote = true;

      if (kind == "flush")
      {
         if (threw && !threw_sim)
         {
            ctx.res.fail( "VIOLATION", "W3-spurious-error", "flush() failed without a sink error: " + what);
            break;
         }
         if (!threw)
         {
            // W2: after a successful flush everything appended is at the sink
            if (wb.buffered() != 0)
               ctx.res.fail( "VIOLATION", "W2-flush", "bytes still buffered after flush()");
            else if (checkPrefix( "after flush") && wb.content.size() != model.size())
               ctx.res.fail( "VIOLATION", "W2-flush", "flush() did not deliver all appended bytes");
            if (buffered_before > 0) ctx.st->probe( P_flush_with_data);
         } else
         {
            ctx.st->probe( P_sink_exception_in_flush);
            checkPrefix( "after failed flush");
         }
         continue;
      }

      if (kind == "appendnull")
      {
         // a null block: refused, or (len == 0) ignored; never bytes from nowhere
         if (!threw && len > 0)
            ctx.res.fail( "VIOLATION", "W4-null", "append( nullptr, " + std::to_string( len) + ") was accepted");
         else
            checkPrefix( "after append(nullptr)");
         continue;
      }

      // append
      if (threw && !threw_sim)
      {
         ctx.res.fail( "VIOLATION", "W3-spurious-error", "append(" + std::to_string( len)
            + ") failed without a sink error: " + what);
         break;
      }
      if (!threw)
      {
         model.insert( model.end(), block.get(), block.get() + len);
         produced += len;
         if (!checkPrefix( "after append")) break;
         if (len > N)
         {
            ctx.st->probe( buffered_before ? P_passthrough_after_buffered : P_passthrough_empty_buffer);
            // oversized blocks are passed through after flushing what was buffered
            if (wb.buffered() != 0 || wb.content.size() != model.size())
               ctx.res.fail( "VIOLATION", "W7-passthrough", "oversized append(" + std::to_string( len)
                  + ") with buffer size " + std::to_string( N) + " did not reach the sink");
         } else if (len > 0)
         {
            if (wb.content.size() == sink_before) ctx.st->probe( P_append_fits);
            else if (len < N) ctx.st->probe( P_flush_then_buffer);
            if (wb.buffered() > N)
               ctx.res.fail( "VIOLATION", "W1-conservation", "more bytes buffered than the buffer can hold");
         }
      } else
      {
         // the failed append contributed nothing, or exactly its own bytes once
         ctx.st->probe( len >= N ? P_sink_exception_in_passthrough : P_sink_exception_in_append);
         const size_t  total = wb.content.size() + wb.buffered();
         if (total == model.size() + len && len > 0)
         {
            model.insert( model.end(), block.get(), block.get() + len);
            produced += len;
         }
         if (!checkPrefix( "after failed append")) break;
      }
   }
   ctx.res.nontrivial = wrote;
}

// ----------------------------------------------------------- instantiation
// The 44 instantiations are spread over four translation units (compiled from
// this same file with -DC19_PART=1..4) so that a header change rebuilds in
// parallel; part 0 holds the generator and main().

template< size_t N> void dispatchRead( const Json& plan, Ctx& ctx)
{
   if (plan.gets( "policy") == "count") runRead< N, celma::common::ReadCountPolicy>( plan, ctx);
   else runRead< N, celma::common::EmptyReadPolicy>( plan, ctx);
}

template< size_t N> void dispatchWrite( const Json& plan, Ctx& ctx)
{
   if (plan.gets( "policy") == "count") runWrite< N, celma::common::WriteCountPolicy>( plan, ctx);
   else runWrite< N, celma::common::EmptyWritePolicy>( plan, ctx);
}

bool runPart1( long long n, const Json& plan, Ctx& ctx);
bool runPart2( long long n, const Json& plan, Ctx& ctx);
bool runPart3( long long n, const Json& plan, Ctx& ctx);
bool runPart4( long long n, const Json& plan, Ctx& ctx);

#if C19_PART == 1
bool runPart1( long long n, const Json& plan, Ctx& ctx)
{
   switch (n)
   {
   case 1: dispatchRead< 1>( plan, ctx); return true;
   case 2: dispatchRead< 2>( plan, ctx); return true;
   case 3: dispatchRead< 3>( plan, ctx); return true;
   case 4: dispatchRead< 4>( plan, ctx); return true;
   case 5: dispatchRead< 5>( plan, ctx); return true;
   case 7: dispatchRead< 7>( plan, ctx); return true;
   default: return false;
   }
}
#elif C19_PART == 2
bool runPart2( long long n, const Json& plan, Ctx& ctx)
{
   switch (n)
   {
   case 8: dispatchRead< 8>( plan, ctx); return true;
   case 16: dispatchRead< 16>( plan, ctx); return true;
   case 31: dispatchRead< 31>( plan, ctx); return true;
   case 64: dispatchRead< 64>( plan, ctx); return true;
   case 256: dispatchRead< 256>( plan, ctx); return true;
   default: return false;
   }
}
#elif C19_PART == 3
bool runPart3( long long n, const Json& plan, Ctx& ctx)
{
   switch (n)
   {
   case 1: dispatchWrite< 1>( plan, ctx); return true;
   case 2: dispatchWrite< 2>( plan, ctx); return true;
   case 3: dispatchWrite< 3>( plan, ctx); return true;
   case 4: dispatchWrite< 4>( plan, ctx); return true;
   case 5: dispatchWrite< 5>( plan, ctx); return true;
   case 7: dispatchWrite< 7>( plan, ctx); return true;
   default: return false;
   }
}
#elif C19_PART == 4
bool runPart4( long long n, const Json& plan, Ctx& ctx)
{
   switch (n)
   {
   case 8: dispatchWrite< 8>( plan, ctx); return true;
   case 16: dispatchWrite< 16>( plan, ctx); return true;
   case 31: dispatchWrite< 31>( plan, ctx); return true;
   case 64: dispatchWrite< 64>( plan, ctx); return true;
   case 256: dispatchWrite< 256>( plan, ctx); return true;
   default: return false;
   }
}
#else

class C19 final: public sim::Harness
{
public:
   const char* property() const override { return "C19"; }

   std::vector< std::string> faultKinds() const override
   {
      return std::vector< std::string>( std::begin( kFaultNames), std::end( kFaultNames));
   }
   std::vector< std::string> probeNames() const override
   {
      return std::vector< std::string>( std::begin( kProbeNames), std::end( kProbeNames));
   }
   std::string stateName( uint64_t key) const override
   {
      static const char* const  bufr[] = { "empty", "enough", "part" };
      static const char* const  bufw[] = { "empty", "fits", "nofit" };
      static const char* const  req[] = { "0", "1", "<N", "N", ">N" };
      static const char* const  kindw[] = { "append", "flush", "appendnull" };
      const unsigned  side = (key >> 12) & 0xf, buf = (key >> 8) & 0xf, rq = (key >> 4) & 0xf, kd = key & 0xf;
      std::ostringstream  os;
      os << (side ? "write" : "read") << " N=" << (key >> 16) << " buffered=" << (side ? bufw[ buf] : bufr[ buf])
         << " len=" << req[ rq];
      if (side) os << " " << kindw[ kd];
      return os.str();
   }

   Json gen( uint64_t seed, const std::string& tier) override
   {
      Rng   cfg( seed, "config"), wl( seed, "workload"), fl( seed, "faults"), ch( seed, "chunking");
      Json  plan = Json::object();
      plan[ "prop"] = "C19";
      const bool    read = cfg.chance( 1, 2);
      const size_t  n = kSizes[ cfg.below( sizeof( kSizes) / sizeof( kSizes[ 0]))];
      plan[ "side"] = read ? "read" : "write";
      plan[ "N"] = n;
      plan[ "policy"] = cfg.chance( 1, 2) ? "count" : "empty";
      plan[ "key"] = static_cast< long long>( cfg.next() >> 2);
      const size_t  max_ops = (tier == "thorough") ? 200 : 60;
      const size_t  nops = 1 + static_cast< size_t>( wl.below( wl.chance( 1, 2) ? 8 : max_ops));
      // swarm: per run fault rates and chunking style
      const unsigned  throw_pct = fl.chance( 1, 2) ? 0 : static_cast< unsigned>( fl.range( 1, 20));
      const unsigned  zero_pct = fl.chance( 1, 2) ? 0 : static_cast< unsigned>( fl.range( 1, 30));
      const unsigned  style = static_cast< unsigned>( ch.below( 5));  // 0 max, 1 one, 2 need, 3 n, 4 mixed
      Json  ops = Json::array();
      for (size_t k = 0; k < nops; ++k)
      {
         Json  op = Json::object();
         if (read)
         {
            size_t  len;
            switch (wl.below( 8))
            {
            case 0: len = 0; break;
            case 1: len = 1; break;
            case 2: len = n; break;
            case 3: len = n > 1 ? n - 1 : 1; break;
            case 4: len = n + 1 + wl.below( 3); break;
            default: len = static_cast< size_t>( wl.below( n + 1)); break;
            }
            op[ "op"] = wl.chance( 1, 25) ? "getnull" : "get";
            op[ "len"] = len;
            if (len == 0 && wl.chance( 1, 2)) op[ "nullzero"] = 1;
            Json    src = Json::array();
            size_t  nd = static_cast< size_t>( ch.below( 6));
            for (size_t d = 0; d < nd; ++d)
            {
               Json  dj = Json::object();
               if (fl.below( 100) < throw_pct) dj[ "k"] = "throw";
               else if (fl.below( 100) < zero_pct) dj[ "k"] = "zero";
               else
               {
                  unsigned  s = (style == 4) ? static_cast< unsigned>( ch.below( 4)) : style;
                  if (s == 0) dj[ "k"] = "max";
                  else if (s == 1) dj[ "k"] = "one";
                  else if (s == 2) dj[ "k"] = "need";
                  else { dj[ "k"] = "n"; dj[ "n"] = static_cast< long long>( 1 + ch.below( n)); }
               }
               src.push( dj);
            }
            // after the scripted deliveries the source falls back to full
            // deliveries; in "one byte" runs keep dripping instead
            if (style == 1)
               for (size_t d = 0; d < len; ++d) { Json dj = Json::object(); dj[ "k"] = "one"; src.push( dj); }
            op[ "src"] = src;
         } else
         {
            unsigned  w = static_cast< unsigned>( wl.below( 10));
            if (w == 0)
               op[ "op"] = "flush";
            else
            {
               size_t  len;
               switch (wl.below( 8))
               {
               case 0: len = 0; break;
               case 1: len = 1; break;
               case 2: len = n; break;
               case 3: len = n > 1 ? n - 1 : 1; break;
               case 4: len = n + 1 + wl.below( n + 3); break;
               default: len = static_cast< size_t>( wl.below( n + 1)); break;
               }
               op[ "op"] = wl.chance( 1, 25) ? "appendnull" : "append";
               op[ "len"] = len;
            }
            Json  snk = Json::array();
            for (size_t d = 0; d < 2; ++d)
            {
               Json  dj = Json::object();
               dj[ "k"] = (fl.below( 100) < throw_pct) ? "throw" : "accept";
               snk.push( dj);
            }
            op[ "sink"] = snk;
         }
         ops.push( op);
      }
      plan[ "ops"] = ops;
      return plan;
   }

   Result run( const Json& plan, Stats& st, std::string* trace) override
   {
      Ctx  ctx;
      ctx.st = &st;
      ctx.trace = trace;
      const long long  n = plan.geti( "N", 8);
      ctx.ev( plan.gets( "side").c_str(), static_cast< uint64_t>( n), plan.gets( "policy") == "count");
      bool  known;
      if (plan.gets( "side") == "read")
         known = runPart1( n, plan, ctx) || runPart2( n, plan, ctx);
      else
         known = runPart3( n, plan, ctx) || runPart4( n, plan, ctx);
      if (!known)
         ctx.res.fail( "BADPLAN", "plan", "buffer size not in the compiled menu");
      ctx.res.hash = ctx.th.value();
      return ctx.res;
   }
};

#endif   // C19_PART

} // namespace c19

#if C19_PART == 0
sim::Harness& sim::harness()
{
   static c19::C19  h;
   return h;
}

int main( int argc, char* argv[])
{
   return sim::harnessMain( argc, argv);
}
#endif
