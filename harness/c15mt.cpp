// C15, concurrent part - several threads write through one
// files::Handler< P, std::mutex> log destination (the lock policy the class
// documents for that use), with re-openings between the rounds.
// Real code: files::Handler, Counted / MaxSize / PolicyBase, filename builder,
// FileOperations, libstdc++ file streams, std::mutex / std::thread.
// Replaced: the OS thread scheduler (baton scheduler, sim/sched.cpp) and the
// kernel file system (sim/simfs.cpp). ThreadSanitizer runs inside every run.
//
// Oracle, over the generation files read oldest to newest after every round:
//   every line is exactly one issued message (no truncation, no merge), no
//   message twice, the order in the files is a linearisation of the calls
//   (a message whose call returned before another call began comes first),
//   a message is missing only if generations were dropped and then only if it
//   is not newer than a retained one, limits and retention as in the
//   sequential part.

#include <atomic>
#include <cstring>
#include <map>
#include <memory>
#include <mutex>
#include <sstream>
#include <thread>
#include <vector>

#include "celma/log/detail/i_format_stream.hpp"
#include "celma/log/detail/log_msg.hpp"
#include "celma/log/filename/creator.hpp"
#include "celma/log/filename/definition.hpp"
#include "celma/log/files/counted.hpp"
#include "celma/log/files/handler.hpp"
#include "celma/log/files/max_size.hpp"
#include "celma/log/formatting/creator.hpp"
#include "celma/log/formatting/format.hpp"

#include "../sim/harness.hpp"
#include "../sim/sched.hpp"
#include "../sim/sched_json.hpp"
#include "../sim/simfs.hpp"
#include "../sim/symbolize.hpp"

using sim::Json;
using sim::Result;
using sim::Rng;
using sim::Stats;
namespace fs = sim::fs;

namespace {

enum FaultId { F_preemption, F_child_first, F_parent_first, F_lock_contention, F_clean_restart, F_crash };
const char* const kFaultNames[] = { "mt_preemption", "mt_child_runs_first_at_create", "mt_parent_runs_first_at_create",
                                    "mt_mutex_contention", "mt_clean_restart_between_rounds",
                                    "mt_crash_while_threads_write" };
enum ProbeId { P_run, P_counted, P_max_size, P_rollover_with_threads, P_generations_dropped, P_two_calls_overlapped,
               P_file_order_differs_from_call_order, P_waited_for_handler_lock, P_restart_on_full, P_restart_on_partly_filled,
               P_three_or_more_writers, P_crash_planned_but_not_reached, P_calls_in_flight_at_crash,
               P_recovery_round_after_crash, P_with_dates };
const char* const kProbeNames[] = { "mt_run", "mt_counted", "mt_max_size", "mt_rollover_while_threads_write",
               "mt_generations_dropped", "mt_two_message_calls_overlapped", "mt_file_order_differs_from_call_order",
               "mt_waited_for_handler_lock", "mt_restart_on_full_generation0", "mt_restart_on_partly_filled_generation0",
               "mt_three_or_more_writer_threads", "mt_crash_planned_but_not_reached",
               "mt_message_calls_in_flight_at_crash", "mt_recovery_round_after_crash",
               "mt_date_in_file_name_and_in_every_line" };

class PlainFormat final: public celma::log::detail::IFormatStream
{
private:
   void format( std::ostream& out, const celma::log::detail::LogMsg& msg) const override
   {
      out << msg.getText();
   }
};

struct Rec
{
   std::string  text;
   int          round = 0, tid = 0;
   uint64_t     inv = 0, ret = 0;
   bool         returned = false;
   bool         threw = false;
   /// the call returned while the disk was still alive: the message is durable
   bool         acked = false;
};

std::atomic< uint64_t>  g_event{ 0 };

/// relaxed: the harness must not order the threads
uint64_t nextEvent() { return g_event.fetch_add( 1, std::memory_order_relaxed) + 1; }

void writer( celma::log::detail::ILogDest* dest, std::vector< Rec>* recs, size_t first, size_t count, std::atomic< int>* go)
{
   if (go != nullptr)
      while (go->load() == 0)
         sim::schedYield();
   for (size_t k = first; k < first + count; ++k)
   {
      Rec&  r = (*recs)[ k];
      celma::log::detail::LogMsg  lm( "c15mt.cpp", "writer", static_cast< int>( k));
      lm.setText( r.text);
      // (a recorded event: its own time stamp, formatted in front of the lock)
      if ((k % 2) == 1) lm.setTimestamp( 946123200 + static_cast< time_t>( k));
      r.inv = nextEvent();
      try
      {
         dest->handleMessage( lm);
      } catch (...)
      {
         r.threw = true;
      }
      r.acked = !fs::frozen();
      r.ret = nextEvent();
      r.returned = true;
   }
}

/// Every process starts from the same warm state (function-local statics of
/// the library, lazily filled libstdc++ tables): one fixed pass without the
/// scheduler, in a batch as well as in a replay.
void warmUp()
{
   static bool  done = false;
   if (done) return;
   done = true;
   namespace lf = celma::log::files;
   namespace fn = celma::log::filename;
   for (int pass = 0; pass < 3; ++pass)
   {
      fs::reset();
      fs::mkdirs( "/simfs/logs");
      fs::clockSet( 1700000000);
      fs::pidSet( 4242);
      std::vector< Rec>  recs( 6);
      for (size_t k = 0; k < recs.size(); ++k)
         recs[ k].text = "warm-up message " + std::to_string( k);
      for (int round = 0; round < 2; ++round)
      {
         fn::Definition  def;
         fn::Creator     c( def);
         if (pass == 2)
            c << std::string( "/simfs/logs/mt-") << fn::date << std::string( ".") << fn::number;
         else
            c << std::string( "/simfs/logs/mt.") << fn::number;
         std::unique_ptr< celma::log::detail::ILogDest>  dest;
         if (pass != 1)
            dest.reset( new lf::Handler< lf::Counted, std::mutex>( new lf::Counted( def, 2, 2)));
         else
            dest.reset( new lf::Handler< lf::MaxSize, std::mutex>( new lf::MaxSize( def, 40, 2)));
         if (pass == 2)
         {
            namespace lfo = celma::log::formatting;
            lfo::Definition  fmt_def;
            lfo::Creator     fmt_creator( fmt_def);
            fmt_creator << lfo::date_time << "|" << lfo::text;
            dest->setFormatter( new lfo::Format( fmt_def));
         } else
            dest->setFormatter( new PlainFormat());
         std::thread  t1( writer, dest.get(), &recs, size_t( 0), size_t( 3), nullptr);
         std::thread  t2( writer, dest.get(), &recs, size_t( 3), size_t( 3), nullptr);
         t1.join();
         t2.join();
      }
      std::string  content;
      fs::getFile( "/simfs/logs/mt.0", content);
      (void) fs::listFiles( "/simfs/logs");
   }
   fs::closeLeaked();
   fs::reset();
}

Result*  g_result = nullptr;

void onFatal( const char* kind, const char* detail)
{
   Result  r;
   if (g_result != nullptr) r = *g_result;
   r.outcome = "OK";
   r.fail( kind, strcmp( kind, "DEADLOCK") == 0 ? "S5-deadlock" : "S5-progress", detail);
   sim::SchedStats  st;
   sim::schedEnd( &st);
   r.sim_time = st.points;
   r.hash = st.switch_hash;
   r.extra = Json::object();
   r.extra[ "explicit_schedule"] = sim::explicitSchedule();
   sim::abandonRun( r);
}

class C15mt final: public sim::Harness
{
public:
   const char* property() const override { return "C15"; }
   std::vector< std::string> faultKinds() const override
   {
      return std::vector< std::string>( std::begin( kFaultNames), std::end( kFaultNames));
   }
   std::vector< std::string> probeNames() const override
   {
      return std::vector< std::string>( std::begin( kProbeNames), std::end( kProbeNames));
   }
   std::string stateName( uint64_t key) const override
   {
      std::ostringstream  os;
      os << "mt " << ((key >> 24) & 1 ? "MaxSize" : "Counted") << " threads=" << ((key >> 16) & 0xff)
         << " generations_on_disk=" << ((key >> 8) & 0xff) << " dropped=" << (key & 1);
      return os.str();
   }

   Json gen( uint64_t seed, const std::string& tier) override
   {
      Rng   cfg( seed, "config"), sc( seed, "schedule");
      Json  plan = Json::object();
      plan[ "prop"] = "C15";
      plan[ "part"] = "threads";
      const bool  thorough = (tier == "thorough");
      const bool  counted = cfg.chance( 1, 2);
      plan[ "policy"] = counted ? "counted" : "max_size";
      plan[ "limit"] = counted ? cfg.range( 1, 4) : cfg.range( 20, 60);
      plan[ "max_gen"] = cfg.range( 1, 4);
      const long long  threads = cfg.chance( 1, 2) ? 2 : cfg.range( 2, thorough ? 5 : 4);
      plan[ "threads"] = threads;
      plan[ "barrier"] = cfg.chance( 1, 2);
      plan[ "pad_seed"] = cfg.range( 0, 1000);
      if (counted && cfg.chance( 1, 3)) plan[ "with_dates"] = true;
      Json  rounds = Json::array();
      const long long  nrounds = cfg.range( 1, 3);
      for (long long r = 0; r < nrounds; ++r)
      {
         Json  counts = Json::array();
         for (long long t = 0; t < threads; ++t)
            counts.push( cfg.range( 1, thorough ? 5 : 3));
         rounds.push( counts);
      }
      plan[ "rounds"] = rounds;
      if (cfg.chance( 1, 3))
      {
         // the process is killed at the n-th write call of one round; the
         // following rounds (always at least one) are the new process
         Json  crash = Json::object();
         crash[ "round"] = cfg.range( 0, nrounds - 1);
         crash[ "write"] = cfg.range( 0, 2 * threads);
         plan[ "crash"] = crash;
         if (crash.geti( "round") == nrounds - 1)
         {
            Json  counts = Json::array();
            for (long long t = 0; t < threads; ++t)
               counts.push( cfg.range( 1, 2));
            plan[ "rounds"].push( counts);
         }
      }
      plan[ "sched"] = sim::genSchedule( sc, 3000 * static_cast< uint64_t>( threads));
      return plan;
   }

   Result run( const Json& plan, Stats& st, std::string* trace) override
   {
      Result               res;
      warmUp();
      sim::ScheduleHolder  sh;
      sim::scheduleFromJson( plan.get( "sched"), sh, 6000000);
      g_result = &res;
      sim::schedSetFatal( &onFatal);
      sim::raceReset();
      sim::TraceHash  th;
      st.probe( P_run);

      // ---- everything is read from the plan before the simulated region starts
      const bool       counted = plan.gets( "policy") != "max_size";
      long long        limit = plan.geti( "limit", 3);
      if (counted) limit = std::max< long long>( 1, std::min< long long>( 8, limit));
      else limit = std::max< long long>( 20, std::min< long long>( 200, limit));
      const int        max_gen = static_cast< int>( std::max< long long>( 1, std::min< long long>( 6, plan.geti( "max_gen", 2))));
      const long long  threads = std::max< long long>( 1, std::min< long long>( 8, plan.geti( "threads", 2)));
      const bool       barrier = plan.geti( "barrier", 0) != 0;
      // date in the file name and a formatter with a date/time field: both format
      // a time, one under the handler's lock, one in front of it (Counted only:
      // the field does not fit the byte limits of this harness)
      const bool       with_dates = plan.geti( "with_dates", 0) != 0 && counted;
      const bool       default_formatter = with_dates;   // lines are "<date time>|<text>"
      const uint64_t   pad_seed = static_cast< uint64_t>( plan.geti( "pad_seed", 0));
      st.probe( counted ? P_counted : P_max_size);
      if (threads >= 3) st.probe( P_three_or_more_writers);
      if (with_dates) st.probe( P_with_dates);
      std::vector< std::vector< size_t>>  counts;
      if (plan.get( "rounds").isArr())
         for (auto const& rj : plan.get( "rounds").arr())
         {
            std::vector< size_t>  c( static_cast< size_t>( threads), 0);
            if (rj.isArr())
               for (size_t t = 0; t < c.size() && t < rj.size(); ++t)
                  c[ t] = static_cast< size_t>( std::max< long long>( 0, std::min< long long>( 8, rj.at( t).isInt() ? rj.at( t).i() : 0)));
            counts.push_back( c);
            if (counts.size() == 4) break;
         }
      if (counts.empty()) counts.push_back( std::vector< size_t>( static_cast< size_t>( threads), 1));
      const bool       crash_planned = plan.get( "crash").isObj();
      const long long  crash_round = crash_planned ? plan.get( "crash").geti( "round", 0) : -1;
      const long long  crash_write = crash_planned ? std::max< long long>( 0, plan.get( "crash").geti( "write", 0)) : 0;

      // all messages of the run, texts unique and shorter than any byte limit
      std::vector< Rec>                  recs;
      std::vector< std::vector< size_t>>  first_of;   // [round][thread] -> index of its first record
      for (size_t r = 0; r < counts.size(); ++r)
      {
         first_of.emplace_back();
         for (size_t t = 0; t < counts[ r].size(); ++t)
         {
            first_of.back().push_back( recs.size());
            for (size_t m = 0; m < counts[ r][ t]; ++m)
            {
               Rec  rec;
               rec.round = static_cast< int>( r);
               rec.tid = static_cast< int>( t);
               rec.text = "r" + std::to_string( r) + "t" + std::to_string( t) + "m" + std::to_string( m);
               uint64_t  x = pad_seed * 1315423911ULL + recs.size();
               rec.text += std::string( sim::splitmix64( x) % 6, static_cast< char>( 'a' + t));
               recs.push_back( rec);
            }
         }
      }

      fs::reset();
      fs::mkdirs( "/simfs/logs");
      fs::clockSet( 1700000000);
      fs::pidSet( 4242);
      g_event.store( 0);
      mCounted = counted;
      mLimit = static_cast< size_t>( limit);
      mMaxGen = max_gen;
      mDefaultFormatter = default_formatter;
      mCrashed = false;
      mWithDates = with_dates;
      mLongestInFlight = 0;
      bool  dropped = false;
      size_t  gens_on_disk = 0;

      sim::schedBegin( sh.cfg);
      for (size_t r = 0; r < counts.size() && res.ok(); ++r)
      {
         namespace lf = celma::log::files;
         namespace fn = celma::log::filename;
         // state of generation 0 the new handler will find
         if (r > 0)
         {
            st.fault( F_clean_restart);
            std::string  g0;
            fs::getFile( fileName( 0), g0);
            const bool  full = counted ? lineCount( g0) >= mLimit : g0.size() >= mLimit;
            st.probe( full ? P_restart_on_full : P_restart_on_partly_filled);
         }
         std::unique_ptr< celma::log::detail::ILogDest>  dest;
         try
         {
            fn::Definition  def;
            fn::Creator     c( def);
            if (with_dates)
               c << std::string( "/simfs/logs/mt-") << fn::date << std::string( ".") << fn::number;
            else
               c << std::string( "/simfs/logs/mt.") << fn::number;
            if (counted)
               dest.reset( new lf::Handler< lf::Counted, std::mutex>( new lf::Counted( def, mLimit, max_gen)));
            else
               dest.reset( new lf::Handler< lf::MaxSize, std::mutex>( new lf::MaxSize( def, mLimit, max_gen)));
            if (with_dates)
            {
               namespace lfo = celma::log::formatting;
               lfo::Definition  fmt_def;
               lfo::Creator     fmt_creator( fmt_def);
               fmt_creator << lfo::date_time << "|" << lfo::text;
               dest->setFormatter( new lfo::Format( fmt_def));
            } else
               dest->setFormatter( new PlainFormat());
         } catch (const std::exception& e)
         {
            res.fail( "VIOLATION", "I0-open", std::string( "round ") + std::to_string( r) + ": the log destination could not be created: " + e.what());
            break;
         }
         const bool  crash_here = (static_cast< long long>( r) == crash_round);
         if (crash_here)
         {
            fs::Fault  f;
            f.kind = "crash";
            f.at = "write";
            f.n = crash_write;
            f.bytes = 0;   // nothing of that call reaches the disk: complete lines only
            fs::opBegin( { f });
         }
         if (mCrashed && static_cast< long long>( r) == crash_round + 1) st.probe( P_recovery_round_after_crash);
         std::vector< std::thread>  ths;
         std::atomic< int>          go{ 0 };
         for (size_t t = 0; t < counts[ r].size(); ++t)
            ths.emplace_back( writer, dest.get(), &recs, first_of[ r][ t], counts[ r][ t], barrier ? &go : nullptr);
         go.store( 1);
         for (auto & t : ths)
            t.join();
         if (crash_here)
         {
            const fs::OpReport  rep = fs::opEnd();
            if (rep.crashed)
            {
               mCrashed = true;
               for (auto const& rec : recs)
                  if (rec.round == static_cast< int>( r) && !rec.acked)
                     mLongestInFlight = std::max( mLongestInFlight, rec.text.size());
               st.fault( F_crash);
               for (auto const& rec : recs)
                  if (rec.round == static_cast< int>( r) && rec.returned && !rec.acked) { st.probe( P_calls_in_flight_at_crash); break; }
            } else
               st.probe( P_crash_planned_but_not_reached);
         }
         // (after a crash the dead process' objects cannot touch the frozen disk)
         dest.reset();
         if (fs::frozen())
         {
            fs::thaw();
            fs::closeLeaked();
            fs::pidSet( 4243 + static_cast< int>( r));
         }
         checkFiles( recs, r, res, st, th, trace, dropped, gens_on_disk);
      }
      sim::SchedStats  ss;
      sim::schedEnd( &ss);
      g_result = nullptr;
      fs::closeLeaked();

      st.fault( F_preemption, ss.preemptions);
      st.fault( F_child_first, ss.child_first);
      st.fault( F_parent_first, ss.parent_first);
      st.fault( F_lock_contention, ss.blocked_lock);
      if (ss.blocked_lock) st.probe( P_waited_for_handler_lock);
      st.state( (static_cast< uint64_t>( counted ? 0 : 1) << 24) | (static_cast< uint64_t>( threads) << 16)
                | (static_cast< uint64_t>( gens_on_disk) << 8) | (dropped ? 1 : 0));
      st.misc[ "mt_schedule_points"] += ss.points;
      st.misc[ "mt_context_switches"] += ss.switches;
      st.misc[ "mt_messages"] += recs.size();

      const sim::RaceInfo&  ri = sim::raceInfo();
      if (ri.count > 0)
      {
         std::ostringstream  os;
         os << ri.description << ":";
         for (int k = 0; k < ri.accesses; ++k)
         {
            auto const&  a = ri.access[ k];
            os << (k ? " vs " : " ") << (a.atomic ? "atomic " : "") << (a.write ? "write" : "read") << "(" << a.size << ") in "
               << sim::symbolizeAccess( a.pc, 4);
         }
         res.fail( "RACE", "data-race", os.str());
      }

      th.add( ss.switch_hash);
      th.add( fs::eventHash());
      res.hash = th.value();
      res.sim_time = 0;   // the unit of this property is simulated seconds; scheduler steps are in misc
      res.nontrivial = (ss.preemptions + ss.blocked_lock) > 0;
      if (!res.ok() || trace != nullptr)
      {
         res.extra = Json::object();
         res.extra[ "explicit_schedule"] = sim::explicitSchedule();
      }
      if (trace != nullptr)
      {
         std::ostringstream  os;
         os << "points=" << ss.points << " switches=" << ss.switches << " preemptions=" << ss.preemptions
            << " lock_waits=" << ss.blocked_lock << " races=" << ri.count << "\n";
         *trace += os.str();
      }
      return res;
   }

private:
   bool    mCounted = true;
   size_t  mLimit = 3;
   int     mMaxGen = 2;
   bool    mDefaultFormatter = false;
   bool    mCrashed = false;
   bool    mWithDates = false;
   size_t  mLongestInFlight = 0;

   std::string fileName( int gen) const
   {
      // (the simulated clock stands at 2023-11-14 for the whole run)
      return std::string( mWithDates ? "/simfs/logs/mt-2023-11-14." : "/simfs/logs/mt.") + std::to_string( gen);
   }

   static size_t lineCount( const std::string& s)
   {
      size_t  n = 0;
      for (char c : s) if (c == '\n') ++n;
      return n;
   }

   static std::string show( const std::map< int, std::string>& f)
   {
      std::ostringstream  os;
      for (auto const& kv : f)
      {
         os << " [" << kv.first << "]=";
         for (char c : kv.second) { if (c == '\n') os << '|'; else os << c; }
      }
      return os.str();
   }

   /// with the default formatter a line is "<fields>|<text>": the text is the
   /// part behind the last '|'
   std::string lineText( const std::string& line) const
   {
      if (!mDefaultFormatter) return line;
      const size_t  p = line.rfind( '|');
      return p == std::string::npos ? line : line.substr( p + 1);
   }

   void checkFiles( const std::vector< Rec>& recs, size_t round, Result& res, Stats& st, sim::TraceHash& th,
                    std::string* trace, bool& dropped, size_t& gens_on_disk)
   {
      const std::string  when = "after round " + std::to_string( round);
      std::map< int, std::string>  files;
      for (int g = 0; g < mMaxGen + 4; ++g)
      {
         std::string  content;
         if (fs::getFile( fileName( g), content)) files[ g] = content;
      }
      if (trace != nullptr) *trace += when + ":" + show( files) + "\n";
      gens_on_disk = std::max( gens_on_disk, files.size());
      th.add( static_cast< uint64_t>( files.size()));
      // strays: anything else in the directory
      for (auto const& path : fs::listFiles( "/simfs/logs"))
      {
         bool  known = false;
         for (auto const& kv : files) if (fileName( kv.first) == path) known = true;
         if (!known)
         {
            res.fail( "VIOLATION", "I4-retention", when + ": unexpected file " + path);
            return;
         }
      }
      int  expect = 0;
      for (auto const& kv : files)
      {
         if (kv.first >= mMaxGen)
         {
            res.fail( "VIOLATION", "I4-retention", when + ": generation file " + std::to_string( kv.first) + " exists although only "
               + std::to_string( mMaxGen) + " generations are kept;" + show( files));
            return;
         }
         if (kv.first != expect++)
         {
            res.fail( "VIOLATION", "I4-retention", when + ": the generation numbers on disk have a hole;" + show( files));
            return;
         }
      }
      if (files.size() >= 2) st.probe( P_rollover_with_threads);

      // ---- lines, oldest generation first
      std::map< std::string, size_t>  by_text;
      size_t  issued = 0;
      for (size_t k = 0; k < recs.size(); ++k)
         if (recs[ k].returned)
         {
            by_text[ recs[ k].text] = k;
            ++issued;
            if (recs[ k].threw && recs[ k].acked)
            {
               res.fail( "VIOLATION", "I0-write", when + ": writing message '" + recs[ k].text + "' threw although no fault was injected");
               return;
            }
         }
      std::vector< size_t>  order;            // record indices in file order
      std::vector< bool>    present( recs.size(), false);
      std::vector< size_t>  first_len;        // per generation: length of its first line incl. line end (0 = empty)
      for (auto it = files.rbegin(); it != files.rend(); ++it)
      {
         const std::string&  content = it->second;
         if (!content.empty() && content.back() != '\n')
         {
            res.fail( "VIOLATION", "I1-truncation", when + ": generation " + std::to_string( it->first) + " does not end with a line end;" + show( files));
            return;
         }
         size_t  pos = 0;
         while (pos < content.size())
         {
            const size_t       e = content.find( '\n', pos);
            const std::string  text = lineText( content.substr( pos, e - pos));
            pos = e + 1;
            auto  f = by_text.find( text);
            if (f == by_text.end())
            {
               res.fail( "VIOLATION", "I1-truncation", when + ": generation " + std::to_string( it->first) + " contains the line '"
                  + text + "' which is not one of the messages written (truncated, merged or foreign text);" + show( files));
               return;
            }
            if (present[ f->second])
            {
               res.fail( "VIOLATION", "I1-duplication", when + ": message '" + text + "' is in the log files twice;" + show( files));
               return;
            }
            present[ f->second] = true;
            order.push_back( f->second);
         }
      }
      // ---- order: a linearisation of the calls
      bool  overlapped = false, differs = false;
      for (size_t a = 0; a < order.size(); ++a)
         for (size_t b = a + 1; b < order.size(); ++b)
         {
            const Rec&  ra = recs[ order[ a]];
            const Rec&  rb = recs[ order[ b]];
            if (rb.ret < ra.inv)
            {
               res.fail( "VIOLATION", "I1-order", when + ": message '" + ra.text + "' comes before '" + rb.text
                  + "' in the log files although the call for the second had returned before the call for the first began;" + show( files));
               return;
            }
            if (rb.inv < ra.ret) overlapped = true;
            if (rb.inv < ra.inv) differs = true;
         }
      if (overlapped) st.probe( P_two_calls_overlapped);
      if (differs) st.probe( P_file_order_differs_from_call_order);
      // ---- loss
      size_t  lost = 0;
      for (size_t k = 0; k < recs.size(); ++k)
      {
         if (!recs[ k].returned || present[ k]) continue;
         // a call that had not returned when the process was killed promises nothing
         if (!recs[ k].acked) continue;
         ++lost;
         if (static_cast< int>( files.size()) < mMaxGen)
         {
            res.fail( "VIOLATION", "I1-loss", when + ": acknowledged message '" + recs[ k].text + "' is not in the log files although no generation has been dropped yet;" + show( files));
            return;
         }
         for (size_t x : order)
            if (recs[ x].ret < recs[ k].inv)
            {
               res.fail( "VIOLATION", "I1-loss", when + ": acknowledged message '" + recs[ k].text + "' is not in the log files but the older message '"
                  + recs[ x].text + "' (its call had returned before) is;" + show( files));
               return;
            }
      }
      if (lost) { dropped = true; st.probe( P_generations_dropped); }
      th.add( static_cast< uint64_t>( lost));
      (void) issued;
      // ---- limits and premature roll-over
      const size_t  overhead = 0;
      for (auto const& kv : files)
      {
         const size_t  lines = lineCount( kv.second);
         if (mCounted && lines > mLimit)
         {
            res.fail( "VIOLATION", "I2-limit", when + ": generation " + std::to_string( kv.first) + " holds " + std::to_string( lines)
               + " entries, limit " + std::to_string( mLimit) + ";" + show( files));
            return;
         }
         if (!mCounted && !mDefaultFormatter && kv.second.size() > mLimit + overhead)
         {
            res.fail( "VIOLATION", "I2-limit", when + ": generation " + std::to_string( kv.first) + " holds " + std::to_string( kv.second.size())
               + " bytes, limit " + std::to_string( mLimit) + ";" + show( files));
            return;
         }
         if (kv.first == 0) continue;
         // an older generation: it was left only because the next message would not fit
         auto         newer = files.find( kv.first - 1);
         size_t       next_len = 0;
         if (newer != files.end() && !newer->second.empty())
            next_len = newer->second.find( '\n');
         // the process was killed: the message for which the generation was
         // left may be one whose call never completed (its write did not land)
         next_len = std::max( next_len, mLongestInFlight);
         const bool  full = mCounted ? (lines >= mLimit) : (mDefaultFormatter || kv.second.size() + next_len + 1 >= mLimit);
         if (!full)
         {
            res.fail( "VIOLATION", "I3-premature-generation", when + ": generation " + std::to_string( kv.first)
               + " was left although the next message would have fitted;" + show( files));
            return;
         }
      }
   }
};

} // namespace

sim::Harness& sim::harness()
{
   static C15mt  h;
   return h;
}

int main( int argc, char* argv[])
{
   return sim::harnessMain( argc, argv);
}
