// C15 - rolling log files keep the most recent messages, complete and in order.
// Real code: log::files::Counted / MaxSize on PolicyBase (real std::ofstream),
// filename::Creator/Builder, common::FileOperations/FileFuncsOs.
// Simulated: file system, clock, pid, process crash (sim/simfs.cpp).

#include <algorithm>
#include <map>
#include <memory>
#include <sstream>

#include "celma/log/detail/log_msg.hpp"
#include "celma/log/filename/creator.hpp"
#include "celma/log/filename/definition.hpp"
#include "celma/log/detail/i_format_stream.hpp"
#include "celma/log/files/counted.hpp"
#include "celma/log/files/handler.hpp"
#include "celma/log/files/max_size.hpp"

#include "../sim/budget.hpp"
#include "../sim/harness.hpp"
#include "../sim/simfs.hpp"

using sim::Json;
using sim::Result;
using sim::Rng;
using sim::Stats;
namespace fs = sim::fs;

namespace sim { namespace fs { extern std::string g_last_assert; } }

namespace {

enum FaultId { F_crash, F_crash_torn_write, F_short_write, F_eintr_write, F_enospc, F_eio_write, F_rename_fail, F_mkdir_fail,
               F_clean_restart, F_clock_jump, F_open_fail_once };
const char* const kFaultNames[] = { "crash", "crash_with_torn_write", "short_write", "eintr_write", "enospc", "eio_write",
               "rename_fail", "mkdir_fail", "clean_restart", "clock_jump", "open_fails_once" };
enum ProbeId { P_rollover, P_rollover_all_generations_present, P_restart_on_empty, P_restart_on_partly_filled,
               P_restart_on_full, P_crash_in_write_call, P_crash_between_close_and_first_rename, P_crash_between_renames,
               P_crash_after_last_rename_before_open, P_crash_at_open, P_crash_outside_roll, P_torn_tail_glued,
               P_inflight_complete_after_crash, P_inflight_absent_after_crash, P_directory_created_by_policy,
               P_max_gen_one, P_oversized_message, P_recovery_rolled_twice, P_files_handler_wrapper, P_long_entry, P_new_series_after_date_change, P_ten_or_more_generations_on_disk,
               P_blank_message, P_empty_message, P_default_formatter, P_second_log };
const char* const kProbeNames[] = { "rollover", "rollover_with_all_generations_present", "restart_on_empty_generation0",
               "restart_on_partly_filled_generation0", "restart_on_full_generation0", "crash_in_write_call",
               "crash_between_close_and_first_rename", "crash_between_two_renames", "crash_after_last_rename_before_open",
               "crash_at_open", "crash_outside_rollover", "torn_tail_glued_to_next_line", "inflight_message_complete_after_crash",
               "inflight_message_absent_after_crash", "directory_created_by_policy", "max_gen_one", "oversized_single_message",
               "recovery_rolled_twice",
               "through_files_handler_wrapper", "entry_longer_than_1000_bytes", "new_file_series_after_date_change", "ten_or_more_generation_files_on_disk",
               "message_of_blanks_only", "empty_message", "default_formatter_of_the_library",
               "second_independent_log_in_the_same_process" };

/// formatter for the files::Handler wrapper: the message text as it is (the
/// default formatter adds fields and a line end of its own)
class PlainFormat final: public celma::log::detail::IFormatStream
{
private:
   void format( std::ostream& out, const celma::log::detail::LogMsg& msg) const override
   {
      out << msg.getText();
   }
};

struct Msg
{
   std::string  text;
   bool         acked = false;
   bool         may_be_missing = false;   // written while the stream was in error state
   bool         crashed = false;          // a crash hit the write of this message
};

using Files = std::map< int, std::string>;   // generation -> content

struct Run
{
   const Json&      plan;
   Stats&           st;
   std::string*     trace;
   Result           res;
   sim::TraceHash   th;

   bool             counted = true;
   size_t           limit = 3;
   int              max_gen = 2;
   std::string      dir, base, ext;
   int              width = 0;
   int              name_variant = 0;
   bool             precreate = true;

   std::vector< Msg>  msgs;
   std::unique_ptr< celma::log::files::PolicyBase>  policy;
   /// wrapper mode: the policy is owned by a files::Handler<P> log destination
   std::unique_ptr< celma::log::detail::ILogDest>   wrapped;
   bool             wrapper = false;
   bool             default_formatter = false;   // wrapper mode: the library's own formatter
   /// a second, independent log of the same process (another base name and
   /// another date format, files in the same directory) that gets a message
   /// in front of every message of the log under test
   std::unique_ptr< celma::log::files::PolicyBase>  other_log;
   bool             degraded = false;
   int              rolls_seen = 0;
   int              restarts_seen = 0;
   bool             crash_happened = false;
   bool             overlong_seen = false;
   bool             gaps_possible = false;   // a roll-over was cut short (crash, failing rename)
   int              torn_fragments = 0;
   /// generation 0 ended with text that has no line end when it was (re)opened:
   /// for the library that text is an entry, on disk it has no line of its own
   int              open_fragment = 0;
   int              blank_count = 0;
   mutable bool     torn_border_before = false, torn_border_after = false, torn_prev_identified = true;   // for explainTorn()
   uint64_t         sim_seconds = 0;
   size_t           over_long_from = 0;
   /// file name with a date part: every date has its own series of generations
   bool                        use_date = false;
   std::vector< std::string>   dates;          // dates seen so far, oldest first
   int                         cur_rank = 0;   // series the open file belongs to

   Run( const Json& p, Stats& s, std::string* t): plan( p), st( s), trace( t) {}

   void log( const std::string& s)
   {
      th.add( s);
      if (trace) *trace += s + "\n";
   }

   static std::string dateOf( int64_t t)
   {
      char       buf[ 32];
      time_t     tt = static_cast< time_t>( t);
      struct tm  tm_buf;
      gmtime_r( &tt, &tm_buf);
      strftime( buf, sizeof( buf), "%F", &tm_buf);
      return buf;
   }

   /// series of the current simulated date (appended if new; the clock only
   /// moves forward in runs with a date part)
   int nowRank()
   {
      if (!use_date) return 0;
      const std::string  d = dateOf( fs::clockNow());
      for (size_t k = 0; k < dates.size(); ++k) if (dates[ k] == d) return static_cast< int>( k);
      dates.push_back( d);
      return static_cast< int>( dates.size()) - 1;
   }

   std::string fileName( int gen) const { return fileName( cur_rank, gen); }

   std::string fileName( int rank, int gen) const
   {
      std::ostringstream  os;
      os << "/simfs/" << dir << "/" << base;
      if (use_date) os << "-" << dates[ static_cast< size_t>( rank)];
      os << ".";
      if (width > 0) { os.width( width); os.fill( '0'); }
      os << gen;
      os << ext;
      return os.str();
   }

   celma::log::filename::Definition makeDefinition() const
   {
      namespace fn = celma::log::filename;
      fn::Definition  def;
      fn::Creator     c( def);
      switch (name_variant)
      {
      case 1:
         c << std::string( "/simfs/" + dir) << fn::path_sep << std::string( base + ".");
         break;
      case 2:
         c << std::string( "/simfs/") << fn::env_var( "SIMLOGDIR") << std::string( "/" + base + ".");
         break;
      case 3:
         c << std::string( "/simfs/" + dir + "/" + base + "-") << fn::date << std::string( ".");
         break;
      default:
         c << std::string( "/simfs/" + dir + "/" + base + ".");
         break;
      }
      if (width > 0)
         c << width << '0' << fn::number;
      else
         c << fn::number;
      if (!ext.empty())
         c << ext;
      return def;
   }

   celma::log::files::PolicyBase* makePolicy() const
   {
      if (counted)
         return new celma::log::files::Counted( makeDefinition(), limit, max_gen);
      return new celma::log::files::MaxSize( makeDefinition(), limit, max_gen);
   }

   bool isOpen() const { return policy != nullptr || wrapped != nullptr; }

   void closeSink()
   {
      policy.reset();
      wrapped.reset();
   }

   /// constructs the policy (and the wrapper) and opens the log file
   void openSink()
   {
      namespace lf = celma::log::files;
      if (!wrapper)
      {
         policy.reset( makePolicy());
         policy->open();
         return;
      }
      // the constructor of the handler opens the file
      if (counted)
         wrapped.reset( new lf::Handler< lf::Counted>( new lf::Counted( makeDefinition(), limit, max_gen)));
      else
         wrapped.reset( new lf::Handler< lf::MaxSize>( new lf::MaxSize( makeDefinition(), limit, max_gen)));
      if (!default_formatter) wrapped->setFormatter( new PlainFormat());
   }

   void writeSink( const std::string& text, int line_nbr)
   {
      celma::log::detail::LogMsg  lm( "c15.cpp", "harness", line_nbr);
      if (!wrapper)
      {
         policy->writeMessage( lm, text);
         return;
      }
      lm.setText( text);
      wrapped->handleMessage( lm);
   }

   Files snapshot() const { return snapshot( cur_rank); }

   /// all series: the one in use with plain generation numbers, older ones
   /// with 1000 added per step back in time (so that iterating from the
   /// highest key down reads oldest first)
   Files combined( const Files& current) const
   {
      Files  all = current;
      for (int r = 0; r < static_cast< int>( dates.size()); ++r)
      {
         if (r == cur_rank) continue;
         for (auto const& kv : snapshot( r))
            all[ kv.first + 1000 * (cur_rank - r)] = kv.second;
      }
      return all;
   }

   Files snapshot( int rank, std::vector< std::string>* strays = nullptr) const
   {
      Files  f;
      std::map< std::string, int>  names;
      for (int g = 0; g < max_gen + 4; ++g)
         names[ fileName( rank, g)] = g;
      for (auto const& path : fs::listFiles( "/simfs/" + dir))
      {
         auto  it = names.find( path);
         std::string  content;
         fs::getFile( path, content);
         if (default_formatter) content = withoutFields( content);
         if (it != names.end()) f[ it->second] = content;
         else if (strays) strays->push_back( path);
      }
      return f;
   }

   /// default formatter of the library: "pid|file|function|line|class|level|
   /// error number|text". The oracle works on the texts; completely empty
   /// lines (no fields) are no entries and are left out.
   static std::string withoutFields( const std::string& content)
   {
      std::string  out;
      size_t       pos = 0;
      while (pos < content.size())
      {
         size_t  e = content.find( '\n', pos);
         const bool  terminated = (e != std::string::npos);
         if (!terminated) e = content.size();
         std::string  line = content.substr( pos, e - pos);
         pos = e + (terminated ? 1 : 0);
         if (line.empty() && terminated) continue;
         size_t  bar = 0;
         for (int k = 0; k < 7 && bar != std::string::npos; ++k)
         {
            bar = line.find( '|', bar);
            if (bar != std::string::npos) ++bar;
         }
         if (bar != std::string::npos) line.erase( 0, bar);
         out += line;
         if (terminated) out += "\n";
      }
      return out;
   }

   static size_t lineCount( const std::string& s)
   {
      return static_cast< size_t>( std::count( s.begin(), s.end(), '\n'));
   }

   bool isFull( const std::string& content, size_t next_len) const
   {
      // "the next message would exceed the limit": both readings of the exact
      // boundary are accepted
      if (counted)
      {
         // a fragment left behind by a crash in the middle of a write is an
         // entry for the library although it has no line end of its own
         return lineCount( content) + static_cast< size_t>( std::max( open_fragment, std::min( torn_fragments, 1))) >= limit;
      }
      return content.size() + next_len + 1 >= limit;
   }

   std::string describe( const Files& f) const
   {
      std::ostringstream  os;
      for (auto const& kv : f)
      {
         os << " [" << kv.first << "]=";
         for (char c : kv.second) { if (c == '\n') os << '|'; else os << c; }
      }
      return os.str();
   }

   // ---------------------------------------------------------- invariants

   /// limits (I2) and naming (I4: no generation beyond max_gen - 1)
   void checkLimits( const Files& current, const char* when)
   {
      const Files  f = combined( current);
      if (current.size() >= 10) st.probe( P_ten_or_more_generations_on_disk);
      for (auto const& kv : f)
      {
         if (kv.first % 1000 >= max_gen && kv.first >= 0)
         {
            res.fail( "VIOLATION", "I4-retention", std::string( when) + ": generation file " + std::to_string( kv.first)
               + " exists although only " + std::to_string( max_gen) + " generations are kept;" + describe( f));
            return;
         }
         const size_t  lines = lineCount( kv.second);
         if (counted)
         {
            if (lines > limit)
            {
               res.fail( "VIOLATION", "I2-limit", std::string( when) + ": generation " + std::to_string( kv.first) + " holds "
                  + std::to_string( lines) + " entries, limit " + std::to_string( limit) + ";" + describe( f));
               return;
            }
         } else if (kv.second.size() > limit && lines > 1)
         {
            // a file that consists of one over-long message is exempt
            res.fail( "VIOLATION", "I2-limit", std::string( when) + ": generation " + std::to_string( kv.first) + " has "
               + std::to_string( kv.second.size()) + " bytes, limit " + std::to_string( limit) + ";" + describe( f));
            return;
         }
      }
   }

   /// I1: lines on disk, oldest generation first, are messages that were
   /// written, each at most once, in the order written, without holes other
   /// than those an injected fault explains, ending with the newest one.
   void checkContent( const Files& current, const char* when, bool strict_tail)
   {
      const Files  f = combined( current);
      struct Ln { std::string text; bool terminated; int gen; long long id; };
      std::vector< Ln>  lines;
      for (auto it = f.rbegin(); it != f.rend(); ++it)
      {
         const std::string&  c = it->second;
         size_t  pos = 0;
         while (pos < c.size())
         {
            size_t  e = c.find( '\n', pos);
            if (e == std::string::npos)
            {
               lines.push_back( Ln{ c.substr( pos), false, it->first, -1});
               break;
            }
            lines.push_back( Ln{ c.substr( pos, e - pos), true, it->first, -1});
            pos = e + 1;
         }
      }
      // pass 1: lines that are exactly one message (texts are unique)
      std::map< std::string, long long>  by_text;
      for (size_t m = 0; m < msgs.size(); ++m) by_text[ msgs[ m].text] = static_cast< long long>( m);
      for (auto & l : lines)
         if (l.terminated)
         {
            auto  it = by_text.find( l.text);
            if (it != by_text.end()) l.id = it->second;
         }
      // pass 2: lines that are no message by themselves are attributed to
      // fragments left by crashes; each run of such lines is processed from
      // its end so that every fragment gets the latest message it can stand for
      for (size_t k = lines.size(); k-- > 0; )
      {
         Ln&  l = lines[ k];
         if (l.id >= 0) continue;
         long long  lower = -1;
         for (size_t j = k; j-- > 0; )
            if (lines[ j].id >= 0) { lower = lines[ j].id; break; }
         const long long  upper = (k + 1 < lines.size()) ? lines[ k + 1].id : static_cast< long long>( msgs.size());
         bool  bare = false;
         torn_border_before = (k > 0) && (lines[ k - 1].gen / 1000 != l.gen / 1000);
         torn_border_after = (k + 1 < lines.size()) && (lines[ k + 1].gen / 1000 != l.gen / 1000);
         torn_prev_identified = (k == 0) || (lines[ k - 1].id >= 0);
         l.id = explainTorn( l.text, lower, upper, !l.terminated, 0, bare);
         if (l.id < 0)
         {
            res.fail( "VIOLATION", "I1-content", std::string( when) + ": line '" + l.text + "' in generation "
               + std::to_string( l.gen) + (l.terminated ? "" : " is cut off (no newline) and")
               + " is not a message that was written;" + describe( f));
            return;
         }
         if (!bare) st.probe( P_torn_tail_glued);
      }
      // pass 3: order, duplicates, holes
      long long  last_id = -1;
      for (size_t k = 0; k < lines.size(); ++k)
      {
         Ln&  l = lines[ k];
         if (l.id <= last_id)
         {
            res.fail( "VIOLATION", "I1-order", std::string( when) + ": message " + std::to_string( l.id) + " '" + l.text
               + "' in generation " + std::to_string( l.gen) + " appears again or out of order (after message "
               + std::to_string( last_id) + ");" + describe( f));
            return;
         }
         // (retention is per series: at the border between the files of two
         // dates the older generations of the newer date may be gone already)
         const bool  series_border = (k > 0) && (lines[ k - 1].gen / 1000 != l.gen / 1000);
         if (last_id >= 0 && !series_border)
            for (long long h = last_id + 1; h < l.id; ++h)
               if (!msgs[ static_cast< size_t>( h)].may_be_missing && !msgs[ static_cast< size_t>( h)].crashed)
               {
                  res.fail( "VIOLATION", "I1-loss", std::string( when) + ": message " + std::to_string( h) + " '"
                     + msgs[ static_cast< size_t>( h)].text + "' is missing between retained messages "
                     + std::to_string( last_id) + " and " + std::to_string( l.id) + ";" + describe( f));
                  return;
               }
         last_id = l.id;
      }
      if (!strict_tail)
         return;
      // the newest acknowledged message must be there (unless a fault explains its absence)
      for (long long m = static_cast< long long>( msgs.size()) - 1; m > last_id; --m)
      {
         const Msg&  mm = msgs[ static_cast< size_t>( m)];
         if (mm.acked && !mm.may_be_missing)
         {
            res.fail( "VIOLATION", "I1-loss", std::string( when) + ": acknowledged message " + std::to_string( m) + " '"
               + mm.text + "' is not in the log files (newest retained: " + std::to_string( last_id) + ");" + describe( f));
            return;
         }
      }
   }

   /// Explains a line that is no message by itself: a chain of prefixes of
   /// messages whose write a crash interrupted (in writing order), followed
   /// by one complete later message, or by nothing if it is the unterminated
   /// end of a generation file. Only messages with an id in (after, before)
   /// are considered. Returns the id the line stands for (for a bare fragment:
   /// the message it is a fragment of), -1 if the line cannot be explained.
   long long explainTorn( const std::string& line, long long after, long long before, bool unterminated, int depth,
                          bool& bare) const
   {
      if (depth > 4) return -1;
      // a bare fragment may be the beginning of several interrupted messages:
      // the latest one is taken that leaves no acknowledged message unaccounted
      // for between the neighbouring lines (at the border between the file series
      // of two dates nothing has to be accounted for); if there is none, the latest
      auto accountedFor = [ this]( long long lo, long long hi)
      {
         for (long long h = lo + 1; h < hi; ++h)
            if (!msgs[ static_cast< size_t>( h)].may_be_missing && !msgs[ static_cast< size_t>( h)].crashed) return false;
         return true;
      };
      long long  fallback = -1;
      for (long long m = before - 1; m > after; --m)
      {
         const Msg&  cm = msgs[ static_cast< size_t>( m)];
         if (!cm.crashed) continue;
         const std::string&  t = cm.text;
         for (size_t pl = std::min( t.size(), line.size()); pl >= 1; --pl)
         {
            if (line.compare( 0, pl, t, 0, pl) != 0) continue;
            const std::string  rest = line.substr( pl);
            if (rest.empty())
            {
               if (unterminated)
               {
                  bare = true;
                  // (only when the line in front is known: an unexplained line there
                  // may itself contain the messages in between)
                  if (depth > 0 || !torn_prev_identified
                      || ((torn_border_before || accountedFor( after, m)) && (torn_border_after || accountedFor( m, before))))
                     return m;
                  if (fallback < 0) fallback = m;
                  break;   // next candidate message
               }
               continue;
            }
            if (!unterminated)
               for (long long m2 = m + 1; m2 < before; ++m2)
                  if (msgs[ static_cast< size_t>( m2)].text == rest)
                     return m2;
            const long long  deeper = explainTorn( rest, m, before, unterminated, depth + 1, bare);
            if (deeper != -1) return deeper;
         }
      }
      return fallback;
   }

   /// strict step relation between the files before and after one operation
   /// that no fault touched. msg == nullptr: (re)start.
   bool checkTransition( const Files& before, const Files& after, const std::string* msg, const char* when)
   {
      const std::string  add = msg ? *msg + "\n" : std::string();
      const std::string  b0 = before.count( 0) ? before.at( 0) : std::string();
      const std::string  a0 = after.count( 0) ? after.at( 0) : std::string();
      // (a) no new generation
      bool  same_rest = true;
      for (int g = 1; g < max_gen + 4; ++g)
         if ((before.count( g) ? before.at( g) : std::string( "\x02")) != (after.count( g) ? after.at( g) : std::string( "\x02")))
            same_rest = false;
      if (same_rest && a0 == b0 + add)
      {
         if (!msg)
         {
            if (b0.empty()) st.probe( P_restart_on_empty);
            else st.probe( P_restart_on_partly_filled);
         }
         return false;
      }
      // (b) a new generation was started: before or after the message
      auto shifted = [ &]( const std::string& new1, const std::string& new0) -> bool
      {
         if (a0 != new0) return false;
         if (max_gen == 1)
            return after.size() <= 1;
         if (!after.count( 1) || after.at( 1) != new1) return false;
         for (int g = 1; g < max_gen - 1; ++g)
         {
            const bool  had = before.count( g) != 0;
            if (had != (after.count( g + 1) != 0)) return false;
            if (had && before.at( g) != after.at( g + 1)) return false;
         }
         for (int g = max_gen; g < max_gen + 4; ++g)
            if (after.count( g)) return false;
         return true;
      };
      const size_t  next_len = msg ? msg->size() : 1;
      bool  rolled = false;
      if (gaps_possible && a0 == add && linesOf( after) == suffixOf( linesOf( before), add, after))
      {
         // a roll-over that a crash interrupted may have left gaps in the
         // numbering: from then on only the order of the retained lines, the
         // limits and the reason for rolling are checked, not the exact slots
         rolled = true;
         if (before.count( 0) && !isFull( b0, next_len))
         {
            res.fail( "VIOLATION", "I3-premature-generation", std::string( when) + ": a new generation was started although generation 0 could still take the message; before:"
               + describe( before) + " after:" + describe( after));
            return true;
         }
      } else if (shifted( b0, add))
      {
         rolled = true;
         // I3: the old generation 0 could not have taken this message
         if (before.count( 0) && !isFull( b0, next_len))
         {
            res.fail( "VIOLATION", "I3-premature-generation", std::string( when) + ": a new generation was started although generation 0 ("
               + std::to_string( counted ? lineCount( b0) : b0.size()) + (counted ? " entries" : " bytes") + ", limit "
               + std::to_string( limit) + ") could still take the " + (msg ? "message of " + std::to_string( next_len) + " bytes" : std::string( "next message"))
               + "; before:" + describe( before) + " after:" + describe( after));
            return true;
         }
      } else if (msg && shifted( b0 + add, std::string()))
      {
         rolled = true;   // eager variant: write, then start the next generation
         if (!isFull( b0 + add, 1))
         {
            res.fail( "VIOLATION", "I3-premature-generation", std::string( when) + ": a new generation was started after a message although generation 0 was not full; before:"
               + describe( before) + " after:" + describe( after));
            return true;
         }
      }
      if (rolled)
      {
         open_fragment = 0;   // a new generation 0
         ++rolls_seen;
         st.probe( P_rollover);
         if (static_cast< int>( before.size()) >= max_gen) st.probe( P_rollover_all_generations_present);
         if (!msg) st.probe( P_restart_on_full);
         return true;
      }
      res.fail( "VIOLATION", "I1-step", std::string( when) + ": the files after the operation are neither the old files plus the message nor a correct roll-over; before:"
         + describe( before) + " after:" + describe( after) + (msg ? " message: '" + *msg + "'" : std::string( " (re-open)")));
      return false;
   }

   /// Step relation for one fault-free operation, aware of the date part: the
   /// library computes the file name when it (re)opens, so a change of date
   /// takes effect at the next roll-over or restart and starts a new series.
   /// before/after: series in use before the operation; new_before: the series
   /// of the current date before the operation. Returns true if a new
   /// generation was started.
   bool step( const Files& before, const Files& new_before, int rank_now, const std::string* msg, const char* when)
   {
      if (rank_now == cur_rank)
         return checkTransition( before, snapshot(), msg, when);
      const Files        after = snapshot();
      const std::string  add = msg ? *msg + "\n" : std::string();
      const std::string  b0 = before.count( 0) ? before.at( 0) : std::string();
      if (msg && after.count( 0) && after.at( 0) == b0 + add && snapshot( rank_now) == new_before)
      {
         // still writing to the file that was opened before the date changed
         return checkTransition( before, after, msg, when);
      }
      if (after != before)
      {
         res.fail( "VIOLATION", "I1-step", std::string( when) + ": the date changed, but the files of the old date were modified by other than an append; before:"
            + describe( before) + " after:" + describe( after));
         return false;
      }
      if (msg && before.count( 0) && !isFull( b0, msg->size()))
      {
         res.fail( "VIOLATION", "I3-premature-generation", std::string( when) + ": a file for the new date was started by a message although generation 0 of the old date could still take it; before:"
            + describe( before));
         return false;
      }
      st.probe( P_new_series_after_date_change);
      cur_rank = rank_now;
      checkTransition( new_before, snapshot(), msg, when);
      if (msg) { ++rolls_seen; st.probe( P_rollover); }
      return msg != nullptr;
   }

   /// all lines, oldest generation first (each with its terminator state)
   static std::vector< std::string> linesOf( const Files& f)
   {
      std::vector< std::string>  lines;
      for (auto it = f.rbegin(); it != f.rend(); ++it)
      {
         const std::string&  c = it->second;
         size_t  pos = 0;
         while (pos < c.size())
         {
            size_t  e = c.find( '\n', pos);
            if (e == std::string::npos) { lines.push_back( c.substr( pos)); break; }
            lines.push_back( c.substr( pos, e - pos + 1));
            pos = e + 1;
         }
      }
      return lines;
   }

   /// the lines before plus the new text, cut down at the front to the number
   /// of lines now on disk
   static std::vector< std::string> suffixOf( std::vector< std::string> lines, const std::string& add, const Files& after)
   {
      if (!add.empty()) lines.push_back( add);
      const size_t  n = linesOf( after).size();
      if (lines.size() > n) lines.erase( lines.begin(), lines.end() - static_cast< long>( n));
      return lines;
   }

   /// with a single generation, starting a new generation (a full file found
   /// at start-up) drops everything written so far
   void allowLossOfAll()
   {
      for (auto & m : msgs) m.may_be_missing = true;
   }

   void renameFailed()
   {
      gaps_possible = true;
      allowLossOfAll();
   }

   // ------------------------------------------------------------ actions

   /// blank: an entry without visible text (empty, blanks, a tab); the number
   /// of characters makes it unique
   std::string nextMessage( size_t len, bool blank = false)
   {
      if (blank)
      {
         std::string  b( static_cast< size_t>( blank_count++), ' ');
         if (b.size() >= 2 && (b.size() % 2) == 0) b[ 0] = '\t';
         st.probe( b.empty() ? P_empty_message : P_blank_message);
         return b;
      }
      std::string  t = "m" + std::to_string( msgs.size()) + ".";
      static const char  fill[] = "abcdefghijklmnopqrstuvwxyz";
      while (t.size() < len) t.push_back( fill[ (msgs.size() + t.size()) % 26]);
      return t;
   }

   enum ExecResult { exOk, exThrew, exAbandoned };

   /// runs f() under the step budget and the exit/assert/abort traps
   template< typename F> ExecResult guarded( F f, std::string& what)
   {
      sim::OpBudget  guard( 3000000);
      const int      jr = sigsetjmp( guard.env(), 0);
      if (jr == 0)
      {
         try
         {
            f();
         } catch (const std::exception& e)
         {
            what = e.what();
            guard.disarm();
            return exThrew;
         } catch (...)
         {
            guard.disarm();
            what = "exception not derived from std::exception";
            res.fail( "VIOLATION", "E2-exception-type", what);
            return exThrew;
         }
         guard.disarm();
         return exOk;
      }
      res.poisoned = true;
      switch (jr)
      {
      case sim::jrBudget: res.fail( "NONTERMINATION", "L1-progress", "operation exceeded the step budget"); break;
      case sim::jrExit:   res.fail( "EXIT", "E3-exit", "exit() called"); break;
      case sim::jrAssert: res.fail( "ABORT", "E3-assert", "assertion failed: " + fs::g_last_assert); break;
      default:            res.fail( "ABORT", "E3-abort", "abort() called"); break;
      }
      return exAbandoned;
   }

   static std::vector< fs::Fault> faultsOf( const Json& op)
   {
      std::vector< fs::Fault>  v;
      const Json&  f = op.get( "fault");
      if (f.isObj())
      {
         fs::Fault  ft;
         ft.kind = f.gets( "kind");
         ft.at = f.gets( "at").empty() ? "any" : f.gets( "at");
         ft.n = f.geti( "n", 0);
         ft.bytes = f.geti( "bytes", 0);
         v.push_back( ft);
      }
      return v;
   }

   void countFault( const fs::OpReport& rep)
   {
      for (auto const& f : rep.faults)
      {
         if (!f.fired) continue;
         if (f.kind == "crash") st.fault( rep.crash_where.find( "write#") == 0 ? F_crash_torn_write : F_crash);
         else if (f.kind == "short_write") st.fault( F_short_write);
         else if (f.kind == "eintr_write") st.fault( F_eintr_write);
         else if (f.kind == "enospc") st.fault( F_enospc);
         else if (f.kind == "eio_write") st.fault( F_eio_write);
         else if (f.kind == "rename_fail") st.fault( F_rename_fail);
         else if (f.kind == "mkdir_fail") st.fault( F_mkdir_fail);
         else if (f.kind == "open_eacces") st.fault( F_open_fail_once);
      }
   }

   static bool renameFaultFired( const fs::OpReport& rep)
   {
      for (auto const& f : rep.faults)
         if (f.fired && f.kind == "rename_fail") return true;
      return false;
   }

   static bool openFaultFired( const fs::OpReport& rep)
   {
      for (auto const& f : rep.faults)
         if (f.fired && f.kind == "open_eacces") return true;
      return false;
   }

   static bool errorFaultFired( const fs::OpReport& rep)
   {
      for (auto const& f : rep.faults)
         if (f.fired && (f.kind == "enospc" || f.kind == "eio_write" || f.kind == "rename_fail" || f.kind == "mkdir_fail"))
            return true;
      return false;
   }

   void crashProbes( const fs::OpReport& rep)
   {
      const std::string&  wh = rep.crash_where;
      const bool  in_roll = rep.calls[ fs::ccClose] > 0 || rep.calls[ fs::ccRename] > 0;
      if (wh.find( "write#") == 0) st.probe( P_crash_in_write_call);
      if (wh.find( "rename#0") == 0) st.probe( P_crash_between_close_and_first_rename);
      else if (wh.find( "rename#") == 0) st.probe( P_crash_between_renames);
      if (wh.find( "open#") == 0)
      {
         st.probe( P_crash_at_open);
         if (in_roll) st.probe( P_crash_after_last_rename_before_open);
      }
      if (!in_roll) st.probe( P_crash_outside_roll);
   }

   /// (re)start: destroy the policy object, construct a new one, open
   bool restart( const std::vector< fs::Fault>& faults, fs::OpReport& rep, std::string& what, bool& threw)
   {
      closeSink();
      {
         // (closing flushed what the old stream still held)
         const Files  f0 = snapshot( nowRank());
         open_fragment = (f0.count( 0) && !f0.at( 0).empty() && f0.at( 0).back() != '\n') ? 1 : 0;
      }
      fs::opBegin( faults);
      ExecResult  er = guarded( [ this] { openSink(); }, what);
      rep = fs::opEnd();
      threw = (er == exThrew);
      return er != exAbandoned;
   }

   /// crash recovery: the process is gone, only the disk survives
   bool recover( const char* when)
   {
      ++restarts_seen;
      crash_happened = true;
      gaps_possible = true;
      // what sat in the stream buffer of the dead process (messages written
      // after an I/O error) may have reached the disk in part as well
      for (auto & m : msgs)
         if (m.may_be_missing) m.crashed = true;
      // (with a date part the fragment may sit in the file of the new date)
      nowRank();
      const Files  at_crash = combined( snapshot());
      for (auto const& kv : at_crash)
         if (!kv.second.empty() && kv.second.back() != '\n') ++torn_fragments;
      // the dead process' objects cannot touch the frozen disk
      closeSink();
      fs::thaw();
      fs::pidSet( 4242 + static_cast< int>( msgs.size()) + 1);
      fs::OpReport  rep;
      std::string   what;
      bool          threw = false;
      if (!restart( {}, rep, what, threw))
         return false;
      if (threw)
      {
         res.fail( "VIOLATION", "L1-recovery", std::string( when) + ": re-opening after a crash failed: " + what + ";" + describe( snapshot()));
         return false;
      }
      cur_rank = nowRank();   // the new process opened the file of the current date
      const Files  f = snapshot();
      // with a single generation every roll-over drops all older messages
      // before the new one is on disk, and a file found full is emptied by
      // the re-open
      if (max_gen == 1 || overlong_seen)
         allowLossOfAll();
      checkLimits( f, when);
      checkContent( f, when, true);
      return res.ok();
   }

   void execute()
   {
      counted = plan.gets( "policy") != "maxsize";
      limit = static_cast< size_t>( std::max< long long>( 1, plan.geti( "limit", 3)));
      max_gen = static_cast< int>( std::max< long long>( 1, std::min< long long>( 16, plan.geti( "max_gen", 2))));
      const Json&  nm = plan.get( "name");
      dir = nm.gets( "dir").empty() ? "logs" : nm.gets( "dir");
      base = nm.gets( "base").empty() ? "app" : nm.gets( "base");
      ext = nm.gets( "ext");
      width = static_cast< int>( std::max< long long>( 0, std::min< long long>( 6, nm.geti( "width", 0))));
      name_variant = static_cast< int>( nm.geti( "variant", 0));
      precreate = nm.geti( "precreate", 1) != 0;
      wrapper = plan.geti( "wrapper", 0) != 0;
      // (the fields in front of the text do not fit the byte limits of this harness)
      default_formatter = wrapper && counted && plan.geti( "default_formatter", 0) != 0;
      use_date = (name_variant == 3);
      if (wrapper) st.probe( P_files_handler_wrapper);
      if (default_formatter) st.probe( P_default_formatter);
      if (max_gen == 1) st.probe( P_max_gen_one);

      fs::reset();
      fs::traceTo( trace);
      if (use_date) { dates.clear(); cur_rank = nowRank(); }
      fs::envSet( "SIMLOGDIR", dir);
      if (precreate) fs::mkdirs( "/simfs/" + dir);
      log( std::string( "config ") + (counted ? "counted" : "maxsize") + " limit=" + std::to_string( limit) + " max_gen="
         + std::to_string( max_gen) + " name=" + fileName( 0));

      // first start
      {
         fs::OpReport  rep;
         std::string   what;
         bool          threw = false;
         if (!restart( faultsOf( plan.get( "start")), rep, what, threw)) return;
         countFault( rep);
         if (rep.crashed)
         {
            crashProbes( rep);
            if (!recover( "first open")) return;
         } else if (threw && errorFaultFired( rep))
         {
            // the directory could not be created: nothing is open, messages
            // written now are lost until the next clean restart
            ++st.misc[ "exception_under_injected_fault"];
            ++st.misc[ "degraded_window_after_io_error"];
            degraded = true;
         } else if (threw)
         {
            res.fail( "VIOLATION", "L1-open", "opening the log file on an empty disk failed: " + what);
            return;
         } else
         {
            if (!precreate && rep.calls[ fs::ccMkdir] > 0) st.probe( P_directory_created_by_policy);
            checkTransition( Files(), snapshot(), nullptr, "first open");
         }
      }

      if (plan.geti( "second_log", 0) != 0 && use_date && isOpen())
      {
         namespace fn = celma::log::filename;
         try
         {
            fn::Definition  def2;
            fn::Creator     c( def2);
            c << std::string( "/simfs/" + dir + "/zz-") << fn::formatString( "%Y-%m") << fn::date << std::string( ".");
            if (width > 0)
               c << width << '0' << fn::number;
            else
               c << fn::number;
            if (!ext.empty())
               c << ext;
            other_log.reset( new celma::log::files::Counted( def2, 2, 2));
            other_log->open();
            st.probe( P_second_log);
         } catch (const std::exception&)
         {
            other_log.reset();
         }
      }

      const Json&  ops = plan.get( "ops");
      for (size_t oi = 0; oi < ops.size() && res.ok(); ++oi)
      {
         const Json&         op = ops.at( oi);
         const std::string&  kind = op.gets( "op");
         const std::string   when = "op " + std::to_string( oi) + " " + kind;
         if (kind == "clock")
         {
            long long  dt = op.geti( "dt", 1);
            if (use_date && dt < 0) dt = -dt;   // series are ordered by date: no way back
            fs::clockAdvance( dt);
            if (dt > 0) sim_seconds += static_cast< uint64_t>( dt);
            if (dt < 0 || dt > 86400) st.fault( F_clock_jump);
            log( when + " dt=" + std::to_string( dt));
            continue;
         }
         const std::vector< fs::Fault>  faults = faultsOf( op);
         const Files                    before = snapshot();
         const int                      rank_now = nowRank();
         const Files                    new_before = snapshot( rank_now);
         fs::OpReport                   rep;
         std::string                    what;
         bool                           threw = false;

         if (kind == "restart")
         {
            st.fault( F_clean_restart);
            ++restarts_seen;
            log( when);
            if (!restart( faults, rep, what, threw)) return;
            countFault( rep);
            if (rep.crashed)
            {
               crashProbes( rep);
               if (!recover( when.c_str())) return;
               continue;
            }
            bool  err = errorFaultFired( rep);
            if (threw && openFaultFired( rep))
            {
               // the injected open failure was passed on to the caller instead of
               // being retried: legitimate, nothing is open until the next restart
               err = true;
            }
            if (threw && !err)
            {
               res.fail( "VIOLATION", "L1-open", when + ": re-opening the log files failed: " + what + ";" + describe( before));
               return;
            }
            if (threw) ++st.misc[ "exception_under_injected_fault"];
            if (err)
            {
               if (!threw) cur_rank = rank_now;   // re-opened under the name of the current date
               const Files  after = snapshot();
               checkLimits( after, when.c_str());
               degraded = true;
               ++st.misc[ "degraded_window_after_io_error"];
               if (renameFaultFired( rep)) renameFailed();
               checkContent( after, when.c_str(), false);
            } else
            {
               // a clean restart ends a degraded window
               if (degraded)
               {
                  cur_rank = rank_now;
                  const Files  after = snapshot();
                  checkLimits( after, when.c_str());
                  degraded = false;
                  if (max_gen == 1 && (!after.count( 0) || after.at( 0).empty()))
                     allowLossOfAll();
                  checkContent( after, when.c_str(), false);
               } else
               {
                  if (step( before, new_before, rank_now, nullptr, when.c_str()) && max_gen == 1)
                     allowLossOfAll();
                  const Files  after = snapshot();
                  checkLimits( after, when.c_str());
                  checkContent( after, when.c_str(), true);
               }
            }
            continue;
         }

         if (kind != "write")
            continue;
         const size_t  len = static_cast< size_t>( std::max< long long>( 1, op.geti( "len", 8)));
         Msg           m;
         m.text = nextMessage( len, op.geti( "blank", 0) != 0);
         if (!counted && m.text.size() + 1 >= limit)
         {
            // a message that does not even fit into an empty file: outside the
            // domain of "no generation exceeds its limit". The library rolls the
            // (possibly empty) generation 0 for it, which can push acknowledged
            // messages out before the new one is durable.
            st.probe( P_oversized_message);
            overlong_seen = true;
         }
         msgs.push_back( m);
         Msg&  cur = msgs.back();
         if (cur.text.size() > 1000) st.probe( P_long_entry);
         log( when + " '" + (cur.text.size() > 60 ? cur.text.substr( 0, 60) + "...(" + std::to_string( cur.text.size()) + ")" : cur.text) + "'");
         if (!isOpen())
         {
            // the very first open failed under an injected fault: nothing to write to
            cur.may_be_missing = true;
            continue;
         }
         if (other_log)
         {
            celma::log::detail::LogMsg  lm2( "c15.cpp", "other", static_cast< int>( oi));
            try { other_log->writeMessage( lm2, "other " + std::to_string( oi)); } catch (const std::exception&) {}
         }
         fs::opBegin( faults);
         ExecResult  er = guarded( [ &] { writeSink( cur.text, static_cast< int>( oi)); }, what);
         rep = fs::opEnd();
         if (er == exAbandoned) return;
         threw = (er == exThrew);
         countFault( rep);
         if (rep.crashed)
         {
            cur.crashed = true;
            crashProbes( rep);
            if (!recover( when.c_str())) return;
            // what became of the in-flight message?
            bool  found = false;
            for (auto const& kv : snapshot()) if (kv.second.find( cur.text + "\n") != std::string::npos) found = true;
            st.probe( found ? P_inflight_complete_after_crash : P_inflight_absent_after_crash);
            continue;
         }
         const bool  err = errorFaultFired( rep) || (threw && openFaultFired( rep));
         if (threw && !err && !degraded)
         {
            res.fail( "VIOLATION", "E1-unexpected-exception", when + ": writeMessage() failed without an injected error: " + what);
            return;
         }
         if (threw) ++st.misc[ "exception_under_injected_fault"];
         cur.acked = !threw;
         if ((err || degraded) && rank_now != cur_rank && snapshot( rank_now) != new_before)
            cur_rank = rank_now;   // a roll-over moved on to the files of the current date
         const Files  after = snapshot();
         if (err || degraded)
         {
            if (!degraded) ++st.misc[ "degraded_window_after_io_error"];
            degraded = true;
            cur.may_be_missing = true;
            // a failed write may leave a part of the message behind (the text and
            // its line end do not always travel in one call)
            cur.crashed = true;
            // a generation that could not be moved away is overwritten by the
            // next one: the property does not speak about failing renames
            if (renameFaultFired( rep)) renameFailed();
            checkContent( after, when.c_str(), false);
            continue;
         }
         step( before, new_before, rank_now, &cur.text, when.c_str());
         if (!res.ok()) return;
         checkLimits( snapshot(), when.c_str());
         if (!res.ok()) return;
         checkContent( snapshot(), when.c_str(), true);
      }
      if (!res.ok()) return;

      // L1: after the last fault a fresh process opens the files and makes progress
      {
         const Files   before = snapshot();
         const int     rank_now = nowRank();
         const Files   new_before = snapshot( rank_now);
         fs::OpReport  rep;
         std::string   what;
         bool          threw = false;
         log( "final restart");
         if (!restart( {}, rep, what, threw)) return;
         if (threw)
         {
            res.fail( "VIOLATION", "L1-recovery", "final re-open failed: " + what + ";" + describe( before));
            return;
         }
         if (!degraded)
         {
            if (step( before, new_before, rank_now, nullptr, "final restart") && max_gen == 1)
               allowLossOfAll();
         } else
            cur_rank = rank_now;
         const Files  after = snapshot();
         checkLimits( after, "final restart");
         if (degraded && max_gen == 1 && (!after.count( 0) || after.at( 0).empty()))
            allowLossOfAll();
         checkContent( after, "final restart", !degraded);
         degraded = false;
         const int  rolls_before = rolls_seen;
         const size_t  len = counted ? 6 : std::max< size_t>( 4, std::min< size_t>( limit / 2, 12));
         for (int k = 0; k < 48 && res.ok() && rolls_seen < rolls_before + 2; ++k)
         {
            Msg  m;
            m.text = nextMessage( len);
            msgs.push_back( m);
            Msg&  cur = msgs.back();
            const Files  b = snapshot();
            ExecResult  er = guarded( [ &] { writeSink( cur.text, 9999); }, what);
            if (er == exAbandoned) return;
            if (er == exThrew)
            {
               res.fail( "VIOLATION", "L1-recovery", "writeMessage() failed after recovery: " + what);
               return;
            }
            cur.acked = true;
            const Files  a = snapshot();
            checkLimits( a, "recovery write");
            if (res.ok()) checkTransition( b, a, &cur.text, "recovery write");
            if (res.ok()) checkContent( a, "recovery write", true);
         }
         if (res.ok() && rolls_seen >= rolls_before + 2) st.probe( P_recovery_rolled_twice);
      }
      closeSink();
   }
};

class C15 final: public sim::Harness
{
public:
   const char* property() const override { return "C15"; }
   std::vector< std::string> faultKinds() const override
   {
      return std::vector< std::string>( std::begin( kFaultNames), std::end( kFaultNames));
   }
   std::vector< std::string> probeNames() const override
   {
      return std::vector< std::string>( std::begin( kProbeNames), std::end( kProbeNames));
   }
   std::string stateName( uint64_t key) const override
   {
      std::ostringstream  os;
      os << ((key >> 24) & 1 ? "counted" : "maxsize") << " limit=" << ((key >> 8) & 0xffff) << " max_gen=" << (key & 0xff);
      return os.str();
   }

   Json gen( uint64_t seed, const std::string& tier) override
   {
      Rng   cfg( seed, "config"), wl( seed, "workload"), fl( seed, "faults");
      const bool  thorough = (tier == "thorough");
      Json  plan = Json::object();
      plan[ "prop"] = "C15";
      const bool  counted = cfg.chance( 1, 2);
      plan[ "policy"] = counted ? "counted" : "maxsize";
      const long long  limit = counted ? cfg.range( 1, 5) : cfg.range( 8, 64);
      plan[ "limit"] = limit;
      plan[ "max_gen"] = cfg.range( 1, 4);
      // swarm: many generations (more than a one-digit number width can show)
      // with a small limit, so that a short history rolls through all of them
      const bool  many_generations = cfg.chance( 1, 10);
      if (many_generations)
      {
         plan[ "max_gen"] = cfg.range( 9, 12);
         plan[ "limit"] = counted ? cfg.range( 1, 2) : cfg.range( 8, 12);
      }
      plan[ "wrapper"] = cfg.chance( 1, 4);
      Json  nm = Json::object();
      static const char* const  dirs[] = { "logs", "var/log", "a" };
      nm[ "dir"] = dirs[ cfg.below( 3)];
      nm[ "base"] = cfg.chance( 1, 2) ? "app" : "x.y";
      nm[ "ext"] = cfg.chance( 1, 2) ? ".log" : "";
      nm[ "width"] = cfg.chance( 1, 2) ? 0 : cfg.range( 1, 3);
      if (many_generations && cfg.chance( 2, 3)) nm[ "width"] = 1;
      // variant 3: date part in the file name (a new series of generations per date)
      nm[ "variant"] = cfg.chance( 1, 7) ? 3 : cfg.range( 0, 2);
      nm[ "precreate"] = cfg.chance( 3, 4);
      plan[ "name"] = nm;
      // "var/log" needs two levels: the policy creates one level only
      if (nm.gets( "dir") == "var/log") plan[ "name"][ "precreate"] = true;

      // swarm: fault classes enabled in this run
      const unsigned  mode = static_cast< unsigned>( fl.below( 10));   // 0-2 none, 3-5 crash only, 6-7 benign, 8-9 all
      const unsigned  fault_pct = (mode <= 2) ? 0 : static_cast< unsigned>( fl.range( 3, 15));
      const bool      strict_len = cfg.chance( 3, 4);   // messages always fit the byte limit
      const bool      long_entries = cfg.chance( 1, 8);
      const bool      blank_entries = (mode <= 2) && cfg.chance( 1, 3);
      // the library's own formatter instead of the text-only one: fault-free
      // histories only (a line torn inside the fields could not be attributed)
      if (plan.geti( "wrapper") != 0 && counted && mode <= 2 && cfg.chance( 1, 2)) plan[ "default_formatter"] = true;
      if (nm.geti( "variant") == 3 && mode <= 2 && cfg.chance( 1, 2)) plan[ "second_log"] = true;
      const size_t    max_ops = thorough ? 40 : 24;
      size_t          nops = 1 + static_cast< size_t>( wl.below( wl.chance( 1, 3) ? 6 : max_ops));
      if (many_generations) nops = max_ops;
      Json  ops = Json::array();
      for (size_t k = 0; k < nops; ++k)
      {
         Json            op = Json::object();
         const unsigned  w = static_cast< unsigned>( wl.below( 20));
         if (w == 0 || (w <= 2 && nm.geti( "variant") == 3))
         {
            op[ "op"] = "clock";
            static const long long  dts[] = { 1, 60, 3600, 86400, 90000, -3600, 604800 };
            op[ "dt"] = dts[ wl.below( 7)];
            ops.push( op);
            continue;
         }
         if (w <= 3)
            op[ "op"] = "restart";
         else
         {
            op[ "op"] = "write";
            long long  len = wl.range( 1, 24);
            // entries far longer than any line buffer a reader might use
            if (counted && long_entries && wl.chance( 1, 4)) len = wl.range( 1000, 2600);
            if (!counted && strict_len) len = std::min< long long>( len, limit - 2);
            op[ "len"] = len;
            // entries without visible text (fault-free runs only: a torn blank
            // entry could not be told from a shorter one)
            if (blank_entries && wl.chance( 1, 4)) op[ "blank"] = true;
         }
         if (fl.below( 100) < fault_pct)
         {
            Json  f = Json::object();
            const char*  kind = "crash";
            if (mode >= 8)
            {
               // I/O errors that the library cannot hide (ENOSPC/EIO on write, failing
               // rename or mkdir) are not generated: the property speaks about
               // histories, re-openings and crash points, and what an implementation
               // leaves behind after such an error is not covered by it (a correct
               // variant was seen to leave a stray line after ENOSPC). The harness
               // still understands these kinds in hand-written plans.
               static const char* const  kinds[] = { "crash", "crash", "crash", "short_write", "eintr_write", "open_eacces" };
               kind = kinds[ fl.below( 6)];
            } else if (mode >= 6)
            {
               // benign: must not change anything. A failing open is retried by
               // the library after it tried to create the directory.
               static const char* const  benign[] = { "short_write", "eintr_write", "open_eacces" };
               kind = benign[ fl.below( 3)];
            }
            f[ "kind"] = kind;
            if (std::string( kind) == "crash")
            {
               // half of the crashes aim at the calls of a roll-over
               static const char* const  ats[] = { "any", "any", "write", "rename", "open", "close" };
               f[ "at"] = ats[ fl.below( 6)];
               f[ "n"] = static_cast< long long>( fl.below( f.gets( "at") == "any" ? 8 : 3));
               f[ "bytes"] = static_cast< long long>( fl.below( 30));
            } else
            {
               f[ "at"] = (std::string( kind) == "rename_fail") ? "rename" : (std::string( kind) == "mkdir_fail" ? "mkdir"
                          : (std::string( kind) == "open_eacces" ? "open" : "write"));
               // (a failing open: only the first attempt, the retry must get through)
               f[ "n"] = static_cast< long long>( std::string( kind) == "open_eacces" ? 0 : fl.below( 2));
               f[ "bytes"] = static_cast< long long>( fl.below( 30));
            }
            op[ "fault"] = f;
         }
         ops.push( op);
      }
      plan[ "ops"] = ops;
      // the very first open can be hit as well (directory creation)
      if (mode >= 8 && nm.geti( "precreate", 1) == 0 && fl.chance( 1, 3))
      {
         Json  st0 = Json::object();
         Json  f = Json::object();
         f[ "kind"] = "crash";
         f[ "at"] = fl.chance( 1, 2) ? "mkdir" : "any";
         f[ "n"] = static_cast< long long>( 0);
         f[ "bytes"] = static_cast< long long>( 0);
         st0[ "fault"] = f;
         plan[ "start"] = st0;
      }
      return plan;
   }

   Result run( const Json& plan, Stats& st, std::string* trace) override
   {
      Run  r( plan, st, trace);
      r.execute();
      fs::traceTo( nullptr);
      r.closeSink();
      r.other_log.reset();
      const size_t  leaked = fs::closeLeaked();
      (void) leaked;
      st.state( (static_cast< uint64_t>( r.counted) << 24) | (static_cast< uint64_t>( r.limit & 0xffff) << 8)
                | static_cast< uint64_t>( r.max_gen & 0xff));
      r.th.add( fs::eventHash());
      r.res.hash = r.th.value();
      r.res.sim_time = r.sim_seconds;
      r.res.nontrivial = r.rolls_seen > 0 || r.restarts_seen > 0;
      return r.res;
   }
};

} // namespace

sim::Harness& sim::harness()
{
   static C15  h;
   return h;
}

int main( int argc, char* argv[])
{
   setenv( "TZ", "UTC", 1);
   tzset();
   return sim::harnessMain( argc, argv);
}
