// Simulated file system, clock, environment and process identity behind the
// libc symbols that libstdc++'s file streams and Celma's FileFuncsOs use.
// Paths below /simfs/ live in memory; everything else falls through to libc.
#pragma once

#include <cstdint>
#include <string>
#include <vector>

namespace sim { namespace fs {

/// classes of intercepted calls (indices into the counters)
enum CallClass { ccOpen = 0, ccRead, ccWrite, ccSeek, ccClose, ccRename, ccUnlink, ccMkdir, ccStat, ccNum };
extern const char* const kCallNames[ ccNum];

/// one fault attached to the operation in progress
struct Fault
{
   /// crash | short_write | eintr_write | enospc | eio_write | eintr_read |
   /// eio_read | short_read | rename_fail | mkdir_fail | open_enoent |
   /// open_eacces | open_eisdir
   std::string  kind;
   /// call class the position counts in ("any" = all mutating calls:
   /// open-for-write, write, close, rename, unlink, mkdir)
   std::string  at = "any";
   /// fires at the n-th such call of the operation (0 based)
   long long    n = 0;
   /// crash on a write: that many bytes of the call still reach the disk
   /// (modulo length + 1); short_write / short_read: bytes transferred
   /// (1 + bytes modulo (length - 1))
   long long    bytes = 0;
   bool         fired = false;
};

struct OpReport
{
   uint64_t     calls[ ccNum] = { 0 };
   uint64_t     mutating_calls = 0;
   bool         crashed = false;
   std::string  crash_where;        // e.g. "rename#1", "write#0+3/11"
   std::vector< Fault>  faults;     // with fired flags
};

// ----- world set-up / inspection (never subject to faults)
void reset();
bool mkdirs( const std::string& path);
void putFile( const std::string& path, const std::string& content);
void putDir( const std::string& path);
bool getFile( const std::string& path, std::string& content);
bool exists( const std::string& path);
bool isDir( const std::string& path);
void removeNode( const std::string& path);
/// names (not paths) of the entries directly below dir, sorted
std::vector< std::string> listDir( const std::string& dir);
/// all files below dir (recursive), full paths, sorted
std::vector< std::string> listFiles( const std::string& dir);
void setUnreadable( const std::string& path, bool unreadable);

// ----- faults
void opBegin( const std::vector< Fault>& faults);
OpReport opEnd();
bool frozen();
void thaw();
/// sizes handed out by successive read() calls (cycled); empty = no limit
void setReadChunks( const std::vector< long long>& chunks);
/// descriptors left open by objects that were abandoned or leaked
size_t closeLeaked();
size_t openDescriptors();

// ----- clock, environment, pid
void clockSet( int64_t t);
void clockAdvance( int64_t dt);
int64_t clockNow();
void envSet( const std::string& name, const std::string& value);
void envUnset( const std::string& name);   // getenv() returns nullptr
void envClear();                           // back to the real environment
void pidSet( int pid);

// ----- trace
void traceTo( std::string* sink);   // readable event log (nullptr = off)
uint64_t eventHash();               // running hash over all simulated calls
uint64_t eventCount();

} } // namespace sim::fs
