// Common frame of all harness executables: seed -> plan -> execution -> result.
#pragma once

#include <cstdint>
#include <map>
#include <string>
#include <vector>

#include "json.hpp"
#include "prng.hpp"

namespace sim {

/// Outcome of one simulated run.
struct Result
{
   /// OK | VIOLATION | NONTERMINATION | ABORT | EXIT | DEADLOCK | RACE | BADPLAN
   std::string  outcome = "OK";
   /// id of the oracle that fired (e.g. "I1-order"); part of the violation class
   std::string  oracle;
   /// human readable: what was expected, what was seen
   std::string  detail;
   /// identity of the execution (hash over all simulator events)
   uint64_t     hash = 0;
   /// non-trivial by the harness' stated rule
   bool         nontrivial = false;
   /// simulated seconds (C15) or scheduler steps (C09/C20) covered by this run
   uint64_t     sim_time = 0;
   /// the run was abandoned by a non-local jump (step budget, exit(), assert):
   /// objects were left behind in mid-operation, do not reuse this process
   bool         poisoned = false;
   /// harness specific additions to the result line (e.g. the executed
   /// schedule as an explicit switch list)
   Json         extra;

   bool ok() const { return outcome == "OK"; }
   void fail( const std::string& oc, const std::string& orc, const std::string& det)
   {
      if (outcome == "OK")
      {
         outcome = oc;
         oracle = orc;
         detail = det;
      }
   }
};

/// Counters aggregated over a batch; every count is "actually happened".
/// Indices are positions in Harness::faultKinds() / probeNames().
struct Stats
{
   std::vector< uint64_t>            faults;   // fault kind -> times fired
   std::vector< uint64_t>            probes;   // reach probe -> times hit
   std::map< std::string, uint64_t>  misc;     // anything else worth reporting
   std::map< uint64_t, uint64_t>     states;   // distinct abstract states (key -> hits)
   void fault( size_t k, uint64_t n = 1) { if (faults.size() <= k) faults.resize( k + 1); faults[ k] += n; }
   void probe( size_t k, uint64_t n = 1) { if (probes.size() <= k) probes.resize( k + 1); probes[ k] += n; }
   void state( uint64_t k) { ++states[ k]; }
};

class Harness
{
public:
   virtual ~Harness() = default;
   virtual const char* property() const = 0;
   /// names of all fault kinds / probes so that "never hit" can be reported
   virtual std::vector< std::string> faultKinds() const = 0;
   virtual std::vector< std::string> probeNames() const = 0;
   /// readable form of an abstract state key passed to Stats::state()
   virtual std::string stateName( uint64_t key) const { return std::to_string( key); }
   /// seed -> plan (pure)
   virtual Json gen( uint64_t seed, const std::string& tier) = 0;
   /// plan -> execution (pure function of plan and code). If trace is not
   /// null, a readable event log is appended to it.
   virtual Result run( const Json& plan, Stats& st, std::string* trace) = 0;
};

/// defined by each harness translation unit
Harness& harness();

int harnessMain( int argc, char* argv[]);

/// Ends a run that cannot be completed in this process (simulated deadlock,
/// scheduler step cap): reports the result the way the current command would
/// have and leaves the process with exit code 78. The driver continues with
/// the next run index in a new process.
[[noreturn]] void abandonRun( Result r);

} // namespace sim
