// Simulated file system / clock / environment. See simfs.hpp.
// Compiled with the sanitizer of the flavour but without coverage
// instrumentation: calls in here do not count against a step budget.

#include "simfs.hpp"

#include <cerrno>
#include <cstdarg>
#include <cstdio>
#include <cstdlib>
#include <cstring>
#include <dirent.h>
#include <dlfcn.h>
#include <fcntl.h>
#include <map>
#include <memory>
#include <sys/mman.h>
#include <sys/stat.h>
#include <sys/time.h>
#include <sys/syscall.h>
#include <sys/uio.h>
#include <time.h>
#include <unistd.h>

#include "budget.hpp"
#include "prng.hpp"

extern "C" {
FILE* __interceptor_fopen64( const char*, const char*) __attribute__(( weak));
FILE* __interceptor_fopen( const char*, const char*) __attribute__(( weak));
FILE* __interceptor_fdopen( int, const char*) __attribute__(( weak));
int __interceptor_fclose( FILE*) __attribute__(( weak));
ssize_t __interceptor_read( int, void*, size_t) __attribute__(( weak));
ssize_t __interceptor_write( int, const void*, size_t) __attribute__(( weak));
ssize_t __interceptor_writev( int, const struct iovec*, int) __attribute__(( weak));
time_t __interceptor_time( time_t*) __attribute__(( weak));
int __interceptor_clock_gettime( clockid_t, struct timespec*) __attribute__(( weak));
int __interceptor_gettimeofday( struct timeval*, void*) __attribute__(( weak));
}

namespace sim { namespace fs {

const char* const kCallNames[ ccNum] = { "open", "read", "write", "seek", "close", "rename", "unlink", "mkdir", "stat" };

namespace {

struct Node
{
   bool         dir = false;
   bool         unreadable = false;
   std::string  data;
};

struct OpenDesc
{
   bool                     used = false;
   std::shared_ptr< Node>   node;
   std::string              path;
   size_t                   off = 0;
   bool                     append = false, rd = false, wr = false;
   size_t                   harvested = 0;   // bytes of the backing memfd already taken over
};

constexpr int  kMaxFd = 4096;

struct World
{
   std::map< std::string, std::shared_ptr< Node>>   nodes;
   OpenDesc                                          fds[ kMaxFd];
   bool                                              frozen = false;
   bool                                              in_op = false;
   OpReport                                          report;
   std::vector< long long>                           chunks;
   size_t                                            chunk_pos = 0;
   bool                                              clock_on = false;
   int64_t                                           now = 0;
   std::map< std::string, std::pair< bool, std::string>>  env;   // name -> (set?, value)
   int                                               pid = 0;
   std::string*                                      trace = nullptr;
   TraceHash                                         hash;
};

World& w()
{
   static World*  world = new World();   // never destroyed: used during exit as well
   return *world;
}

bool  g_ready = false;   // set by the first reset(); before that everything falls through

template< typename F> F real( F interceptor, const char* name)
{
   if (interceptor != nullptr)
      return interceptor;
   void*  sym = dlsym( RTLD_NEXT, name);
   if (sym == nullptr)
   {
      fprintf( stderr, "simfs: cannot resolve %s\n", name);
      _exit( 79);
   }
   return reinterpret_cast< F>( sym);
}

bool isSim( const char* path)
{
   return g_ready && path != nullptr && strncmp( path, "/simfs", 6) == 0 && (path[ 6] == '/' || path[ 6] == '\0');
}

std::string norm( const std::string& path)
{
   std::vector< std::string>  parts;
   size_t  pos = 0;
   while (pos <= path.size())
   {
      size_t  e = path.find( '/', pos);
      if (e == std::string::npos) e = path.size();
      std::string  p = path.substr( pos, e - pos);
      if (p == "..") { if (!parts.empty()) parts.pop_back(); }
      else if (!p.empty() && p != ".") parts.push_back( p);
      pos = e + 1;
   }
   std::string  out;
   for (auto const& p : parts) out += "/" + p;
   return out.empty() ? "/" : out;
}

std::string parentOf( const std::string& p)
{
   size_t  pos = p.find_last_of( '/');
   return pos == 0 || pos == std::string::npos ? "/" : p.substr( 0, pos);
}

std::shared_ptr< Node> find( const std::string& p)
{
   auto  it = w().nodes.find( p);
   return it == w().nodes.end() ? nullptr : it->second;
}

void ev( const char* name, const std::string& what, long long a, long long result)
{
   World&  wd = w();
   // descriptor numbers depend on what else the process has open: they are
   // shown in the readable trace but are not part of the run's identity
   const bool  is_open = strcmp( name, "open") == 0, is_close = strcmp( name, "close") == 0;
   wd.hash.add( fnv1a( name, strlen( name)));
   wd.hash.add( what);
   wd.hash.add( static_cast< uint64_t>( is_close ? 0 : a));
   wd.hash.add( static_cast< uint64_t>( (is_open && result >= 0) ? 0 : result));
   if (wd.trace != nullptr)
   {
      char  buf[ 64];
      snprintf( buf, sizeof( buf), " %lld -> %lld\n", a, result);
      *wd.trace += std::string( "  fs ") + name + " " + what + buf;
   }
}

bool classMatches( const std::string& at, CallClass cc, bool mutating)
{
   if (at == "any") return mutating;
   return at == kCallNames[ cc];
}

/// position of this call within its classes, before counting it
struct CallPos
{
   uint64_t  in_class;
   uint64_t  in_mutating;
};

CallPos countCall( CallClass cc, bool mutating)
{
   World&   wd = w();
   CallPos  p{ wd.report.calls[ cc], wd.report.mutating_calls};
   ++wd.report.calls[ cc];
   if (mutating) ++wd.report.mutating_calls;
   return p;
}

/// looks for a fault of one of the given kinds that is due at this call
Fault* dueFault( CallClass cc, bool mutating, const CallPos& pos, std::initializer_list< const char*> kinds)
{
   World&  wd = w();
   if (!wd.in_op) return nullptr;
   for (auto & f : wd.report.faults)
   {
      if (f.fired) continue;
      bool  kind_ok = false;
      for (const char* k : kinds) if (f.kind == k) kind_ok = true;
      if (!kind_ok) continue;
      if (!classMatches( f.at, cc, mutating)) continue;
      const uint64_t  here = (f.at == "any") ? pos.in_mutating : pos.in_class;
      if (static_cast< uint64_t>( f.n < 0 ? 0 : f.n) != here) continue;
      f.fired = true;
      return &f;
   }
   return nullptr;
}

void harvestAll();

void freeze( CallClass cc, const CallPos& pos, const std::string& extra)
{
   World&  wd = w();
   harvestAll();   // what glibc already handed to the "kernel" is on the disk
   wd.frozen = true;
   wd.report.crashed = true;
   wd.report.crash_where = std::string( kCallNames[ cc]) + "#" + std::to_string( pos.in_class) + extra;
   ev( "CRASH", wd.report.crash_where, 0, 0);
}

int allocFd()
{
   int  fd = memfd_create( "simfs", 0);
   if (fd < 0 || fd >= kMaxFd)
   {
      fprintf( stderr, "simfs: cannot allocate a descriptor (%d)\n", fd);
      _exit( 79);
   }
   return fd;
}

// Code that uses C stdio (fopen + fputs/fgets) instead of iostreams never calls
// read()/write() through the PLT: glibc goes to the kernel directly, i.e. to the
// memfd behind the FILE. For reading the memfd therefore carries a copy of the
// file; bytes that glibc wrote into it are taken over into the simulated file
// at fflush/fclose, when the disk freezes and whenever the harness looks.
// (No fault injection on this path.)

void harvest( int fd)
{
   World&     wd = w();
   OpenDesc&  d = wd.fds[ fd];
   if (!d.used || !d.wr || wd.frozen)
      return;
   struct stat  st;
   if (syscall( SYS_fstat, fd, &st) != 0 || static_cast< size_t>( st.st_size) <= d.harvested)
      return;
   std::string  fresh( static_cast< size_t>( st.st_size) - d.harvested, '\0');
   const ssize_t  got = syscall( SYS_pread64, fd, &fresh[ 0], fresh.size(), static_cast< off_t>( d.harvested));
   if (got <= 0)
      return;
   fresh.resize( static_cast< size_t>( got));
   d.harvested += fresh.size();
   if (d.append) d.off = d.node->data.size();
   if (d.off > d.node->data.size()) d.node->data.resize( d.off, '\0');
   d.node->data.replace( d.off, std::min( fresh.size(), d.node->data.size() - d.off), fresh);
   d.off += fresh.size();
   ev( "stdio-write", d.path, static_cast< long long>( fresh.size()), static_cast< long long>( fresh.size()));
}

void harvestAll()
{
   for (int fd = 0; fd < kMaxFd; ++fd)
      if (w().fds[ fd].used) harvest( fd);
}

/// what an open asks for, independent of the API it came through
struct OpenReq
{
   bool  rd = false, wr = false, create = false, trunc = false, append = false, excl = false;
   char  tag = 'r';   // for the trace / hash: r, w or a
};

/// common part of fopen() and open(): returns a registered descriptor or -1
int simOpenCore( const char* cpath, const OpenReq& rq)
{
   World&             wd = w();
   const std::string  path = norm( cpath);
   const bool         creating = rq.create || rq.trunc || rq.append;
   const CallPos      pos = countCall( ccOpen, creating);

   if (wd.frozen) { errno = EIO; ev( "open", path, rq.tag, -EIO); return -1; }
   if (Fault* f = dueFault( ccOpen, creating, pos, { "open_enoent", "open_eacces", "open_eisdir" }))
   {
      errno = f->kind == "open_enoent" ? ENOENT : (f->kind == "open_eacces" ? EACCES : EISDIR);
      ev( "open", path, rq.tag, -errno);
      return -1;
   }
   if (creating)
      if (dueFault( ccOpen, true, pos, { "crash" }) != nullptr)
      {
         freeze( ccOpen, pos, "");
         errno = EIO;
         return -1;
      }
   auto  node = find( path);
   if (node == nullptr)
   {
      if (!rq.create) { errno = ENOENT; ev( "open", path, rq.tag, -ENOENT); return -1; }
      auto  par = find( parentOf( path));
      if (par == nullptr) { errno = ENOENT; ev( "open", path, rq.tag, -ENOENT); return -1; }
      if (!par->dir) { errno = ENOTDIR; ev( "open", path, rq.tag, -ENOTDIR); return -1; }
      node = std::make_shared< Node>();
      wd.nodes[ path] = node;
   } else
   {
      if (rq.create && rq.excl) { errno = EEXIST; ev( "open", path, rq.tag, -EEXIST); return -1; }
      if (node->dir && rq.wr) { errno = EISDIR; ev( "open", path, rq.tag, -EISDIR); return -1; }
      if (node->unreadable) { errno = EACCES; ev( "open", path, rq.tag, -EACCES); return -1; }
      if (rq.trunc && rq.wr) node->data.clear();
   }
   const int  fd = allocFd();
   if (rq.rd && !rq.wr && !node->dir && !node->data.empty())
   {
      // copy for readers that bypass read() (C stdio)
      size_t  done = 0;
      while (done < node->data.size())
      {
         const ssize_t  n = syscall( SYS_write, fd, node->data.data() + done, node->data.size() - done);
         if (n <= 0) break;
         done += static_cast< size_t>( n);
      }
      syscall( SYS_lseek, fd, 0, SEEK_SET);
   }
   OpenDesc&  d = wd.fds[ fd];
   d = OpenDesc();
   d.used = true;
   d.node = node;
   d.path = path;
   d.append = rq.append;
   d.rd = rq.rd;
   d.wr = rq.wr;
   d.off = 0;
   ev( "open", path, rq.tag, fd);
   return fd;
}

FILE* simOpen( const char* cpath, const char* mode)
{
   const char  m0 = mode[ 0];
   const bool  plus = strchr( mode, '+') != nullptr;
   OpenReq     rq;
   rq.tag = m0;
   rq.rd = (m0 == 'r') || plus;
   rq.wr = (m0 != 'r') || plus;
   rq.create = (m0 == 'w' || m0 == 'a');
   rq.trunc = (m0 == 'w');
   rq.append = (m0 == 'a');
   const int  fd = simOpenCore( cpath, rq);
   if (fd < 0)
      return nullptr;
   static auto  real_fdopen = real( __interceptor_fdopen, "fdopen");
   FILE*  fp = real_fdopen( fd, mode);
   if (fp == nullptr)
   {
      w().fds[ fd] = OpenDesc();
      syscall( SYS_close, fd);
      errno = EMFILE;
      return nullptr;
   }
   // glibc positions a write-only append stream at the end of the file
   if (m0 == 'a' && !plus) w().fds[ fd].off = w().fds[ fd].node->data.size();
   return fp;
}

int simOpenFd( const char* cpath, int flags)
{
   OpenReq    rq;
   const int  acc = flags & O_ACCMODE;
   rq.rd = (acc == O_RDONLY || acc == O_RDWR);
   rq.wr = (acc == O_WRONLY || acc == O_RDWR);
   rq.create = (flags & O_CREAT) != 0;
   rq.trunc = (flags & O_TRUNC) != 0;
   rq.append = (flags & O_APPEND) != 0;
   rq.excl = (flags & O_EXCL) != 0;
   rq.tag = rq.wr ? (rq.append ? 'a' : 'w') : 'r';
   const int  fd = simOpenCore( cpath, rq);
   if (fd >= 0 && (flags & O_DIRECTORY) && !w().fds[ fd].node->dir)
   {
      w().fds[ fd] = OpenDesc();
      syscall( SYS_close, fd);
      errno = ENOTDIR;
      return -1;
   }
   return fd;
}

ssize_t simWrite( int fd, const char* buf, size_t n)
{
   World&         wd = w();
   OpenDesc&      d = wd.fds[ fd];
   const CallPos  pos = countCall( ccWrite, true);
   if (wd.frozen) { errno = EIO; ev( "write", d.path, static_cast< long long>( n), -EIO); return -1; }
   if (!d.wr || d.node->dir) { errno = EBADF; return -1; }
   size_t  take = n;
   if (Fault* f = dueFault( ccWrite, true, pos, { "crash" }))
   {
      take = static_cast< size_t>( (f->bytes < 0 ? 0 : f->bytes) % static_cast< long long>( n + 1));
      if (d.append) d.off = d.node->data.size();
      if (d.off > d.node->data.size()) d.node->data.resize( d.off, '\0');
      d.node->data.replace( d.off, std::min( take, d.node->data.size() - d.off), buf, take);
      freeze( ccWrite, pos, "+" + std::to_string( take) + "/" + std::to_string( n));
      errno = EIO;
      return -1;
   }
   if (Fault* f = dueFault( ccWrite, true, pos, { "eintr_write", "enospc", "eio_write" }))
   {
      errno = f->kind == "eintr_write" ? EINTR : (f->kind == "enospc" ? ENOSPC : EIO);
      ev( "write", d.path, static_cast< long long>( n), -errno);
      return -1;
   }
   if (n > 1)
      if (Fault* f = dueFault( ccWrite, true, pos, { "short_write" }))
         take = 1 + static_cast< size_t>( (f->bytes < 0 ? 0 : f->bytes) % static_cast< long long>( n - 1));
   if (d.append) d.off = d.node->data.size();
   if (d.off > d.node->data.size()) d.node->data.resize( d.off, '\0');
   d.node->data.replace( d.off, std::min( take, d.node->data.size() - d.off), buf, take);
   d.off += take;
   ev( "write", d.path, static_cast< long long>( n), static_cast< long long>( take));
   return static_cast< ssize_t>( take);
}

ssize_t simRead( int fd, char* buf, size_t n)
{
   World&         wd = w();
   OpenDesc&      d = wd.fds[ fd];
   const CallPos  pos = countCall( ccRead, false);
   if (wd.frozen) { errno = EIO; return -1; }
   if (d.node->dir) { errno = EISDIR; ev( "read", d.path, static_cast< long long>( n), -EISDIR); return -1; }
   if (!d.rd) { errno = EBADF; return -1; }
   if (Fault* f = dueFault( ccRead, false, pos, { "eintr_read", "eio_read" }))
   {
      errno = f->kind == "eintr_read" ? EINTR : EIO;
      ev( "read", d.path, static_cast< long long>( n), -errno);
      return -1;
   }
   size_t  avail = d.off < d.node->data.size() ? d.node->data.size() - d.off : 0;
   size_t  take = std::min( n, avail);
   if (take > 1)
   {
      if (Fault* f = dueFault( ccRead, false, pos, { "short_read" }))
         take = 1 + static_cast< size_t>( (f->bytes < 0 ? 0 : f->bytes) % static_cast< long long>( take - 1));
      else if (!wd.chunks.empty())
      {
         long long  c = wd.chunks[ wd.chunk_pos++ % wd.chunks.size()];
         if (c >= 1 && static_cast< size_t>( c) < take) take = static_cast< size_t>( c);
      }
   }
   if (take) memcpy( buf, d.node->data.data() + d.off, take);
   d.off += take;
   ev( "read", d.path, static_cast< long long>( n), static_cast< long long>( take));
   return static_cast< ssize_t>( take);
}

} // namespace

// ------------------------------------------------------------ harness API

void reset()
{
   World&  wd = w();
   closeLeaked();
   wd.nodes.clear();
   auto  root = std::make_shared< Node>();
   root->dir = true;
   wd.nodes[ "/simfs"] = root;
   wd.frozen = false;
   wd.in_op = false;
   wd.report = OpReport();
   wd.chunks.clear();
   wd.chunk_pos = 0;
   wd.clock_on = true;
   wd.now = 1700000000;   // 2023-11-14 22:13:20 UTC
   wd.env.clear();
   wd.pid = 4242;
   wd.trace = nullptr;
   wd.hash.reset();
   g_ready = true;
}

bool mkdirs( const std::string& path)
{
   const std::string  p = norm( path);
   if (p == "/" ) return true;
   auto  n = find( p);
   if (n != nullptr) return n->dir;
   if (!mkdirs( parentOf( p))) return false;
   auto  nn = std::make_shared< Node>();
   nn->dir = true;
   w().nodes[ p] = nn;
   return true;
}

void putFile( const std::string& path, const std::string& content)
{
   const std::string  p = norm( path);
   mkdirs( parentOf( p));
   auto  n = std::make_shared< Node>();
   n->data = content;
   w().nodes[ p] = n;
}

void putDir( const std::string& path) { removeNode( path); mkdirs( path); }

bool getFile( const std::string& path, std::string& content)
{
   harvestAll();
   auto  n = find( norm( path));
   if (n == nullptr || n->dir) return false;
   content = n->data;
   return true;
}

bool exists( const std::string& path) { return find( norm( path)) != nullptr; }
bool isDir( const std::string& path) { auto n = find( norm( path)); return n != nullptr && n->dir; }
void removeNode( const std::string& path) { w().nodes.erase( norm( path)); }

std::vector< std::string> listDir( const std::string& dir)
{
   std::vector< std::string>  out;
   const std::string          prefix = norm( dir) + "/";
   for (auto const& kv : w().nodes)
      if (kv.first.compare( 0, prefix.size(), prefix) == 0 && kv.first.find( '/', prefix.size()) == std::string::npos)
         out.push_back( kv.first.substr( prefix.size()));
   return out;
}

std::vector< std::string> listFiles( const std::string& dir)
{
   std::vector< std::string>  out;
   const std::string          prefix = norm( dir) + "/";
   for (auto const& kv : w().nodes)
      if (!kv.second->dir && kv.first.compare( 0, prefix.size(), prefix) == 0)
         out.push_back( kv.first);
   return out;
}

void setUnreadable( const std::string& path, bool unreadable)
{
   auto  n = find( norm( path));
   if (n != nullptr) n->unreadable = unreadable;
}

void opBegin( const std::vector< Fault>& faults)
{
   World&  wd = w();
   wd.report = OpReport();
   wd.report.faults = faults;
   for (auto & f : wd.report.faults) f.fired = false;
   wd.in_op = true;
}

OpReport opEnd()
{
   World&  wd = w();
   wd.in_op = false;
   return wd.report;
}

bool frozen() { return w().frozen; }
void thaw() { w().frozen = false; }

void setReadChunks( const std::vector< long long>& chunks)
{
   w().chunks = chunks;
   w().chunk_pos = 0;
}

size_t closeLeaked()
{
   World&  wd = w();
   size_t  n = 0;
   for (int fd = 0; fd < kMaxFd; ++fd)
      if (wd.fds[ fd].used)
      {
         // the FILE object belongs to an abandoned stream; only the
         // descriptor can be given back
         wd.fds[ fd] = OpenDesc();
         syscall( SYS_close, fd);
         ++n;
      }
   return n;
}

size_t openDescriptors()
{
   size_t  n = 0;
   for (int fd = 0; fd < kMaxFd; ++fd) if (w().fds[ fd].used) ++n;
   return n;
}

void clockSet( int64_t t) { w().now = t; w().clock_on = true; }
void clockAdvance( int64_t dt) { w().now += dt; }
int64_t clockNow() { return w().now; }
void envSet( const std::string& name, const std::string& value) { w().env[ name] = { true, value}; }
void envUnset( const std::string& name) { w().env[ name] = { false, ""}; }
void envClear() { w().env.clear(); }
void pidSet( int pid) { w().pid = pid; }
void traceTo( std::string* sink) { w().trace = sink; }
uint64_t eventHash() { return w().hash.value(); }
uint64_t eventCount() { return w().hash.events(); }

} } // namespace sim::fs

// ------------------------------------------------------- interposed libc

using namespace sim::fs;

namespace {
inline bool simFd( int fd) { return g_ready && fd >= 0 && fd < kMaxFd && w().fds[ fd].used; }
}

extern "C" FILE* fopen64( const char* path, const char* mode)
{
   if (isSim( path)) return simOpen( path, mode);
   static auto  fn = real( __interceptor_fopen64, "fopen64");
   return fn( path, mode);
}

extern "C" FILE* fopen( const char* path, const char* mode)
{
   if (isSim( path)) return simOpen( path, mode);
   static auto  fn = real( __interceptor_fopen, "fopen");
   return fn( path, mode);
}

extern "C" int open( const char* path, int flags, ...)
{
   mode_t  mode = 0;
   if (flags & (O_CREAT | O_TMPFILE))
   {
      va_list  ap;
      va_start( ap, flags);
      mode = static_cast< mode_t>( va_arg( ap, int));
      va_end( ap);
   }
   if (isSim( path)) return simOpenFd( path, flags);
   return static_cast< int>( syscall( SYS_openat, AT_FDCWD, path, flags, mode));
}

extern "C" int open64( const char* path, int flags, ...)
{
   mode_t  mode = 0;
   if (flags & (O_CREAT | O_TMPFILE))
   {
      va_list  ap;
      va_start( ap, flags);
      mode = static_cast< mode_t>( va_arg( ap, int));
      va_end( ap);
   }
   if (isSim( path)) return simOpenFd( path, flags);
   return static_cast< int>( syscall( SYS_openat, AT_FDCWD, path, flags | O_LARGEFILE, mode));
}

namespace {
/// the *at() calls: a relative path below a simulated directory descriptor
/// (what std::filesystem::remove_all and recursive iteration use)
struct AtPath
{
   std::string  full;
   const char*  p;
   AtPath( int dirfd, const char* path): p( path)
   {
      if (path != nullptr && path[ 0] != '/' && simFd( dirfd) && w().fds[ dirfd].node->dir)
      {
         full = w().fds[ dirfd].path + "/" + path;
         p = full.c_str();
      }
   }
};
}

extern "C" int openat( int dirfd, const char* path_in, int flags, ...)
{
   const AtPath  at( dirfd, path_in);
   const char*   path = at.p;
   mode_t  mode = 0;
   if (flags & (O_CREAT | O_TMPFILE))
   {
      va_list  ap;
      va_start( ap, flags);
      mode = static_cast< mode_t>( va_arg( ap, int));
      va_end( ap);
   }
   if (isSim( path)) return simOpenFd( path, flags);
   return static_cast< int>( syscall( SYS_openat, dirfd, path, flags, mode));
}

extern "C" int close( int fd)
{
   if (simFd( fd))
   {
      World&         wd = w();
      const CallPos  pos = countCall( ccClose, true);
      if (!wd.frozen && dueFault( ccClose, true, pos, { "crash" }) != nullptr)
         freeze( ccClose, pos, "");
      ev( "close", wd.fds[ fd].path, fd, 0);
      wd.fds[ fd] = OpenDesc();
   }
   return static_cast< int>( syscall( SYS_close, fd));
}

extern "C" int fclose( FILE* fp)
{
   static auto  fn = real( __interceptor_fclose, "fclose");
   const int    fd = fp != nullptr ? fileno( fp) : -1;
   if (simFd( fd))
   {
      World&         wd = w();
      if (wd.fds[ fd].wr)
      {
         static auto  real_fflush = real( static_cast< int (*)( FILE*)>( nullptr), "fflush");
         real_fflush( fp);
         harvest( fd);
      }
      const CallPos  pos = countCall( ccClose, true);
      if (!wd.frozen && dueFault( ccClose, true, pos, { "crash" }) != nullptr)
         freeze( ccClose, pos, "");
      ev( "close", wd.fds[ fd].path, fd, 0);
      wd.fds[ fd] = OpenDesc();
   }
   return fn( fp);
}

extern "C" int fflush( FILE* fp)
{
   static auto  fn = real( static_cast< int (*)( FILE*)>( nullptr), "fflush");
   const int    rc = fn( fp);
   if (g_ready)
   {
      if (fp == nullptr) harvestAll();
      else { const int fd = fileno( fp); if (simFd( fd)) harvest( fd); }
   }
   return rc;
}

extern "C" ssize_t write( int fd, const void* buf, size_t n)
{
   if (simFd( fd)) return simWrite( fd, static_cast< const char*>( buf), n);
   static auto  fn = real( __interceptor_write, "write");
   return fn( fd, buf, n);
}

extern "C" ssize_t writev( int fd, const struct iovec* iov, int cnt)
{
   if (simFd( fd))
   {
      std::string  all;
      for (int k = 0; k < cnt; ++k)
         all.append( static_cast< const char*>( iov[ k].iov_base), iov[ k].iov_len);
      return simWrite( fd, all.data(), all.size());
   }
   static auto  fn = real( __interceptor_writev, "writev");
   return fn( fd, iov, cnt);
}

extern "C" ssize_t read( int fd, void* buf, size_t n)
{
   if (simFd( fd)) return simRead( fd, static_cast< char*>( buf), n);
   static auto  fn = real( __interceptor_read, "read");
   return fn( fd, buf, n);
}

static off64_t simSeek( int fd, off64_t off, int whence)
{
   World&     wd = w();
   OpenDesc&  d = wd.fds[ fd];
   countCall( ccSeek, false);
   if (wd.frozen) { errno = EIO; return -1; }
   long long  base = whence == SEEK_SET ? 0 : (whence == SEEK_CUR ? static_cast< long long>( d.off)
                                                               : static_cast< long long>( d.node->data.size()));
   long long  np = base + off;
   if (np < 0) { errno = EINVAL; return -1; }
   d.off = static_cast< size_t>( np);
   ev( "seek", d.path, whence, np);
   return np;
}

extern "C" off64_t lseek64( int fd, off64_t off, int whence)
{
   if (simFd( fd)) return simSeek( fd, off, whence);
   static auto  fn = real( static_cast< off64_t (*)( int, off64_t, int)>( nullptr), "lseek64");
   return fn( fd, off, whence);
}

extern "C" off_t lseek( int fd, off_t off, int whence)
{
   if (simFd( fd)) return simSeek( fd, off, whence);
   static auto  fn = real( static_cast< off_t (*)( int, off_t, int)>( nullptr), "lseek");
   return fn( fd, off, whence);
}

extern "C" int rename( const char* from, const char* to)
{
   if (isSim( from) && isSim( to))
   {
      World&             wd = w();
      const std::string  a = norm( from), b = norm( to);
      const CallPos      pos = countCall( ccRename, true);
      if (wd.frozen) { errno = EIO; ev( "rename", a + " " + b, 0, -EIO); return -1; }
      if (dueFault( ccRename, true, pos, { "crash" }) != nullptr) { freeze( ccRename, pos, ""); errno = EIO; return -1; }
      if (dueFault( ccRename, true, pos, { "rename_fail" }) != nullptr) { errno = EACCES; ev( "rename", a + " " + b, 0, -EACCES); return -1; }
      auto  src = find( a);
      if (src == nullptr) { errno = ENOENT; ev( "rename", a + " " + b, 0, -ENOENT); return -1; }
      auto  par = find( parentOf( b));
      if (par == nullptr || !par->dir) { errno = ENOENT; ev( "rename", a + " " + b, 0, -ENOENT); return -1; }
      auto  dst = find( b);
      if (dst != nullptr && dst->dir != src->dir) { errno = dst->dir ? EISDIR : ENOTDIR; return -1; }
      if (a == b) return 0;
      if (src->dir)
      {
         // move the subtree
         std::map< std::string, std::shared_ptr< Node>>  moved;
         const std::string  prefix = a + "/";
         for (auto it = wd.nodes.begin(); it != wd.nodes.end(); )
            if (it->first.compare( 0, prefix.size(), prefix) == 0)
            {
               moved[ b + "/" + it->first.substr( prefix.size())] = it->second;
               it = wd.nodes.erase( it);
            } else
               ++it;
         for (auto const& kv : moved) wd.nodes[ kv.first] = kv.second;
      }
      wd.nodes[ b] = src;
      wd.nodes.erase( a);
      ev( "rename", a + " " + b, 0, 0);
      return 0;
   }
   static auto  fn = real( static_cast< int (*)( const char*, const char*)>( nullptr), "rename");
   return fn( from, to);
}

static int simUnlink( const char* path, bool allow_dir)
{
   World&             wd = w();
   const std::string  p = norm( path);
   const CallPos      pos = countCall( ccUnlink, true);
   if (wd.frozen) { errno = EIO; return -1; }
   if (dueFault( ccUnlink, true, pos, { "crash" }) != nullptr) { freeze( ccUnlink, pos, ""); errno = EIO; return -1; }
   auto  n = find( p);
   if (n == nullptr) { errno = ENOENT; ev( "unlink", p, 0, -ENOENT); return -1; }
   if (n->dir)
   {
      if (!allow_dir) { errno = EISDIR; return -1; }
      if (!listDir( p).empty()) { errno = ENOTEMPTY; return -1; }
   }
   wd.nodes.erase( p);
   ev( "unlink", p, 0, 0);
   return 0;
}

extern "C" int unlink( const char* path)
{
   if (isSim( path)) return simUnlink( path, false);
   static auto  fn = real( static_cast< int (*)( const char*)>( nullptr), "unlink");
   return fn( path);
}

extern "C" int remove( const char* path)
{
   if (isSim( path)) return simUnlink( path, true);
   static auto  fn = real( static_cast< int (*)( const char*)>( nullptr), "remove");
   return fn( path);
}

extern "C" int mkdir( const char* path, mode_t mode)
{
   if (isSim( path))
   {
      World&             wd = w();
      const std::string  p = norm( path);
      const CallPos      pos = countCall( ccMkdir, true);
      if (wd.frozen) { errno = EIO; return -1; }
      if (dueFault( ccMkdir, true, pos, { "crash" }) != nullptr) { freeze( ccMkdir, pos, ""); errno = EIO; return -1; }
      if (dueFault( ccMkdir, true, pos, { "mkdir_fail" }) != nullptr) { errno = EACCES; ev( "mkdir", p, 0, -EACCES); return -1; }
      if (find( p) != nullptr) { errno = EEXIST; ev( "mkdir", p, 0, -EEXIST); return -1; }
      auto  par = find( parentOf( p));
      if (par == nullptr) { errno = ENOENT; ev( "mkdir", p, 0, -ENOENT); return -1; }
      if (!par->dir) { errno = ENOTDIR; return -1; }
      auto  n = std::make_shared< Node>();
      n->dir = true;
      wd.nodes[ p] = n;
      ev( "mkdir", p, 0, 0);
      return 0;
   }
   static auto  fn = real( static_cast< int (*)( const char*, mode_t)>( nullptr), "mkdir");
   return fn( path, mode);
}

// ----- further calls a different but correct implementation may use

namespace {

/// pwrite()/pread(): the descriptor's own position stays where it is
ssize_t simPwrite( int fd, const char* buf, size_t n, off_t off)
{
   OpenDesc&     d = w().fds[ fd];
   const size_t  keep = d.off;
   const bool    app = d.append;
   d.off = static_cast< size_t>( off < 0 ? 0 : off);
   d.append = false;
   const ssize_t  r = simWrite( fd, buf, n);
   d.off = keep;
   d.append = app;
   return r;
}

ssize_t simPread( int fd, char* buf, size_t n, off_t off)
{
   OpenDesc&     d = w().fds[ fd];
   const size_t  keep = d.off;
   d.off = static_cast< size_t>( off < 0 ? 0 : off);
   const ssize_t  r = simRead( fd, buf, n);
   d.off = keep;
   return r;
}

int simTruncateNode( const std::shared_ptr< Node>& node, const std::string& path, off_t len)
{
   World&         wd = w();
   const CallPos  pos = countCall( ccWrite, true);
   if (wd.frozen) { errno = EIO; return -1; }
   if (node == nullptr) { errno = ENOENT; return -1; }
   if (node->dir) { errno = EISDIR; return -1; }
   if (dueFault( ccWrite, true, pos, { "crash" }) != nullptr) { freeze( ccWrite, pos, " (truncate)"); errno = EIO; return -1; }
   node->data.resize( static_cast< size_t>( len < 0 ? 0 : len), '\0');
   ev( "truncate", path, static_cast< long long>( len), 0);
   return 0;
}

/// directory streams over the simulated tree
struct SimDir
{
   uint64_t                     magic;
   int                          fd;      // -1: opened by path
   std::vector< struct dirent>  entries;
   size_t                       pos;
};
constexpr uint64_t  kDirMagic = 0x53494d4449523031ULL;
constexpr int       kMaxDirs = 64;
SimDir*             g_dirs[ kMaxDirs] = { nullptr };

SimDir* asSimDir( DIR* dp)
{
   for (int k = 0; k < kMaxDirs; ++k)
      if (g_dirs[ k] != nullptr && reinterpret_cast< DIR*>( g_dirs[ k]) == dp) return g_dirs[ k];
   return nullptr;
}

DIR* makeSimDir( const std::string& path, int fd)
{
   countCall( ccStat, false);
   auto  sd = new SimDir{ kDirMagic, fd, {}, 0 };
   uint64_t  ino = 2;
   for (const char* special : { ".", ".." })
   {
      struct dirent  e;
      memset( &e, 0, sizeof( e));
      e.d_ino = ino++;
      e.d_type = DT_DIR;
      e.d_reclen = sizeof( e);
      strncpy( e.d_name, special, sizeof( e.d_name) - 1);
      sd->entries.push_back( e);
   }
   for (auto const& name : listDir( path))
   {
      struct dirent  e;
      memset( &e, 0, sizeof( e));
      e.d_ino = ino++;
      e.d_type = isDir( path + "/" + name) ? DT_DIR : DT_REG;
      e.d_reclen = sizeof( e);
      strncpy( e.d_name, name.c_str(), sizeof( e.d_name) - 1);
      sd->entries.push_back( e);
   }
   for (int k = 0; k < kMaxDirs; ++k)
      if (g_dirs[ k] == nullptr)
      {
         g_dirs[ k] = sd;
         ev( "opendir", path, 0, static_cast< long long>( sd->entries.size()));
         return reinterpret_cast< DIR*>( sd);
      }
   delete sd;
   errno = EMFILE;
   return nullptr;
}

} // namespace

extern "C" ssize_t pwrite( int fd, const void* buf, size_t n, off_t off)
{
   if (simFd( fd)) return simPwrite( fd, static_cast< const char*>( buf), n, off);
   static auto  fn = real( static_cast< ssize_t (*)( int, const void*, size_t, off_t)>( nullptr), "pwrite");
   return fn( fd, buf, n, off);
}

extern "C" ssize_t pwrite64( int fd, const void* buf, size_t n, off64_t off)
{
   if (simFd( fd)) return simPwrite( fd, static_cast< const char*>( buf), n, static_cast< off_t>( off));
   static auto  fn = real( static_cast< ssize_t (*)( int, const void*, size_t, off64_t)>( nullptr), "pwrite64");
   return fn( fd, buf, n, off);
}

extern "C" ssize_t pread( int fd, void* buf, size_t n, off_t off)
{
   if (simFd( fd)) return simPread( fd, static_cast< char*>( buf), n, off);
   static auto  fn = real( static_cast< ssize_t (*)( int, void*, size_t, off_t)>( nullptr), "pread");
   return fn( fd, buf, n, off);
}

extern "C" ssize_t pread64( int fd, void* buf, size_t n, off64_t off)
{
   if (simFd( fd)) return simPread( fd, static_cast< char*>( buf), n, static_cast< off_t>( off));
   static auto  fn = real( static_cast< ssize_t (*)( int, void*, size_t, off64_t)>( nullptr), "pread64");
   return fn( fd, buf, n, off);
}

extern "C" int ftruncate( int fd, off_t len)
{
   if (simFd( fd)) { harvest( fd); return simTruncateNode( w().fds[ fd].node, w().fds[ fd].path, len); }
   static auto  fn = real( static_cast< int (*)( int, off_t)>( nullptr), "ftruncate");
   return fn( fd, len);
}

extern "C" int ftruncate64( int fd, off64_t len)
{
   if (simFd( fd)) { harvest( fd); return simTruncateNode( w().fds[ fd].node, w().fds[ fd].path, static_cast< off_t>( len)); }
   static auto  fn = real( static_cast< int (*)( int, off64_t)>( nullptr), "ftruncate64");
   return fn( fd, len);
}

extern "C" int truncate( const char* path, off_t len)
{
   if (isSim( path)) return simTruncateNode( find( norm( path)), norm( path), len);
   static auto  fn = real( static_cast< int (*)( const char*, off_t)>( nullptr), "truncate");
   return fn( path, len);
}

extern "C" int truncate64( const char* path, off64_t len)
{
   if (isSim( path)) return simTruncateNode( find( norm( path)), norm( path), static_cast< off_t>( len));
   static auto  fn = real( static_cast< int (*)( const char*, off64_t)>( nullptr), "truncate64");
   return fn( path, len);
}

extern "C" int renameat( int fd1, const char* from_in, int fd2, const char* to_in)
{
   const AtPath  a1( fd1, from_in), a2( fd2, to_in);
   const char*   from = a1.p;
   const char*   to = a2.p;
   if (isSim( from) && isSim( to)) return rename( from, to);
   static auto  fn = real( static_cast< int (*)( int, const char*, int, const char*)>( nullptr), "renameat");
   return fn( fd1, from, fd2, to);
}

extern "C" int unlinkat( int dirfd, const char* path_in, int flags)
{
   const AtPath  at( dirfd, path_in);
   const char*   path = at.p;
   if (isSim( path)) return (flags & AT_REMOVEDIR) ? rmdir( path) : unlink( path);
   static auto  fn = real( static_cast< int (*)( int, const char*, int)>( nullptr), "unlinkat");
   return fn( dirfd, path, flags);
}

extern "C" int mkdirat( int dirfd, const char* path_in, mode_t mode)
{
   const AtPath  at( dirfd, path_in);
   const char*   path = at.p;
   if (isSim( path)) return mkdir( path, mode);
   static auto  fn = real( static_cast< int (*)( int, const char*, mode_t)>( nullptr), "mkdirat");
   return fn( dirfd, path, mode);
}

extern "C" int rmdir( const char* path)
{
   if (isSim( path))
   {
      if (!isDir( norm( path))) { errno = exists( norm( path)) ? ENOTDIR : ENOENT; return -1; }
      if (!listDir( norm( path)).empty()) { errno = ENOTEMPTY; return -1; }
      return simUnlink( path, true);
   }
   static auto  fn = real( static_cast< int (*)( const char*)>( nullptr), "rmdir");
   return fn( path);
}

extern "C" DIR* opendir( const char* path)
{
   if (isSim( path))
   {
      const std::string  p = norm( path);
      if (w().frozen) { errno = EIO; return nullptr; }
      if (!exists( p)) { errno = ENOENT; return nullptr; }
      if (!isDir( p)) { errno = ENOTDIR; return nullptr; }
      return makeSimDir( p, -1);
   }
   static auto  fn = real( static_cast< DIR* (*)( const char*)>( nullptr), "opendir");
   return fn( path);
}

extern "C" DIR* fdopendir( int fd)
{
   if (simFd( fd))
   {
      if (!w().fds[ fd].node->dir) { errno = ENOTDIR; return nullptr; }
      return makeSimDir( w().fds[ fd].path, fd);
   }
   static auto  fn = real( static_cast< DIR* (*)( int)>( nullptr), "fdopendir");
   return fn( fd);
}

extern "C" struct dirent* readdir( DIR* dp)
{
   if (SimDir* sd = asSimDir( dp))
      return sd->pos < sd->entries.size() ? &sd->entries[ sd->pos++] : nullptr;
   static auto  fn = real( static_cast< struct dirent* (*)( DIR*)>( nullptr), "readdir");
   return fn( dp);
}

extern "C" struct dirent64* readdir64( DIR* dp)
{
   if (SimDir* sd = asSimDir( dp))
      return sd->pos < sd->entries.size() ? reinterpret_cast< struct dirent64*>( &sd->entries[ sd->pos++]) : nullptr;
   static auto  fn = real( static_cast< struct dirent64* (*)( DIR*)>( nullptr), "readdir64");
   return fn( dp);
}

extern "C" void rewinddir( DIR* dp)
{
   if (SimDir* sd = asSimDir( dp)) { sd->pos = 0; return; }
   static auto  fn = real( static_cast< void (*)( DIR*)>( nullptr), "rewinddir");
   fn( dp);
}

extern "C" int dirfd( DIR* dp)
{
   if (SimDir* sd = asSimDir( dp))
   {
      if (sd->fd < 0) { errno = ENOTSUP; return -1; }
      return sd->fd;
   }
   static auto  fn = real( static_cast< int (*)( DIR*)>( nullptr), "dirfd");
   return fn( dp);
}

extern "C" int closedir( DIR* dp)
{
   if (SimDir* sd = asSimDir( dp))
   {
      for (int k = 0; k < kMaxDirs; ++k) if (g_dirs[ k] == sd) g_dirs[ k] = nullptr;
      const int  fd = sd->fd;
      delete sd;
      return fd >= 0 ? close( fd) : 0;
   }
   static auto  fn = real( static_cast< int (*)( DIR*)>( nullptr), "closedir");
   return fn( dp);
}

// ----- file status and access checks (std::filesystem, hand written checks)

namespace {

int simStat( const char* cpath, struct stat* st)
{
   const std::string  p = norm( cpath);
   countCall( ccStat, false);
   if (w().frozen) { errno = EIO; return -1; }
   auto  n = find( p);
   if (n == nullptr) { errno = ENOENT; ev( "stat", p, 0, -ENOENT); return -1; }
   memset( st, 0, sizeof( *st));
   st->st_mode = n->dir ? (S_IFDIR | 0755) : (S_IFREG | (n->unreadable ? 0200 : 0644));
   st->st_nlink = 1;
   st->st_size = n->dir ? 4096 : static_cast< off_t>( n->data.size());
   st->st_blksize = 4096;
   st->st_blocks = (st->st_size + 511) / 512;
   st->st_ino = static_cast< ino_t>( reinterpret_cast< uintptr_t>( n.get()) >> 4);
   st->st_mtime = st->st_atime = st->st_ctime = static_cast< time_t>( w().now);
   ev( "stat", p, 0, st->st_size);
   return 0;
}

} // namespace

extern "C" int stat( const char* path, struct stat* st)
{
   if (isSim( path)) return simStat( path, st);
   static auto  fn = real( static_cast< int (*)( const char*, struct stat*)>( nullptr), "stat");
   return fn( path, st);
}

extern "C" int lstat( const char* path, struct stat* st)
{
   if (isSim( path)) return simStat( path, st);
   static auto  fn = real( static_cast< int (*)( const char*, struct stat*)>( nullptr), "lstat");
   return fn( path, st);
}

extern "C" int stat64( const char* path, struct stat64* st)
{
   if (isSim( path)) return simStat( path, reinterpret_cast< struct stat*>( st));
   static auto  fn = real( static_cast< int (*)( const char*, struct stat64*)>( nullptr), "stat64");
   return fn( path, st);
}

extern "C" int lstat64( const char* path, struct stat64* st)
{
   if (isSim( path)) return simStat( path, reinterpret_cast< struct stat*>( st));
   static auto  fn = real( static_cast< int (*)( const char*, struct stat64*)>( nullptr), "lstat64");
   return fn( path, st);
}

namespace {
/// fstat() on a simulated descriptor: the simulated file, not the memfd that
/// stands behind the descriptor
int simFstat( int fd, struct stat* st)
{
   World&     wd = w();
   OpenDesc&  d = wd.fds[ fd];
   countCall( ccStat, false);
   harvest( fd);
   memset( st, 0, sizeof( *st));
   st->st_mode = d.node->dir ? (S_IFDIR | 0755) : (S_IFREG | (d.node->unreadable ? 0200 : 0644));
   st->st_nlink = 1;
   st->st_size = d.node->dir ? 4096 : static_cast< off_t>( d.node->data.size());
   st->st_blksize = 4096;
   st->st_blocks = (st->st_size + 511) / 512;
   st->st_ino = static_cast< ino_t>( reinterpret_cast< uintptr_t>( d.node.get()) >> 4);
   st->st_mtime = st->st_atime = st->st_ctime = static_cast< time_t>( wd.now);
   ev( "fstat", d.path, 0, st->st_size);
   return 0;
}
}

extern "C" int fstat( int fd, struct stat* st)
{
   if (simFd( fd)) return simFstat( fd, st);
   static auto  fn = real( static_cast< int (*)( int, struct stat*)>( nullptr), "fstat");
   return fn( fd, st);
}

extern "C" int fstat64( int fd, struct stat64* st)
{
   if (simFd( fd)) return simFstat( fd, reinterpret_cast< struct stat*>( st));
   static auto  fn = real( static_cast< int (*)( int, struct stat64*)>( nullptr), "fstat64");
   return fn( fd, st);
}

extern "C" int fstatat( int dirfd, const char* path_in, struct stat* st, int flags)
{
   const AtPath  at( dirfd, path_in);
   const char*   path = at.p;
   if (isSim( path)) return simStat( path, st);
   static auto  fn = real( static_cast< int (*)( int, const char*, struct stat*, int)>( nullptr), "fstatat");
   return fn( dirfd, path, st, flags);
}

extern "C" int fstatat64( int dirfd, const char* path_in, struct stat64* st, int flags)
{
   const AtPath  at( dirfd, path_in);
   const char*   path = at.p;
   if (isSim( path)) return simStat( path, reinterpret_cast< struct stat*>( st));
   static auto  fn = real( static_cast< int (*)( int, const char*, struct stat64*, int)>( nullptr), "fstatat64");
   return fn( dirfd, path, st, flags);
}

extern "C" int access( const char* path, int mode)
{
   if (isSim( path))
   {
      struct stat  st;
      if (simStat( path, &st) != 0) return -1;
      if ((mode & R_OK) && !(st.st_mode & 0400)) { errno = EACCES; return -1; }
      return 0;
   }
   static auto  fn = real( static_cast< int (*)( const char*, int)>( nullptr), "access");
   return fn( path, mode);
}

extern "C" int fsync( int fd)
{
   if (simFd( fd)) return w().frozen ? (errno = EIO, -1) : 0;
   static auto  fn = real( static_cast< int (*)( int)>( nullptr), "fsync");
   return fn( fd);
}

extern "C" int fdatasync( int fd)
{
   if (simFd( fd)) return w().frozen ? (errno = EIO, -1) : 0;
   static auto  fn = real( static_cast< int (*)( int)>( nullptr), "fdatasync");
   return fn( fd);
}

extern "C" char* getenv( const char* name)
{
   if (g_ready)
   {
      auto  it = w().env.find( name);
      if (it != w().env.end())
         return it->second.first ? const_cast< char*>( it->second.second.c_str()) : nullptr;
   }
   static auto  fn = real( static_cast< char* (*)( const char*)>( nullptr), "getenv");
   return fn( name);
}

extern "C" time_t time( time_t* t)
{
   if (g_ready && w().clock_on)
   {
      if (t != nullptr) *t = static_cast< time_t>( w().now);
      return static_cast< time_t>( w().now);
   }
   static auto  fn = real( __interceptor_time, "time");
   return fn( t);
}

extern "C" int gettimeofday( struct timeval* tv, void* tz)
{
   if (g_ready && w().clock_on)
   {
      tv->tv_sec = static_cast< time_t>( w().now);
      tv->tv_usec = 0;
      return 0;
   }
   static auto  fn = real( reinterpret_cast< int (*)( struct timeval*, void*)>( __interceptor_gettimeofday), "gettimeofday");
   return fn( tv, tz);
}

#ifndef SIMFS_WITH_SCHED   // with the thread scheduler: its simulated clock answers clock_gettime()
extern "C" int clock_gettime( clockid_t clk, struct timespec* ts)
{
   if (g_ready && w().clock_on && clk == CLOCK_REALTIME)
   {
      ts->tv_sec = static_cast< time_t>( w().now);
      ts->tv_nsec = 0;
      return 0;
   }
   static auto  fn = real( __interceptor_clock_gettime, "clock_gettime");
   return fn( clk, ts);
}

#endif

extern "C" pid_t getpid( void)
{
   if (g_ready && w().pid > 0)
      return w().pid;
   static auto  fn = real( static_cast< pid_t (*)( void)>( nullptr), "getpid");
   return fn();
}

#ifndef SIMFS_WITH_SCHED   // no step budget in scheduler builds
// ----- process termination inside a run becomes a run outcome

namespace sim { namespace fs { std::string  g_last_assert; } }

extern "C" void exit( int code)
{
   sim::OpBudget::leave( sim::jrExit);
   static auto  fn = real( static_cast< void (*)( int)>( nullptr), "exit");
   fn( code);
   _exit( code);
}

extern "C" void __assert_fail( const char* expr, const char* file, unsigned line, const char* func)
{
   sim::fs::g_last_assert = std::string( expr ? expr : "?") + " at " + (file ? file : "?") + ":" + std::to_string( line)
      + " in " + (func ? func : "?");
   sim::OpBudget::leave( sim::jrAssert);
   fprintf( stderr, "assertion failed outside a run: %s\n", sim::fs::g_last_assert.c_str());
   _exit( 134);
}

extern "C" void abort( void)
{
   sim::OpBudget::leave( sim::jrAbort);
   static auto  fn = real( static_cast< void (*)( void)>( nullptr), "abort");
   fn();
   _exit( 134);
}
#endif
