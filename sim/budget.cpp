// Edge counter behind -fsanitize-coverage=trace-pc-guard (asan flavour).
// This file is compiled without coverage instrumentation.

#include "budget.hpp"

#include <cstdlib>

namespace sim {

namespace {
OpBudget*  g_current = nullptr;
bool       g_poisoned = false;
uint64_t   g_total = 0;
} // namespace

OpBudget::OpBudget( uint64_t limit): mLimit( limit), mPrev( g_current)
{
   g_current = this;
}

void OpBudget::disarm()
{
   if (g_current == this)
   {
      g_total += mCount;
      g_current = mPrev;
   }
}

void OpBudget::leave( int reason)
{
   OpBudget*  b = g_current;
   if (b == nullptr)
      return;
   g_total += b->mCount;
   g_current = b->mPrev;
   g_poisoned = true;
   siglongjmp( b->mEnv, reason);
}

bool OpBudget::processPoisoned() { return g_poisoned; }
uint64_t OpBudget::totalEdges() { return g_total; }

} // namespace sim

extern "C" void __sanitizer_cov_trace_pc_guard( uint32_t*)
{
   sim::OpBudget*  b = sim::g_current;
   if (b != nullptr && ++b->mCount > b->mLimit)
      sim::OpBudget::leave( sim::jrBudget);
}

extern "C" void __sanitizer_cov_trace_pc_guard_init( uint32_t* start, uint32_t* stop)
{
   static uint32_t  n = 0;
   if (start == stop || *start)
      return;
   for (uint32_t* x = start; x < stop; ++x)
      *x = ++n;
}
