#include <cassert>
#include <cstdio>
#include <cstring>
#include <dirent.h>
#include <fcntl.h>
#include <filesystem>
#include <fstream>
#include <iostream>
#include <sys/stat.h>
#include <unistd.h>
#include "sim/simfs.hpp"
namespace sfs = sim::fs;
namespace fs = std::filesystem;
#define CHECK(c) do { if (!(c)) { printf("FAILED line %d: %s (errno %d)\n", __LINE__, #c, errno); fails++; } } while (0)
int main()
{
   int fails = 0;
   sfs::reset();
   sfs::mkdirs( "/simfs/d");
   CHECK( fs::create_directories( "/simfs/d/a/b"));
   CHECK( fs::exists( "/simfs/d/a/b"));
   { std::ofstream f( "/simfs/d/a/x.0"); f << "hello\n"; }
   { std::ofstream f( "/simfs/d/a/x.1"); f << "world!\n"; }
   CHECK( fs::file_size( "/simfs/d/a/x.0") == 6);
   int n = 0; std::string names;
   for (auto const& e : fs::directory_iterator( "/simfs/d/a")) { ++n; names += e.path().filename().string() + (e.is_directory() ? "/" : "") + " "; }
   printf( "dir: %d entries: %s\n", n, names.c_str());
   CHECK( n == 3);
   fs::rename( "/simfs/d/a/x.1", "/simfs/d/a/x.2");
   CHECK( !fs::exists( "/simfs/d/a/x.1") && fs::exists( "/simfs/d/a/x.2"));
   fs::resize_file( "/simfs/d/a/x.2", 3);
   CHECK( fs::file_size( "/simfs/d/a/x.2") == 3);
   CHECK( fs::remove( "/simfs/d/a/x.2"));
   int fd = open( "/simfs/d/a/x.0", O_RDWR | O_APPEND);
   CHECK( fd >= 0);
   struct stat st; CHECK( fstat( fd, &st) == 0 && st.st_size == 6);
   CHECK( write( fd, "abc\n", 4) == 4);
   CHECK( fstat( fd, &st) == 0 && st.st_size == 10);
   char buf[ 16] = { 0 };
   CHECK( pread( fd, buf, 5, 0) == 5 && memcmp( buf, "hello", 5) == 0);
   CHECK( ftruncate( fd, 6) == 0);
   CHECK( fstat( fd, &st) == 0 && st.st_size == 6);
   close( fd);
   fd = open( "/simfs/d/a/x.0", O_WRONLY);
   CHECK( pwrite( fd, "J", 1, 0) == 1);
   close( fd);
   std::string c; sfs::getFile( "/simfs/d/a/x.0", c);
   CHECK( c == "Jello\n");
   DIR* d = opendir( "/simfs/d/a"); CHECK( d != nullptr);
   int m = 0; while (struct dirent* e = readdir( d)) { ++m; (void) e; }
   CHECK( m == 4); closedir( d);
   CHECK( fs::remove_all( "/simfs/d/a") >= 2);
   CHECK( !fs::exists( "/simfs/d/a"));
   CHECK( fs::is_empty( "/simfs/d"));
   printf( fails ? "FAIL %d\n" : "PASS\n", fails);
   return fails ? 1 : 0;
}
