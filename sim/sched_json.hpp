// Plan <-> scheduler configuration, shared by the thread harnesses (C09, C20).
#pragma once

#include <string>
#include <vector>

#include "json.hpp"
#include "prng.hpp"
#include "sched.hpp"

namespace sim {

/// draws a schedule policy for one run (swarm style)
inline Json genSchedule( Rng& rng, uint64_t points_est)
{
   Json  s = Json::object();
   s[ "seed"] = static_cast< long long>( rng.next() >> 2);
   switch (rng.below( 10))
   {
   case 0: case 1: case 2: case 3:
   {
      static const unsigned  ps[] = { 2, 4, 8, 16, 32, 64, 128, 256, 1024, 4096 };
      s[ "policy"] = "random";
      s[ "p"] = ps[ rng.below( sizeof( ps) / sizeof( ps[ 0]))];
      s[ "child_first_pct"] = static_cast< long long>( rng.below( 3) * 50);
      s[ "sync_pct"] = static_cast< long long>( rng.below( 3) * 25);
      break;
   }
   case 4: case 5: case 6: case 7:
      s[ "policy"] = "pct";
      s[ "depth"] = static_cast< long long>( 1 + rng.below( 3));
      s[ "points_est"] = static_cast< long long>( points_est);
      break;
   default:
      s[ "policy"] = "rr";
      s[ "quantum"] = static_cast< long long>( 1 + rng.below( rng.chance( 1, 2) ? 8 : 400));
      s[ "child_first_pct"] = static_cast< long long>( rng.below( 3) * 50);
      break;
   }
   return s;
}

/// keeps the script alive as long as the configuration is in use
struct ScheduleHolder
{
   SchedConfig                 cfg;
   std::vector< SwitchEntry>   script;
};

inline void scheduleFromJson( const Json& s, ScheduleHolder& h, uint64_t step_cap)
{
   const std::string&  pol = s.gets( "policy");
   h.cfg = SchedConfig();
   h.cfg.seed = static_cast< uint64_t>( s.geti( "seed", 1));
   h.cfg.step_cap = step_cap;
   if (pol == "random")
   {
      h.cfg.policy = polRandom;
      h.cfg.p = static_cast< unsigned>( s.geti( "p", 64));
      if (h.cfg.p == 0) h.cfg.p = 1;
      h.cfg.child_first_pct = static_cast< unsigned>( s.geti( "child_first_pct", 50));
      h.cfg.sync_pct = static_cast< unsigned>( s.geti( "sync_pct", 0));
   } else if (pol == "pct")
   {
      h.cfg.policy = polPct;
      h.cfg.pct_depth = static_cast< unsigned>( s.geti( "depth", 2));
      h.cfg.points_est = static_cast< uint64_t>( s.geti( "points_est", 10000));
   } else if (pol == "rr")
   {
      h.cfg.policy = polRoundRobin;
      h.cfg.quantum = static_cast< unsigned>( s.geti( "quantum", 50));
      h.cfg.child_first_pct = static_cast< unsigned>( s.geti( "child_first_pct", 50));
   } else
   {
      h.cfg.policy = polExplicit;
      const Json&  sw = s.get( "switches");
      for (size_t k = 0; k < sw.size(); ++k)
      {
         const Json&  e = sw.at( k);
         if (!e.isArr() || e.size() < 3) continue;
         h.script.push_back( SwitchEntry{ static_cast< int>( e.at( 0).i()), static_cast< uint64_t>( e.at( 1).i()),
                                          static_cast< int>( e.at( 2).i()), e.size() > 3 ? static_cast< int>( e.at( 3).i()) : 0 });
      }
      h.cfg.script = h.script.data();
      h.cfg.script_len = h.script.size();
   }
}

/// the switches that were actually executed, as an explicit schedule
inline Json explicitSchedule()
{
   size_t              n = 0;
   const SwitchEntry*  log = schedLog( &n);
   Json  s = Json::object();
   s[ "policy"] = "explicit";
   Json  sw = Json::array();
   for (size_t k = 0; k < n && k < 20000; ++k)
   {
      Json  e = Json::array();
      e.push( log[ k].from);
      e.push( log[ k].n);
      e.push( log[ k].to);
      e.push( log[ k].kind);
      sw.push( e);
   }
   s[ "switches"] = sw;
   return s;
}

} // namespace sim
