// Deterministic scheduler over real threads. See sched.hpp.
//
// COMPILED WITHOUT SANITIZERS AND WITHOUT COVERAGE INSTRUMENTATION.
// Nothing in here may call an interposed pthread function of its own.

#include "sched.hpp"

#include <atomic>
#include <cerrno>
#include <climits>
#include <cstdio>
#include <cstdlib>
#include <cstring>
#include <dlfcn.h>
#include <linux/futex.h>
#include <pthread.h>
#include <sched.h>
#include <semaphore.h>
#include <sys/syscall.h>
#include <time.h>
#include <unistd.h>

extern "C" {
int __interceptor_pthread_create( pthread_t*, const pthread_attr_t*, void* (*)( void*), void*) __attribute__(( weak));
int __interceptor_pthread_join( pthread_t, void**) __attribute__(( weak));
int __interceptor_pthread_mutex_lock( pthread_mutex_t*) __attribute__(( weak));
int __interceptor_pthread_mutex_trylock( pthread_mutex_t*) __attribute__(( weak));
int __interceptor_pthread_mutex_unlock( pthread_mutex_t*) __attribute__(( weak));
int __interceptor_usleep( useconds_t) __attribute__(( weak));
int __interceptor_nanosleep( const struct timespec*, struct timespec*) __attribute__(( weak));
}

namespace sim {

namespace {

constexpr int  kMaxThreads = 64;
constexpr int  kMaxMutexes = 256;

enum State { stFree = 0, stRunnable, stBlockedMutex, stBlockedJoin, stBlockedCond, stFinished };

struct SimThread
{
   int                 state = stFree;
   std::atomic< int>   baton{ 0 };        // 1: may run
   std::atomic< int>   registered{ 0 };   // child reached its parking place
   pthread_t           handle{};
   void*             (*start)( void*) = nullptr;
   void*               arg = nullptr;
   void*               wait_mutex = nullptr;
   int                 wait_tid = -1;
   bool                cond_timed = false;      // waiting with a time limit
   bool                cond_timed_out = false;
   int64_t             deadline_ns = 0;         // simulated time at which a timed wait expires
   uint64_t            points = 0;
   uintptr_t           stack_lo = 0, stack_hi = 0;
   long long           prio = 0;
   size_t              script_pos = 0;    // next entry of g.script_by_thread[id]
};

struct MutexRec
{
   void*  m = nullptr;
   int    owner = -1;
   int    depth = 0;
};

struct Sched
{
   std::atomic< bool>        active{ false };
   SchedConfig               cfg;
   SimThread                 t[ kMaxThreads];
   int                       nthreads = 0;
   int                       current = -1;
   MutexRec                  mtx[ kMaxMutexes];
   uint64_t                  rng[ 4];
   uint64_t                  since_switch = 0;
   int64_t                   sim_ns = 0;       // simulated clock of the threads (all clock ids)
   bool                      prio_dirty = false;
   long long                 low_water = 0;
   uint64_t                  change_points[ 8];
   size_t                    num_change = 0;
   size_t                    next_change = 0;
   size_t                    log_len = 0;
   size_t                    script_begin[ kMaxThreads + 1];
   SchedStats                st;
   void                    (*fatal_cb)( const char*, const char*) = nullptr;
};

// No heap memory and no libc memory functions in here: malloc, memcpy and
// friends are intercepted by ThreadSanitizer, which would then see scheduler
// state being touched by several threads without (visible) synchronisation.
constexpr size_t  kMaxLog = 1u << 18;
constexpr size_t  kMaxScript = 1u << 16;

Sched          g;
SwitchEntry    g_log[ kMaxLog];
SwitchEntry    g_script[ kMaxScript];
__thread int   tl_id = -1;

// ----------------------------------------------------------------- helpers

long futex( std::atomic< int>* addr, int op, int val)
{
   return syscall( SYS_futex, reinterpret_cast< int*>( addr), op, val, nullptr, nullptr, 0);
}

uint64_t rotl( uint64_t x, int k) { return (x << k) | (x >> (64 - k)); }

uint64_t rngNext()
{
   uint64_t* s = g.rng;
   const uint64_t  result = rotl( s[ 1] * 5, 7) * 9;
   const uint64_t  tt = s[ 1] << 17;
   s[ 2] ^= s[ 0]; s[ 3] ^= s[ 1]; s[ 1] ^= s[ 2]; s[ 0] ^= s[ 3];
   s[ 2] ^= tt;
   s[ 3] = rotl( s[ 3], 45);
   return result;
}

uint64_t rngBelow( uint64_t n) { return n <= 1 ? 0 : rngNext() % n; }

void rngSeed( uint64_t seed)
{
   uint64_t  x = seed;
   for (auto & w : g.rng)
   {
      uint64_t  z = (x += 0x9e3779b97f4a7c15ULL);
      z = (z ^ (z >> 30)) * 0xbf58476d1ce4e5b9ULL;
      z = (z ^ (z >> 27)) * 0x94d049bb133111ebULL;
      w = z ^ (z >> 31);
   }
}

[[noreturn]] void fatal( const char* kind, const char* detail)
{
   if (g.fatal_cb != nullptr)
      g.fatal_cb( kind, detail);
   fprintf( stderr, "sim scheduler: %s: %s\n", kind, detail);
   _exit( 79);
}

template< typename F> F realFn( F interceptor, const char* name)
{
   if (interceptor != nullptr)
      return interceptor;
   void*  sym = dlsym( RTLD_NEXT, name);
   if (sym == nullptr)
   {
      fprintf( stderr, "sim scheduler: cannot resolve %s\n", name);
      _exit( 79);
   }
   return reinterpret_cast< F>( sym);
}

void passBaton( int next)
{
   g.current = next;
   g.t[ next].baton.store( 1, std::memory_order_seq_cst);
   futex( &g.t[ next].baton, FUTEX_WAKE, 1);
}

void waitBaton( int me)
{
   while (g.t[ me].baton.load( std::memory_order_seq_cst) == 0)
      futex( &g.t[ me].baton, FUTEX_WAIT, 0);
   g.t[ me].baton.store( 0, std::memory_order_seq_cst);
}


/// random runnable thread other than `me` (-1 if none)
int randomOther( int me)
{
   int  cand[ kMaxThreads], n = 0;
   for (int k = 0; k < g.nthreads; ++k)
      if (k != me && g.t[ k].state == stRunnable) cand[ n++] = k;
   return n == 0 ? -1 : cand[ rngBelow( static_cast< uint64_t>( n))];
}

int lowestOther( int me)
{
   for (int k = 0; k < g.nthreads; ++k)
      if (k != me && g.t[ k].state == stRunnable) return k;
   return -1;
}

int nextCyclic( int me)
{
   for (int d = 1; d <= g.nthreads; ++d)
   {
      int  k = (me + d) % g.nthreads;
      if (k != me && g.t[ k].state == stRunnable) return k;
   }
   return -1;
}

int highestPrio( int me, bool include_me)
{
   int  best = -1;
   for (int k = 0; k < g.nthreads; ++k)
   {
      if (g.t[ k].state != stRunnable) continue;
      if (k == me && !include_me) continue;
      if (best < 0 || g.t[ k].prio > g.t[ best].prio) best = k;
   }
   return best;
}

/// scripted decision for thread `me` at its current local point, -2 if none
int scripted( int me)
{
   SimThread&    t = g.t[ me];
   const size_t  end = g.script_begin[ me + 1];
   while (t.script_pos < end && g_script[ t.script_pos].n < t.points)
      ++t.script_pos;
   if (t.script_pos < end && g_script[ t.script_pos].n == t.points)
      return g_script[ t.script_pos++].to;
   return -2;
}

void logSwitch( int from, int to, int kind, bool preempt)
{
   ++g.st.switches;
   if (preempt) ++g.st.preemptions;
   const uint64_t  n = g.t[ from].points;
   uint64_t        h = g.st.switch_hash ? g.st.switch_hash : 0xcbf29ce484222325ULL;
   const uint64_t  words[ 4] = { static_cast< uint64_t>( from), n, static_cast< uint64_t>( to), static_cast< uint64_t>( kind) };
   for (uint64_t w : words)
      for (int b = 0; b < 8; ++b) { h ^= (w >> (8 * b)) & 0xff; h *= 0x100000001b3ULL; }
   g.st.switch_hash = h;
   if (g.log_len < kMaxLog)
   {
      SwitchEntry&  e = g_log[ g.log_len++];
      e.from = from;
      e.n = n;
      e.to = to;
      e.kind = kind;
   }
   g.since_switch = 0;
}

/// decides who continues at a point where `me` could go on running
int choose( int me, int kind, int child)
{
   switch (g.cfg.policy)
   {
   case polExplicit:
   {
      int  to = scripted( me);
      if (to >= 0 && to < g.nthreads && to != me && g.t[ to].state == stRunnable)
         return to;
      if (kind == pkYield)
      {
         int  o = nextCyclic( me);
         return o >= 0 ? o : me;
      }
      return me;
   }
   case polRandom:
      if (kind == pkCreate)
         return (rngBelow( 100) < g.cfg.child_first_pct) ? child : me;
      if (kind == pkYield)
      {
         int  o = randomOther( me);
         return o >= 0 ? o : me;
      }
      if (kind == pkEdge)
         return me;
      if ((kind == pkLock || kind == pkUnlock) && g.cfg.sync_pct > 0)
      {
         // synchronisation calls are rare in the code under test and the
         // places where hand-offs between threads matter most
         if (rngBelow( 100) < g.cfg.sync_pct)
         {
            int  o = randomOther( me);
            return o >= 0 ? o : me;
         }
         return me;
      }
      if (rngBelow( g.cfg.p) == 0)
      {
         int  o = randomOther( me);
         return o >= 0 ? o : me;
      }
      return me;
   case polPct:
   {
      if (kind == pkYield)
      {
         g.t[ me].prio = --g.low_water;
         g.prio_dirty = true;
      }
      while (g.next_change < g.num_change && g.change_points[ g.next_change] <= g.st.points)
      {
         g.t[ me].prio = --g.low_water;
         g.prio_dirty = true;
         ++g.next_change;
      }
      if (!g.prio_dirty)
         return me;
      g.prio_dirty = false;
      int  best = highestPrio( me, true);
      return best >= 0 ? best : me;
   }
   case polRoundRobin:
      if (kind == pkCreate)
         return (rngBelow( 100) < g.cfg.child_first_pct) ? child : me;
      if (kind == pkYield || (kind != pkEdge && g.since_switch >= g.cfg.quantum))
      {
         int  o = nextCyclic( me);
         return o >= 0 ? o : me;
      }
      return me;
   }
   return me;
}

/// decides who continues when `me` cannot (blocked or finished)
int chooseAfterBlock( int me)
{
   switch (g.cfg.policy)
   {
   case polExplicit:
   {
      int  to = scripted( me);
      if (to >= 0 && to < g.nthreads && to != me && g.t[ to].state == stRunnable)
         return to;
      return lowestOther( me);
   }
   case polRandom:      return randomOther( me);
   case polPct:         return highestPrio( me, false);
   case polRoundRobin:  return nextCyclic( me);
   }
   return lowestOther( me);
}

// debugging aid: SIM_DEBUG_POINTS=<thread id> prints kind and caller of every
// point of that thread to stderr (never set by the driver)
int  g_debug_thread = -2;

void point( int kind, int child = -1)
{
   const int  me = tl_id;
   if (me < 0 || !g.active.load( std::memory_order_relaxed))
      return;
   if (g_debug_thread == -2)
   {
      const char*  e = getenv( "SIM_DEBUG_POINTS");
      g_debug_thread = e ? atoi( e) : -1;
   }
   if (g_debug_thread == me)
      fprintf( stderr, "POINT T%d #%llu kind=%d pc=%p pc2=%p\n", me, static_cast< unsigned long long>( g.t[ me].points + 1), kind,
               __builtin_return_address( 0), __builtin_return_address( 1));
   SimThread&  t = g.t[ me];
   ++t.points;
   ++g.st.points;
   ++g.since_switch;
   if (kind == pkLoad || kind == pkStore) ++g.st.mem_points;
   if (g.st.points > g.cfg.step_cap)
      fatal( "NONTERMINATION", "step cap of the scheduler exceeded (livelock or runaway loop)");
   if (g.nthreads < 2 || kind == pkEdge)
      return;
   const int  next = choose( me, kind, child);
   if (kind == pkCreate)
   {
      if (next == child) ++g.st.child_first; else ++g.st.parent_first;
   }
   if (next == me || next < 0)
      return;
   logSwitch( me, next, kind, true);
   passBaton( next);
   waitBaton( me);
}

void blockCurrent( int me, int kind)
{
   ++g.t[ me].points;
   ++g.st.points;
   int  next = chooseAfterBlock( me);
   if (next < 0)
   {
      // nothing can run: simulated time jumps to the earliest deadline of a timed wait
      int  first = -1;
      for (int k = 0; k < g.nthreads; ++k)
         if (g.t[ k].state == stBlockedCond && g.t[ k].cond_timed
             && (first < 0 || g.t[ k].deadline_ns < g.t[ first].deadline_ns))
            first = k;
      if (first >= 0)
      {
         if (g.t[ first].deadline_ns > g.sim_ns) g.sim_ns = g.t[ first].deadline_ns;
         g.t[ first].state = stRunnable;
         g.t[ first].cond_timed_out = true;
         g.t[ first].wait_mutex = nullptr;
         if (first == me) return;   // the caller itself was the timed waiter
         next = first;
      }
   }
   if (next < 0)
   {
      char  msg[ 256];
      int   off = snprintf( msg, sizeof( msg), "no runnable thread; states:");
      for (int k = 0; k < g.nthreads && off < 230; ++k)
         off += snprintf( msg + off, sizeof( msg) - static_cast< size_t>( off), " T%d=%s", k,
                          g.t[ k].state == stBlockedMutex ? "mutex" : (g.t[ k].state == stBlockedCond ? "cond" : g.t[ k].state == stBlockedJoin ? "join"
                          : (g.t[ k].state == stFinished ? "done" : "run")));
      fatal( "DEADLOCK", msg);
   }
   logSwitch( me, next, kind, false);
   passBaton( next);
   if (kind != pkExit)
      waitBaton( me);
}

MutexRec* findMutex( void* m, bool create)
{
   MutexRec*  free_slot = nullptr;
   for (auto & r : g.mtx)
   {
      if (r.m == m) return &r;
      if (r.m == nullptr && free_slot == nullptr) free_slot = &r;
   }
   if (create && free_slot != nullptr)
   {
      free_slot->m = m;
      free_slot->owner = -1;
      free_slot->depth = 0;
      return free_slot;
   }
   return nullptr;
}

void recordStack( SimThread& t)
{
   pthread_attr_t  attr;
   void*           addr = nullptr;
   size_t          size = 0;
   if (pthread_getattr_np( pthread_self(), &attr) == 0)
   {
      pthread_attr_getstack( &attr, &addr, &size);
      pthread_attr_destroy( &attr);
   }
   t.stack_lo = reinterpret_cast< uintptr_t>( addr);
   t.stack_hi = t.stack_lo + size;
}

void* trampoline( void* p)
{
   const int   id = static_cast< int>( reinterpret_cast< intptr_t>( p));
   SimThread&  t = g.t[ id];
   tl_id = id;
   recordStack( t);
   t.registered.store( 1, std::memory_order_seq_cst);
   futex( &t.registered, FUTEX_WAKE, 1);
   waitBaton( id);
   void*  result = t.start( t.arg);
   // finished: wake joiners, hand the baton on
   t.state = stFinished;
   for (int k = 0; k < g.nthreads; ++k)
      if (g.t[ k].state == stBlockedJoin && g.t[ k].wait_tid == id)
      {
         g.t[ k].state = stRunnable;
         g.prio_dirty = true;
      }
   tl_id = -1;
   blockCurrent( id, pkExit);
   return result;
}

inline void memPoint( int kind, const void* addr)
{
   const int  me = tl_id;
   if (me < 0)
      return;
   const uintptr_t  a = reinterpret_cast< uintptr_t>( addr);
   if (a >= g.t[ me].stack_lo && a < g.t[ me].stack_hi)
      return;
   point( kind);
}

} // namespace

// ------------------------------------------------------------------- API

void schedBegin( const SchedConfig& cfg)
{
   g.cfg = cfg;
   for (auto & t : g.t)
   {
      t.state = stFree;
      t.baton.store( 0);
      t.registered.store( 0);
      t.points = 0;
      t.script_pos = 0;
      t.wait_mutex = nullptr;
      t.wait_tid = -1;
   }
   for (auto & m : g.mtx)
   {
      m.m = nullptr;
      m.owner = -1;
      m.depth = 0;
   }
   // the script, grouped by the thread it speaks about (stable)
   {
      size_t  pos = 0;
      for (int t = 0; t < kMaxThreads; ++t)
      {
         g.script_begin[ t] = pos;
         g.t[ t].script_pos = pos;
         for (size_t k = 0; k < cfg.script_len && pos < kMaxScript; ++k)
            if (cfg.script[ k].from == t)
            {
               g_script[ pos].from = cfg.script[ k].from;
               g_script[ pos].n = cfg.script[ k].n;
               g_script[ pos].to = cfg.script[ k].to;
               g_script[ pos].kind = cfg.script[ k].kind;
               ++pos;
            }
      }
      g.script_begin[ kMaxThreads] = pos;
   }
   g.log_len = 0;
   g.st = SchedStats();
   g.since_switch = 0;
   g.sim_ns = 0;
   g.low_water = 0;
   g.prio_dirty = false;
   rngSeed( cfg.seed);
   g.num_change = 0;
   g.next_change = 0;
   if (cfg.policy == polPct)
   {
      for (unsigned k = 0; k < cfg.pct_depth && k < 8; ++k)
         g.change_points[ g.num_change++] = 1 + rngBelow( cfg.points_est ? cfg.points_est : 1);
      for (size_t a = 0; a < g.num_change; ++a)
         for (size_t b = a + 1; b < g.num_change; ++b)
            if (g.change_points[ b] < g.change_points[ a])
            {
               uint64_t  tmp = g.change_points[ a];
               g.change_points[ a] = g.change_points[ b];
               g.change_points[ b] = tmp;
            }
   }
   g.nthreads = 1;
   g.current = 0;
   g.t[ 0].state = stRunnable;
   g.t[ 0].handle = pthread_self();
   g.t[ 0].prio = 1000 + static_cast< long long>( rngBelow( 1000));
   recordStack( g.t[ 0]);
   tl_id = 0;
   g.active.store( true);
}

void schedEnd( SchedStats* stats)
{
   g.active.store( false);
   tl_id = -1;
   g.st.threads = static_cast< uint64_t>( g.nthreads);
   if (stats != nullptr)
      *stats = g.st;
}

bool schedActive() { return g.active.load(); }
int schedSelf() { return g.active.load() ? tl_id : -1; }
void schedYield() { point( pkYield); }

const SwitchEntry* schedLog( size_t* len)
{
   *len = g.log_len;
   return g_log;
}

void schedSetFatal( void (*cb)( const char*, const char*)) { g.fatal_cb = cb; }

} // namespace sim

// ------------------------------------------------------ interposed symbols

using namespace sim;

extern "C" int pthread_create( pthread_t* thread, const pthread_attr_t* attr, void* (*start)( void*), void* arg)
{
   static decltype( &__interceptor_pthread_create)  real = nullptr;
   if (real == nullptr) real = realFn( &__interceptor_pthread_create, "pthread_create");
   const int    me = tl_id;
   if (me < 0 || !g.active.load())
      return real( thread, attr, start, arg);
   if (g.nthreads >= kMaxThreads)
      fatal( "INFRA", "too many simulated threads");
   const int   id = g.nthreads;
   SimThread&  t = g.t[ id];
   t.state = stRunnable;
   t.start = start;
   t.arg = arg;
   t.points = 0;
   t.prio = 1000 + static_cast< long long>( rngBelow( 1000));
   t.registered.store( 0);
   t.baton.store( 0);
   ++g.nthreads;
   g.prio_dirty = true;
   const int  rc = real( thread, attr, &trampoline, reinterpret_cast< void*>( static_cast< intptr_t>( id)));
   if (rc != 0)
   {
      --g.nthreads;
      t.state = stFree;
      return rc;
   }
   t.handle = *thread;
   while (t.registered.load( std::memory_order_seq_cst) == 0)
      futex( &t.registered, FUTEX_WAIT, 0);
   point( pkCreate, id);
   return 0;
}

extern "C" int pthread_join( pthread_t thread, void** retval)
{
   static decltype( &__interceptor_pthread_join)  real = nullptr;
   if (real == nullptr) real = realFn( &__interceptor_pthread_join, "pthread_join");
   const int    me = tl_id;
   if (me >= 0 && g.active.load())
   {
      int  target = -1;
      for (int k = 0; k < g.nthreads; ++k)
         if (k != me && g.t[ k].state != stFree && pthread_equal( g.t[ k].handle, thread))
            target = k;
      if (target >= 0)
      {
         point( pkJoin);
         if (g.t[ target].state != stFinished)
         {
            ++g.st.blocked_join;
            g.t[ me].state = stBlockedJoin;
            g.t[ me].wait_tid = target;
            blockCurrent( me, pkBlock);
         }
      }
   }
   return real( thread, retval);
}

extern "C" int pthread_mutex_lock( pthread_mutex_t* m)
{
   static decltype( &__interceptor_pthread_mutex_lock)  real = nullptr;
   if (real == nullptr) real = realFn( &__interceptor_pthread_mutex_lock, "pthread_mutex_lock");
   const int    me = tl_id;
   if (me < 0 || !g.active.load())
      return real( m);
   point( pkLock);
   MutexRec*  r;
   for (;;)
   {
      // looked up again after every wait: the record is recycled on unlock
      r = findMutex( m, true);
      if (r == nullptr)
         fatal( "INFRA", "mutex table full");
      if (r->owner == me && (m->__data.__kind & 3) != PTHREAD_MUTEX_RECURSIVE_NP)
         fatal( "DEADLOCK", "a thread locks a non-recursive mutex that it already holds");
      if (r->owner < 0 || r->owner == me)
         break;
      ++g.st.blocked_lock;
      g.t[ me].state = stBlockedMutex;
      g.t[ me].wait_mutex = m;
      blockCurrent( me, pkBlock);
   }
   r->owner = me;
   ++r->depth;
   return real( m);
}

extern "C" int pthread_mutex_trylock( pthread_mutex_t* m)
{
   static decltype( &__interceptor_pthread_mutex_trylock)  real = nullptr;
   if (real == nullptr) real = realFn( &__interceptor_pthread_mutex_trylock, "pthread_mutex_trylock");
   const int    me = tl_id;
   if (me < 0 || !g.active.load())
      return real( m);
   point( pkLock);
   MutexRec*  r = findMutex( m, true);
   if (r == nullptr)
      fatal( "INFRA", "mutex table full");
   if (r->owner >= 0 && r->owner != me)
      return EBUSY;
   const int  rc = real( m);
   if (rc == 0)
   {
      r->owner = me;
      ++r->depth;
   }
   return rc;
}

namespace {

/// unlock inside the simulation; with_point = false for the atomic
/// "release the mutex and wait" of a condition variable
int simUnlock( pthread_mutex_t* m, bool with_point)
{
   static decltype( &__interceptor_pthread_mutex_unlock)  real = nullptr;
   if (real == nullptr) real = realFn( &__interceptor_pthread_mutex_unlock, "pthread_mutex_unlock");
   const int    me = tl_id;
   if (me < 0 || !g.active.load())
      return real( m);
   const int  rc = real( m);
   MutexRec*  r = findMutex( m, false);
   if (r != nullptr && r->owner == me)
   {
      if (--r->depth <= 0)
      {
         r->owner = -1;
         r->depth = 0;
         r->m = nullptr;
         for (int k = 0; k < g.nthreads; ++k)
            if (g.t[ k].state == stBlockedMutex && g.t[ k].wait_mutex == m)
            {
               g.t[ k].state = stRunnable;
               g.t[ k].wait_mutex = nullptr;
               g.prio_dirty = true;
            }
      }
   }
   if (with_point) point( pkUnlock);
   return rc;
}

} // namespace

extern "C" int pthread_mutex_unlock( pthread_mutex_t* m)
{
   return simUnlock( m, true);
}

// ----- timed mutex lock: as lock (a waiter that can never get the mutex is a
// deadlock, as it would be after the time limit in real life)

extern "C" int pthread_mutex_timedlock( pthread_mutex_t* m, const struct timespec*)
{
   return pthread_mutex_lock( m);
}

extern "C" int pthread_mutex_clocklock( pthread_mutex_t* m, clockid_t, const struct timespec*)
{
   return pthread_mutex_lock( m);
}

// ----- spin locks and POSIX semaphores: the real object is only ever tried,
// never waited for (the owner may be parked); a failed attempt is a yield

extern "C" {
int __interceptor_pthread_spin_lock( pthread_spinlock_t*) __attribute__(( weak));
int __interceptor_pthread_spin_trylock( pthread_spinlock_t*) __attribute__(( weak));
int __interceptor_pthread_spin_unlock( pthread_spinlock_t*) __attribute__(( weak));
int __interceptor_sem_wait( sem_t*) __attribute__(( weak));
int __interceptor_sem_trywait( sem_t*) __attribute__(( weak));
int __interceptor_sem_timedwait( sem_t*, const struct timespec*) __attribute__(( weak));
int __interceptor_sem_post( sem_t*) __attribute__(( weak));
}

extern "C" int pthread_spin_lock( pthread_spinlock_t* l)
{
   static decltype( &__interceptor_pthread_spin_lock)  real = nullptr;
   static decltype( &__interceptor_pthread_spin_trylock)  real_try = nullptr;
   if (real == nullptr) real = realFn( &__interceptor_pthread_spin_lock, "pthread_spin_lock");
   if (real_try == nullptr) real_try = realFn( &__interceptor_pthread_spin_trylock, "pthread_spin_trylock");
   if (tl_id < 0 || !g.active.load())
      return real( l);
   point( pkLock);
   for (;;)
   {
      const int  rc = real_try( l);
      if (rc != EBUSY)
         return rc;
      ++g.st.blocked_lock;
      point( pkYield);
   }
}

extern "C" int pthread_spin_trylock( pthread_spinlock_t* l)
{
   static decltype( &__interceptor_pthread_spin_trylock)  real = nullptr;
   if (real == nullptr) real = realFn( &__interceptor_pthread_spin_trylock, "pthread_spin_trylock");
   point( pkLock);
   return real( l);
}

extern "C" int pthread_spin_unlock( pthread_spinlock_t* l)
{
   static decltype( &__interceptor_pthread_spin_unlock)  real = nullptr;
   if (real == nullptr) real = realFn( &__interceptor_pthread_spin_unlock, "pthread_spin_unlock");
   const int  rc = real( l);
   point( pkUnlock);
   return rc;
}

extern "C" int sem_wait( sem_t* s)
{
   static decltype( &__interceptor_sem_wait)  real = nullptr;
   static decltype( &__interceptor_sem_trywait)  real_try = nullptr;
   if (real == nullptr) real = realFn( &__interceptor_sem_wait, "sem_wait");
   if (real_try == nullptr) real_try = realFn( &__interceptor_sem_trywait, "sem_trywait");
   if (tl_id < 0 || !g.active.load())
      return real( s);
   point( pkLock);
   for (;;)
   {
      if (real_try( s) == 0)
         return 0;
      if (errno != EAGAIN)
         return -1;
      ++g.st.blocked_lock;
      point( pkYield);
   }
}

extern "C" int sem_timedwait( sem_t* s, const struct timespec*)
{
   // as sem_wait: a post that never comes ends at the step cap
   return sem_wait( s);
}

extern "C" int sem_trywait( sem_t* s)
{
   static decltype( &__interceptor_sem_trywait)  real = nullptr;
   if (real == nullptr) real = realFn( &__interceptor_sem_trywait, "sem_trywait");
   point( pkLock);
   return real( s);
}

extern "C" int sem_post( sem_t* s)
{
   static decltype( &__interceptor_sem_post)  real = nullptr;
   if (real == nullptr) real = realFn( &__interceptor_sem_post, "sem_post");
   const int  rc = real( s);
   point( pkUnlock);
   return rc;
}

// ----- reader/writer locks (std::shared_mutex)

extern "C" {
int __interceptor_pthread_rwlock_rdlock( pthread_rwlock_t*) __attribute__(( weak));
int __interceptor_pthread_rwlock_wrlock( pthread_rwlock_t*) __attribute__(( weak));
int __interceptor_pthread_rwlock_tryrdlock( pthread_rwlock_t*) __attribute__(( weak));
int __interceptor_pthread_rwlock_trywrlock( pthread_rwlock_t*) __attribute__(( weak));
int __interceptor_pthread_rwlock_unlock( pthread_rwlock_t*) __attribute__(( weak));
}

namespace {

constexpr int  kMaxRwLocks = 64;
struct RwRec { void* l = nullptr; int writer = -1; int readers = 0; }  g_rw[ kMaxRwLocks];

RwRec* findRw( void* l, bool create)
{
   RwRec*  free_slot = nullptr;
   for (auto & r : g_rw)
   {
      if (r.l == l) return &r;
      if (r.l == nullptr && free_slot == nullptr) free_slot = &r;
   }
   if (create && free_slot != nullptr)
   {
      free_slot->l = l;
      free_slot->writer = -1;
      free_slot->readers = 0;
   }
   return create ? free_slot : nullptr;
}

/// exclusive = writer lock; try_only: do not wait. Returns 0 or EBUSY.
int simRwAcquire( pthread_rwlock_t* l, bool exclusive, bool try_only)
{
   const int  me = tl_id;
   point( pkLock);
   for (;;)
   {
      RwRec*  r = findRw( l, true);
      if (r == nullptr)
         fatal( "INFRA", "reader/writer lock table full");
      const bool  free_for_me = exclusive ? (r->writer < 0 && r->readers == 0) : (r->writer < 0);
      if (free_for_me)
      {
         if (exclusive) r->writer = me; else ++r->readers;
         return 0;
      }
      if (r->writer == me)
         fatal( "DEADLOCK", "a thread locks a reader/writer lock that it already holds exclusively");
      if (try_only)
         return EBUSY;
      ++g.st.blocked_lock;
      g.t[ me].state = stBlockedMutex;
      g.t[ me].wait_mutex = l;
      blockCurrent( me, pkBlock);
   }
}

} // namespace

extern "C" int pthread_rwlock_rdlock( pthread_rwlock_t* l)
{
   static decltype( &__interceptor_pthread_rwlock_rdlock)  real = nullptr;
   if (real == nullptr) real = realFn( &__interceptor_pthread_rwlock_rdlock, "pthread_rwlock_rdlock");
   if (tl_id < 0 || !g.active.load()) return real( l);
   simRwAcquire( l, false, false);
   return real( l);
}

extern "C" int pthread_rwlock_wrlock( pthread_rwlock_t* l)
{
   static decltype( &__interceptor_pthread_rwlock_wrlock)  real = nullptr;
   if (real == nullptr) real = realFn( &__interceptor_pthread_rwlock_wrlock, "pthread_rwlock_wrlock");
   if (tl_id < 0 || !g.active.load()) return real( l);
   simRwAcquire( l, true, false);
   return real( l);
}

extern "C" int pthread_rwlock_tryrdlock( pthread_rwlock_t* l)
{
   static decltype( &__interceptor_pthread_rwlock_tryrdlock)  real = nullptr;
   if (real == nullptr) real = realFn( &__interceptor_pthread_rwlock_tryrdlock, "pthread_rwlock_tryrdlock");
   if (tl_id < 0 || !g.active.load()) return real( l);
   if (simRwAcquire( l, false, true) != 0) return EBUSY;
   return real( l);
}

extern "C" int pthread_rwlock_trywrlock( pthread_rwlock_t* l)
{
   static decltype( &__interceptor_pthread_rwlock_trywrlock)  real = nullptr;
   if (real == nullptr) real = realFn( &__interceptor_pthread_rwlock_trywrlock, "pthread_rwlock_trywrlock");
   if (tl_id < 0 || !g.active.load()) return real( l);
   if (simRwAcquire( l, true, true) != 0) return EBUSY;
   return real( l);
}

extern "C" int pthread_rwlock_unlock( pthread_rwlock_t* l)
{
   static decltype( &__interceptor_pthread_rwlock_unlock)  real = nullptr;
   if (real == nullptr) real = realFn( &__interceptor_pthread_rwlock_unlock, "pthread_rwlock_unlock");
   const int  me = tl_id;
   if (me < 0 || !g.active.load()) return real( l);
   const int  rc = real( l);
   if (RwRec* r = findRw( l, false))
   {
      if (r->writer == me) r->writer = -1;
      else if (r->readers > 0) --r->readers;
      if (r->writer < 0 && r->readers == 0) r->l = nullptr;
      for (int k = 0; k < g.nthreads; ++k)
         if (g.t[ k].state == stBlockedMutex && g.t[ k].wait_mutex == l)
         {
            g.t[ k].state = stRunnable;
            g.t[ k].wait_mutex = nullptr;
            g.prio_dirty = true;
         }
   }
   point( pkUnlock);
   return rc;
}

// ----- one-time initialisation: pthread_once (std::call_once) and the guards
// of function-local statics. The real implementations block in the kernel
// while another thread runs the initialiser; under this scheduler that thread
// may be parked, so the waiting has to happen here. ThreadSanitizer's own
// guard functions are replaced (the link of the tsan flavour allows multiple
// definitions, this object comes first); the happens-before edge they model
// is kept with __tsan_release / __tsan_acquire.

extern "C" {
void __tsan_acquire( void* addr) __attribute__(( weak));
void __tsan_release( void* addr) __attribute__(( weak));
}

namespace {

/// waits until nobody initialises the object at `what` any more
void waitForInit( void* what)
{
   const int  me = tl_id;
   if (me >= 0 && g.active.load())
   {
      ++g.st.blocked_lock;
      g.t[ me].state = stBlockedMutex;
      g.t[ me].wait_mutex = what;
      blockCurrent( me, pkBlock);
   } else
      syscall( SYS_sched_yield);
}

void wakeInitWaiters( void* what)
{
   if (!g.active.load())
      return;
   for (int k = 0; k < g.nthreads; ++k)
      if (g.t[ k].state == stBlockedMutex && g.t[ k].wait_mutex == what)
      {
         g.t[ k].state = stRunnable;
         g.t[ k].wait_mutex = nullptr;
         g.prio_dirty = true;
      }
}

} // namespace

// The guard functions are reached through the linker's --wrap: references in
// the objects of the harness and of the library go to __wrap_*, the runtime's
// own implementation (ThreadSanitizer's, which also models the happens-before
// edge) stays available as __real_*. Here only the waiting is taken over: a
// thread never enters the real function while another simulated thread is
// inside the initialiser of the same object.

extern "C" {
int __real___cxa_guard_acquire( uint64_t* guard);
void __real___cxa_guard_release( uint64_t* guard);
void __real___cxa_guard_abort( uint64_t* guard);
}

namespace {

constexpr int  kMaxGuards = 64;
struct GuardRec { void* g = nullptr; int owner = -1; }  g_guards[ kMaxGuards];

GuardRec* findGuard( void* guard, bool create)
{
   GuardRec*  free_slot = nullptr;
   for (auto & r : g_guards)
   {
      if (r.g == guard) return &r;
      if (r.g == nullptr && free_slot == nullptr) free_slot = &r;
   }
   if (create && free_slot != nullptr)
   {
      free_slot->g = guard;
      free_slot->owner = -1;
   }
   return create ? free_slot : nullptr;
}

} // namespace

extern "C" int __wrap___cxa_guard_acquire( uint64_t* guard)
{
   const int  me = tl_id;
   if (me < 0 || !g.active.load())
      return __real___cxa_guard_acquire( guard);
   // (no schedule point of its own: the compiler calls this function only
   // while the object is not initialised yet, i.e. once per process; a point
   // here would make the first run of a process differ from the later ones)
   for (;;)
   {
      GuardRec*  r = findGuard( guard, false);
      if (r == nullptr || r->owner < 0 || r->owner == me)
         break;
      waitForInit( guard);
   }
   const int  rc = __real___cxa_guard_acquire( guard);
   if (rc != 0)
   {
      GuardRec*  r = findGuard( guard, true);
      if (r == nullptr)
         fatal( "INFRA", "guard table full");
      r->owner = me;
   }
   return rc;
}

extern "C" void __wrap___cxa_guard_release( uint64_t* guard)
{
   __real___cxa_guard_release( guard);
   if (tl_id >= 0 && g.active.load())
   {
      if (GuardRec* r = findGuard( guard, false)) { r->g = nullptr; r->owner = -1; }
      wakeInitWaiters( guard);
   }
}

extern "C" void __wrap___cxa_guard_abort( uint64_t* guard)
{
   __real___cxa_guard_abort( guard);
   if (tl_id >= 0 && g.active.load())
   {
      if (GuardRec* r = findGuard( guard, false)) { r->g = nullptr; r->owner = -1; }
      wakeInitWaiters( guard);
   }
}

extern "C" int pthread_once( pthread_once_t* once, void (*init)( void))
{
   // glibc: 0 = not started, 2 = done; 1 is used here for "in progress"
   int*  state = reinterpret_cast< int*>( once);
   point( pkLock);
   for (;;)
   {
      const int  cur = __atomic_load_n( state, __ATOMIC_ACQUIRE);
      if (cur == 2)
      {
         if (__tsan_acquire != nullptr) __tsan_acquire( once);
         point( pkUnlock);   // the same points whether the routine ran here or earlier
         return 0;
      }
      int  expected = 0;
      if (cur == 0 && __atomic_compare_exchange_n( state, &expected, 1, false, __ATOMIC_ACQ_REL, __ATOMIC_ACQUIRE))
      {
         // an initialiser that leaves by an exception makes the call "not done":
         // the next caller runs it again
         struct Reset
         {
            int*   st;
            void*  what;
            bool   done;
            ~Reset()
            {
               if (!done)
               {
                  __atomic_store_n( st, 0, __ATOMIC_RELEASE);
                  wakeInitWaiters( what);
               }
            }
         }  reset{ state, once, false};
         init();
         reset.done = true;
         if (__tsan_release != nullptr) __tsan_release( once);
         __atomic_store_n( state, 2, __ATOMIC_RELEASE);
         wakeInitWaiters( once);
         point( pkUnlock);
         return 0;
      }
      waitForInit( once);
   }
}

// ----- condition variables. No real waiting: the simulated thread releases
// the mutex, is marked as waiting for the condition and hands the baton on;
// signal/broadcast make waiters runnable, which then take the mutex again.
// The mutex operations go through the interposed functions above (and from
// there to ThreadSanitizer's interceptors), which is where the happens-before
// edges of a correctly used condition variable come from.

namespace {

int condWait( pthread_cond_t* c, pthread_mutex_t* m, bool timed, const struct timespec* ts = nullptr)
{
   const int  me = tl_id;
   // waiting first, then the mutex goes (without a schedule point): nobody can
   // signal between the two
   g.t[ me].state = stBlockedCond;
   g.t[ me].wait_mutex = c;
   g.t[ me].cond_timed = timed;
   g.t[ me].cond_timed_out = false;
   g.t[ me].deadline_ns = (ts != nullptr) ? (static_cast< int64_t>( ts->tv_sec) - 1700000000LL) * 1000000000LL + ts->tv_nsec : g.sim_ns;
   simUnlock( m, false);
   ++g.st.blocked_lock;
   blockCurrent( me, pkBlock);
   g.t[ me].state = stRunnable;
   const bool  timed_out = g.t[ me].cond_timed_out;
   g.t[ me].cond_timed = false;
   g.t[ me].cond_timed_out = false;
   pthread_mutex_lock( m);
   return timed_out ? ETIMEDOUT : 0;
}

void condWake( pthread_cond_t* c, bool all)
{
   for (int k = 0; k < g.nthreads; ++k)
      if (g.t[ k].state == stBlockedCond && g.t[ k].wait_mutex == c)
      {
         g.t[ k].state = stRunnable;
         g.t[ k].wait_mutex = nullptr;
         g.prio_dirty = true;
         if (!all) break;
      }
}

} // namespace

extern "C" int pthread_cond_wait( pthread_cond_t* c, pthread_mutex_t* m)
{
   if (tl_id >= 0 && g.active.load())
      return condWait( c, m, false);
   static decltype( &pthread_cond_wait)  real = nullptr;
   if (real == nullptr) real = reinterpret_cast< decltype( real)>( dlsym( RTLD_NEXT, "pthread_cond_wait"));
   return real( c, m);
}

extern "C" int pthread_cond_timedwait( pthread_cond_t* c, pthread_mutex_t* m, const struct timespec* ts)
{
   if (tl_id >= 0 && g.active.load())
      return condWait( c, m, true, ts);
   static decltype( &pthread_cond_timedwait)  real = nullptr;
   if (real == nullptr) real = reinterpret_cast< decltype( real)>( dlsym( RTLD_NEXT, "pthread_cond_timedwait"));
   return real( c, m, ts);
}

extern "C" int pthread_cond_clockwait( pthread_cond_t* c, pthread_mutex_t* m, clockid_t clk, const struct timespec* ts)
{
   if (tl_id >= 0 && g.active.load())
      return condWait( c, m, true, ts);
   static decltype( &pthread_cond_clockwait)  real = nullptr;
   if (real == nullptr) real = reinterpret_cast< decltype( real)>( dlsym( RTLD_NEXT, "pthread_cond_clockwait"));
   return real( c, m, clk, ts);
}

extern "C" int pthread_cond_signal( pthread_cond_t* c)
{
   if (tl_id >= 0 && g.active.load())
   {
      condWake( c, false);
      point( pkUnlock);
      return 0;
   }
   static decltype( &pthread_cond_signal)  real = nullptr;
   if (real == nullptr) real = reinterpret_cast< decltype( real)>( dlsym( RTLD_NEXT, "pthread_cond_signal"));
   return real( c);
}

extern "C" int pthread_cond_broadcast( pthread_cond_t* c)
{
   if (tl_id >= 0 && g.active.load())
   {
      condWake( c, true);
      point( pkUnlock);
      return 0;
   }
   static decltype( &pthread_cond_broadcast)  real = nullptr;
   if (real == nullptr) real = reinterpret_cast< decltype( real)>( dlsym( RTLD_NEXT, "pthread_cond_broadcast"));
   return real( c);
}

extern "C" int sched_yield( void)
{
   if (tl_id >= 0 && g.active.load())
   {
      point( pkYield);
      return 0;
   }
   return static_cast< int>( syscall( SYS_sched_yield));
}

extern "C" int usleep( useconds_t usec)
{
   if (tl_id >= 0 && g.active.load())
   {
      g.sim_ns += static_cast< int64_t>( usec) * 1000;
      point( pkYield);
      return 0;
   }
   static decltype( &__interceptor_usleep)  real = nullptr;
   if (real == nullptr) real = realFn( &__interceptor_usleep, "usleep");
   return real( usec);
}

extern "C" int nanosleep( const struct timespec* req, struct timespec* rem)
{
   if (tl_id >= 0 && g.active.load())
   {
      if (req != nullptr) g.sim_ns += static_cast< int64_t>( req->tv_sec) * 1000000000LL + req->tv_nsec;
      point( pkYield);
      return 0;
   }
   static decltype( &__interceptor_nanosleep)  real = nullptr;
   if (real == nullptr) real = realFn( &__interceptor_nanosleep, "nanosleep");
   return real( req, rem);
}

extern "C" int clock_nanosleep( clockid_t clk, int flags, const struct timespec* req, struct timespec* rem)
{
   if (tl_id >= 0 && g.active.load())
   {
      if (req != nullptr)
      {
         const int64_t  v = static_cast< int64_t>( req->tv_sec) * 1000000000LL + req->tv_nsec;
         if (flags & TIMER_ABSTIME) { if (v - 1700000000LL * 1000000000LL > g.sim_ns) g.sim_ns = v - 1700000000LL * 1000000000LL; }
         else g.sim_ns += v;
      }
      point( pkYield);
      return 0;
   }
   return syscall( SYS_clock_nanosleep, clk, flags, req, rem) == 0 ? 0 : errno;
}

// the clock the simulated threads see: stands still except where a sleep or an
// expired timed wait moves it (deadlines computed by the code under test and
// the time-outs delivered by this scheduler are then consistent)
extern "C" int clock_gettime( clockid_t clk, struct timespec* ts)
{
   if (tl_id >= 0 && g.active.load() && ts != nullptr)
   {
      ts->tv_sec = static_cast< time_t>( 1700000000 + g.sim_ns / 1000000000LL);
      ts->tv_nsec = static_cast< long>( g.sim_ns % 1000000000LL);
      return 0;
   }
   return static_cast< int>( syscall( SYS_clock_gettime, clk, ts));
}

// ------------------------------------------- compiler-inserted call-backs

extern "C" void __sanitizer_cov_trace_pc_guard( uint32_t*)
{
   if (tl_id >= 0)
      point( pkEdge);
}

extern "C" void __sanitizer_cov_trace_pc_guard_init( uint32_t* start, uint32_t* stop)
{
   static uint32_t  n = 0;
   if (start == stop || *start)
      return;
   for (uint32_t* x = start; x < stop; ++x)
      *x = ++n;
}

extern "C" void __sanitizer_cov_load1( uint8_t* a) { memPoint( pkLoad, a); }
extern "C" void __sanitizer_cov_load2( uint16_t* a) { memPoint( pkLoad, a); }
extern "C" void __sanitizer_cov_load4( uint32_t* a) { memPoint( pkLoad, a); }
extern "C" void __sanitizer_cov_load8( uint64_t* a) { memPoint( pkLoad, a); }
extern "C" void __sanitizer_cov_load16( __uint128_t* a) { memPoint( pkLoad, a); }
extern "C" void __sanitizer_cov_store1( uint8_t* a) { memPoint( pkStore, a); }
extern "C" void __sanitizer_cov_store2( uint16_t* a) { memPoint( pkStore, a); }
extern "C" void __sanitizer_cov_store4( uint32_t* a) { memPoint( pkStore, a); }
extern "C" void __sanitizer_cov_store8( uint64_t* a) { memPoint( pkStore, a); }
extern "C" void __sanitizer_cov_store16( __uint128_t* a) { memPoint( pkStore, a); }
