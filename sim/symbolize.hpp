// In-process symbolisation through the sanitizer runtime (needs
// ASAN_/TSAN_SYMBOLIZER_PATH or llvm-symbolizer in PATH; set by the driver).
#pragma once

#include <cstring>
#include <string>

extern "C" void __sanitizer_symbolize_pc( void* pc, const char* fmt, char* out_buf, size_t out_buf_size);

namespace sim {

inline std::string symbolizePc( void* pc)
{
   if (pc == nullptr)
      return "?";
   // inlined frames arrive as consecutive NUL terminated strings, innermost
   // first; prefer the innermost frame that lies in Celma's sources
   char  buf[ 4096];
   memset( buf, 0, sizeof( buf));
   __sanitizer_symbolize_pc( pc, "%f %s:%l", buf, sizeof( buf) - 2);
   std::string  s( buf);
   for (const char* f = buf; *f != '\0' && f < buf + sizeof( buf) - 2; f += strlen( f) + 1)
      if (strstr( f, "/celma/") != nullptr)
      {
         s = f;
         break;
      }
   // keep the path relative to the repository so that signatures are stable
   const char* const  prefixes[] = { "/repo/", "/verif/" };
   for (const char* pre : prefixes)
   {
      size_t  pos;
      while ((pos = s.find( pre)) != std::string::npos)
         s.erase( pos, strlen( pre));
   }
   if (s.size() > 300) s.resize( 300);
   return s;
}

/// the innermost frame; if that is a libc/sanitizer routine (memcpy, operator
/// delete, ...) the first caller with a known source position is added
inline std::string symbolizeAccess( void* const* pcs, int n)
{
   std::string  first = symbolizePc( n > 0 ? pcs[ 0] : nullptr);
   if (first.find( "<null>") == std::string::npos && first.find( "__interceptor") == std::string::npos
       && first.find( "tsan_glue") == std::string::npos)
      return first;
   for (int k = 1; k < n; ++k)
   {
      if (pcs[ k] == nullptr) break;
      // return addresses: the call is one instruction before
      std::string  s = symbolizePc( static_cast< char*>( pcs[ k]) - 1);
      if (s.find( "<null>") == std::string::npos && s.find( "__interceptor") == std::string::npos
          && s.find( "tsan_glue") == std::string::npos)
         return first.substr( 0, first.find( ' ')) + " called from " + s;
   }
   return first;
}

} // namespace sim
