// Minimal JSON value, parser and printer for plans, results and statistics.
// Objects keep insertion order so that printing is deterministic.
#pragma once

#include <cstdint>
#include <cstdio>
#include <cstdlib>
#include <stdexcept>
#include <string>
#include <utility>
#include <vector>

namespace sim {

class Json
{
public:
   enum class Type { Null, Bool, Int, Str, Arr, Obj };

   Json(): mType( Type::Null) {}
   Json( bool b): mType( Type::Bool), mInt( b ? 1 : 0) {}
   Json( int v): mType( Type::Int), mInt( v) {}
   Json( unsigned v): mType( Type::Int), mInt( v) {}
   Json( long v): mType( Type::Int), mInt( v) {}
   Json( long long v): mType( Type::Int), mInt( v) {}
   Json( unsigned long v): mType( Type::Int), mInt( static_cast< long long>( v)) {}
   Json( unsigned long long v): mType( Type::Int), mInt( static_cast< long long>( v)) {}
   Json( const char* s): mType( Type::Str), mStr( s) {}
   Json( const std::string& s): mType( Type::Str), mStr( s) {}

   static Json array() { Json j; j.mType = Type::Arr; return j; }
   static Json object() { Json j; j.mType = Type::Obj; return j; }

   Type type() const { return mType; }
   bool isNull() const { return mType == Type::Null; }
   bool isObj() const { return mType == Type::Obj; }
   bool isArr() const { return mType == Type::Arr; }
   bool isStr() const { return mType == Type::Str; }
   bool isInt() const { return mType == Type::Int || mType == Type::Bool; }

   long long i() const
   {
      if (mType != Type::Int && mType != Type::Bool)
         throw std::runtime_error( "json: not an integer");
      return mInt;
   }
   bool b() const { return i() != 0; }
   const std::string& s() const
   {
      if (mType != Type::Str)
         throw std::runtime_error( "json: not a string");
      return mStr;
   }

   // arrays
   size_t size() const { return mType == Type::Obj ? mObj.size() : mArr.size(); }
   Json& push( Json v)
   {
      if (mType == Type::Null) mType = Type::Arr;
      mArr.push_back( std::move( v));
      return mArr.back();
   }
   const Json& at( size_t idx) const { return mArr.at( idx); }
   Json& at( size_t idx) { return mArr.at( idx); }
   const std::vector< Json>& arr() const { return mArr; }
   std::vector< Json>& arr() { return mArr; }

   // objects
   bool has( const char* k) const
   {
      for (auto const& kv : mObj) if (kv.first == k) return true;
      return false;
   }
   Json& operator []( const char* k)
   {
      if (mType == Type::Null) mType = Type::Obj;
      for (auto & kv : mObj) if (kv.first == k) return kv.second;
      mObj.emplace_back( k, Json());
      return mObj.back().second;
   }
   Json& operator []( const std::string& k) { return (*this)[ k.c_str()]; }
   const Json& get( const char* k) const
   {
      for (auto const& kv : mObj) if (kv.first == k) return kv.second;
      static const Json  null_value;
      return null_value;
   }
   long long geti( const char* k, long long def = 0) const
   {
      const Json&  v = get( k);
      return v.isInt() ? v.i() : def;
   }
   /// string member, empty string if absent (no copy)
   const std::string& gets( const char* k) const
   {
      static const std::string  empty;
      const Json&  v = get( k);
      return v.isStr() ? v.mStr : empty;
   }
   bool is( const char* k, const char* value) const { return gets( k) == value; }
   const std::vector< std::pair< std::string, Json>>& obj() const { return mObj; }

   // byte strings: every byte is kept (plans contain arbitrary bytes); bytes
   // outside printable ASCII are written as \u00XX and read back as one byte
   static void dumpString( std::string& out, const std::string& s)
   {
      out.push_back( '"');
      for (unsigned char c : s)
      {
         if (c == '"') out += "\\\"";
         else if (c == '\\') out += "\\\\";
         else if (c == '\n') out += "\\n";
         else if (c == '\t') out += "\\t";
         else if (c < 0x20 || c >= 0x7f)
         {
            char  buf[ 8];
            snprintf( buf, sizeof( buf), "\\u%04x", c);
            out += buf;
         } else
            out.push_back( static_cast< char>( c));
      }
      out.push_back( '"');
   }

   void dump( std::string& out) const
   {
      switch (mType)
      {
      case Type::Null: out += "null"; break;
      case Type::Bool: out += mInt ? "true" : "false"; break;
      case Type::Int:  out += std::to_string( mInt); break;
      case Type::Str:  dumpString( out, mStr); break;
      case Type::Arr:
         out.push_back( '[');
         for (size_t k = 0; k < mArr.size(); ++k)
         {
            if (k) out.push_back( ',');
            mArr[ k].dump( out);
         }
         out.push_back( ']');
         break;
      case Type::Obj:
         out.push_back( '{');
         for (size_t k = 0; k < mObj.size(); ++k)
         {
            if (k) out.push_back( ',');
            dumpString( out, mObj[ k].first);
            out.push_back( ':');
            mObj[ k].second.dump( out);
         }
         out.push_back( '}');
         break;
      }
   }
   std::string dump() const { std::string s; dump( s); return s; }

   static Json parse( const std::string& text)
   {
      size_t  pos = 0;
      Json    v = parseValue( text, pos);
      skipWs( text, pos);
      if (pos != text.size())
         throw std::runtime_error( "json: trailing characters");
      return v;
   }

private:
   static void skipWs( const std::string& t, size_t& p)
   {
      while (p < t.size() && (t[ p] == ' ' || t[ p] == '\n' || t[ p] == '\t' || t[ p] == '\r'))
         ++p;
   }
   static std::string parseString( const std::string& t, size_t& p)
   {
      std::string  out;
      if (t[ p] != '"') throw std::runtime_error( "json: expected string");
      ++p;
      while (p < t.size() && t[ p] != '"')
      {
         char  c = t[ p++];
         if (c == '\\')
         {
            if (p >= t.size()) throw std::runtime_error( "json: bad escape");
            char  e = t[ p++];
            switch (e)
            {
            case 'n': out.push_back( '\n'); break;
            case 't': out.push_back( '\t'); break;
            case 'r': out.push_back( '\r'); break;
            case 'b': out.push_back( '\b'); break;
            case 'f': out.push_back( '\f'); break;
            case '/': out.push_back( '/'); break;
            case '\\': out.push_back( '\\'); break;
            case '"': out.push_back( '"'); break;
            case 'u':
            {
               if (p + 4 > t.size()) throw std::runtime_error( "json: bad \\u");
               unsigned  v = static_cast< unsigned>( strtoul( t.substr( p, 4).c_str(), nullptr, 16));
               p += 4;
               if (v > 0xff) throw std::runtime_error( "json: \\u above 00ff not used here");
               out.push_back( static_cast< char>( v));
               break;
            }
            default: throw std::runtime_error( "json: unknown escape");
            }
         } else
            out.push_back( c);
      }
      if (p >= t.size()) throw std::runtime_error( "json: unterminated string");
      ++p;
      return out;
   }
   static Json parseValue( const std::string& t, size_t& p)
   {
      skipWs( t, p);
      if (p >= t.size()) throw std::runtime_error( "json: unexpected end");
      char  c = t[ p];
      if (c == '{')
      {
         Json  o = object();
         ++p; skipWs( t, p);
         if (p < t.size() && t[ p] == '}') { ++p; return o; }
         for (;;)
         {
            skipWs( t, p);
            std::string  k = parseString( t, p);
            skipWs( t, p);
            if (p >= t.size() || t[ p] != ':') throw std::runtime_error( "json: expected ':'");
            ++p;
            o.mObj.emplace_back( k, parseValue( t, p));
            skipWs( t, p);
            if (p < t.size() && t[ p] == ',') { ++p; continue; }
            if (p < t.size() && t[ p] == '}') { ++p; break; }
            throw std::runtime_error( "json: expected ',' or '}'");
         }
         return o;
      }
      if (c == '[')
      {
         Json  a = array();
         ++p; skipWs( t, p);
         if (p < t.size() && t[ p] == ']') { ++p; return a; }
         for (;;)
         {
            a.mArr.push_back( parseValue( t, p));
            skipWs( t, p);
            if (p < t.size() && t[ p] == ',') { ++p; continue; }
            if (p < t.size() && t[ p] == ']') { ++p; break; }
            throw std::runtime_error( "json: expected ',' or ']'");
         }
         return a;
      }
      if (c == '"')
         return Json( parseString( t, p));
      if (t.compare( p, 4, "true") == 0) { p += 4; return Json( true); }
      if (t.compare( p, 5, "false") == 0) { p += 5; return Json( false); }
      if (t.compare( p, 4, "null") == 0) { p += 4; return Json(); }
      {
         size_t  q = p;
         if (q < t.size() && (t[ q] == '-' || t[ q] == '+')) ++q;
         while (q < t.size() && t[ q] >= '0' && t[ q] <= '9') ++q;
         if (q == p) throw std::runtime_error( "json: unexpected character");
         long long  v = strtoll( t.substr( p, q - p).c_str(), nullptr, 10);
         // tolerate a fractional part written by other tools: truncate
         if (q < t.size() && t[ q] == '.')
         {
            ++q;
            while (q < t.size() && t[ q] >= '0' && t[ q] <= '9') ++q;
         }
         p = q;
         return Json( v);
      }
   }

   Type                                          mType;
   long long                                     mInt = 0;
   std::string                                   mStr;
   std::vector< Json>                            mArr;
   std::vector< std::pair< std::string, Json>>   mObj;
};

} // namespace sim
