// Deterministic thread scheduler: real threads, exactly one of them runs at
// any time, and a seeded policy (or an explicit switch list) decides which.
//
// The implementation (sched.cpp) is compiled WITHOUT any sanitizer and without
// coverage instrumentation and hands the baton over with raw atomics and the
// raw futex system call, so that ThreadSanitizer neither sees the hand-off nor
// derives a happens-before edge from it.
#pragma once

#include <cstddef>
#include <cstdint>

namespace sim {

enum PointKind : int
{
   pkEdge = 0,      // control-flow edge of instrumented code
   pkLoad = 1,      // load from non-stack memory in instrumented code
   pkStore = 2,     // store to non-stack memory in instrumented code
   pkLock = 3,      // before pthread_mutex_lock / trylock
   pkUnlock = 4,    // after pthread_mutex_unlock
   pkCreate = 5,    // in the creator, after the child has been registered
   pkJoin = 6,      // before pthread_join
   pkYield = 7,     // sched_yield / sleep
   pkBlock = 8,     // the running thread cannot continue (mutex held, join pending)
   pkExit = 9,      // the running thread finished
   pkStart = 10     // first instruction of a new thread (never a switch)
};

enum Policy : int
{
   polExplicit = 0,   // only the listed switches; otherwise keep running
   polRandom = 1,     // switch with probability 1/p at every memory access point
   polPct = 2,        // PCT: random priorities, d priority change points
   polRoundRobin = 3  // switch every q points
};

/// "when thread `from` reaches its n-th schedule point, continue with `to`"
struct SwitchEntry
{
   int       from;
   uint64_t  n;
   int       to;
   int       kind;
};

struct SchedConfig
{
   int                 policy = polRandom;
   uint64_t            seed = 1;
   unsigned            p = 64;               // polRandom: 1/p per point
   unsigned            sync_pct = 0;         // polRandom: chance (%) to switch at a lock/unlock point
   unsigned            child_first_pct = 50; // polRandom/polRoundRobin: at pthread_create
   unsigned            pct_depth = 2;        // polPct: number of priority change points
   uint64_t            points_est = 10000;   // polPct: expected length of the run
   unsigned            quantum = 50;         // polRoundRobin
   uint64_t            step_cap = 5000000;   // NONTERMINATION beyond this many points
   const SwitchEntry*  script = nullptr;     // polExplicit
   size_t              script_len = 0;
};

struct SchedStats
{
   uint64_t  points = 0;          // all schedule points executed
   uint64_t  mem_points = 0;      // load/store points on non-stack memory
   uint64_t  switches = 0;        // context switches (all kinds)
   uint64_t  preemptions = 0;     // switches where the running thread could have continued
   uint64_t  threads = 0;         // threads that took part (incl. the main thread)
   uint64_t  blocked_lock = 0;    // times a thread had to wait for a mutex
   uint64_t  blocked_join = 0;
   uint64_t  child_first = 0;     // pthread_create continued in the child
   uint64_t  parent_first = 0;
   uint64_t  switch_hash = 0;     // hash over (from, n, to, kind) of all switches
};

/// the calling thread becomes simulated thread 0
void schedBegin( const SchedConfig& cfg);
/// all other simulated threads must have finished and been joined
void schedEnd( SchedStats* stats);
bool schedActive();
/// id of the calling simulated thread, -1 outside the simulation
int schedSelf();
/// explicit yield (a spin loop must call this or sched_yield())
void schedYield();
/// switches recorded so far (valid until the next schedBegin())
const SwitchEntry* schedLog( size_t* len);
/// called on DEADLOCK / NONTERMINATION with the baton held; must not return
void schedSetFatal( void (*cb)( const char* kind, const char* detail));

/// data-race reports seen by the ThreadSanitizer hook (tsan_glue.cpp)
struct RaceInfo
{
   int          count;          // reports since the last reset
   char         description[ 48];
   struct Access { void* addr; int size; int write; int atomic; int tid; void* pc[ 4]; } access[ 2];
   int          accesses;
};
void raceReset();
const RaceInfo& raceInfo();

} // namespace sim
