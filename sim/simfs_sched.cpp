// simfs for the harnesses that run real threads under the baton scheduler:
// compiled without any instrumentation (its calls are atomic for the
// scheduler and invisible to ThreadSanitizer), clock_gettime() and process
// termination are left to sched.cpp / the harness.
#define SIMFS_WITH_SCHED 1
#include "simfs.cpp"
