// Deterministic step budget for single-threaded (asan flavour) harnesses.
// Progress is counted in instrumented control-flow edges
// (-fsanitize-coverage=trace-pc-guard); an operation that exceeds its budget is
// abandoned with siglongjmp from inside the coverage call-back. The same jump
// target is used by the interposed exit()/__assert_fail()/abort().
#pragma once

#include <csetjmp>
#include <cstdint>

namespace sim {

enum JumpReason { jrNone = 0, jrBudget = 1, jrExit = 2, jrAssert = 3, jrAbort = 4 };

class OpBudget
{
public:
   explicit OpBudget( uint64_t limit);
   ~OpBudget() { disarm(); }
   OpBudget( const OpBudget&) = delete;
   OpBudget& operator =( const OpBudget&) = delete;

   sigjmp_buf& env() { return mEnv; }
   void disarm();
   uint64_t used() const { return mCount; }

   /// leaves the operation in progress (if any) with the given reason; returns
   /// only if no operation is armed
   static void leave( int reason);
   /// true once any jump happened in this process: objects were abandoned in
   /// mid-operation, the process should not be reused for further runs
   static bool processPoisoned();
   /// total edges executed while any budget was armed (statistics)
   static uint64_t totalEdges();

   uint64_t    mCount = 0;
   uint64_t    mLimit;
   sigjmp_buf  mEnv;
   OpBudget*   mPrev;
};

} // namespace sim
