// One integer decides everything: SplitMix64 seeding, xoshiro256** streams.
// Named sub-streams are derived by hashing the stream name into the seed so
// that shrinking one aspect of a plan does not shift another aspect's draws.
#pragma once

#include <cstdint>
#include <string>

namespace sim {

inline uint64_t splitmix64( uint64_t& x)
{
   uint64_t  z = (x += 0x9e3779b97f4a7c15ULL);
   z = (z ^ (z >> 30)) * 0xbf58476d1ce4e5b9ULL;
   z = (z ^ (z >> 27)) * 0x94d049bb133111ebULL;
   return z ^ (z >> 31);
}

inline uint64_t fnv1a( const void* data, size_t len, uint64_t h = 0xcbf29ce484222325ULL)
{
   const unsigned char*  p = static_cast< const unsigned char*>( data);
   for (size_t k = 0; k < len; ++k)
   {
      h ^= p[ k];
      h *= 0x100000001b3ULL;
   }
   return h;
}

inline uint64_t mix( uint64_t a, uint64_t b)
{
   uint64_t  x = a ^ (b * 0x9e3779b97f4a7c15ULL + 0x7f4a7c15ULL);
   splitmix64( x);
   return splitmix64( x);
}

class Rng
{
public:
   explicit Rng( uint64_t seed = 0) { reseed( seed); }
   Rng( uint64_t seed, const char* stream)
   {
      reseed( mix( seed, fnv1a( stream, std::char_traits< char>::length( stream))));
   }

   void reseed( uint64_t seed)
   {
      uint64_t  x = seed;
      for (auto & w : s) w = splitmix64( x);
   }

   uint64_t next()
   {
      const uint64_t  result = rotl( s[ 1] * 5, 7) * 9;
      const uint64_t  t = s[ 1] << 17;
      s[ 2] ^= s[ 0];
      s[ 3] ^= s[ 1];
      s[ 1] ^= s[ 2];
      s[ 0] ^= s[ 3];
      s[ 2] ^= t;
      s[ 3] = rotl( s[ 3], 45);
      return result;
   }

   /// uniform in [0, n), n >= 1
   uint64_t below( uint64_t n) { return n <= 1 ? 0 : next() % n; }
   /// uniform in [lo, hi]
   long long range( long long lo, long long hi)
   {
      return hi <= lo ? lo : lo + static_cast< long long>( below( static_cast< uint64_t>( hi - lo + 1)));
   }
   /// true with probability num/den
   bool chance( uint64_t num, uint64_t den) { return below( den) < num; }
   template< typename C> auto const& pick( const C& c) { return c[ below( c.size())]; }

private:
   static uint64_t rotl( uint64_t x, int k) { return (x << k) | (x >> (64 - k)); }
   uint64_t  s[ 4];
};

/// Running hash of the events of one run; identity of an execution.
class TraceHash
{
public:
   void reset() { h = 0xcbf29ce484222325ULL; n = 0; }
   void add( uint64_t v) { h = fnv1a( &v, sizeof( v), h); ++n; }
   void add( const std::string& str) { h = fnv1a( str.data(), str.size(), h); add( str.size()); }
   void add( const void* p, size_t len) { h = fnv1a( p, len, h); add( len); }
   uint64_t value() const { return h; }
   uint64_t events() const { return n; }
private:
   uint64_t  h = 0xcbf29ce484222325ULL;
   uint64_t  n = 0;
};

} // namespace sim
