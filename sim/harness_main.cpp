// Command frame shared by all harness executables.
//
//   gen <seed> <tier>                 print the plan generated from a seed
//   run <planfile> [--trace]          execute a plan, print one result line
//   batch --tier T --base B --start S --stride W --count N [--deadline SEC]
//         [--status FILE] [--hashes FILE] [--samples K] [--recheck M]
//                                     execute run indices S, S+W, ... (< N)
//   merge-hashes FILE...              count distinct 64 bit values in files
//
// Nothing in here draws from a run's PRNG; the wall clock is read only to
// decide how many further seeds a batch starts, never inside a run.

#include "harness.hpp"

#include <algorithm>
#include <chrono>
#include <cstring>
#include <fcntl.h>
#include <fstream>
#include <iostream>
#include <memory>
#include <sstream>
#include <sys/mman.h>
#include <sys/personality.h>
#include <unistd.h>
#include <unordered_set>

namespace sim {

namespace {

std::string hex( uint64_t v)
{
   char  buf[ 24];
   snprintf( buf, sizeof( buf), "%016llx", static_cast< unsigned long long>( v));
   return buf;
}

Json resultJson( const Result& r)
{
   Json  j = Json::object();
   j[ "outcome"] = r.outcome;
   j[ "oracle"] = r.oracle;
   j[ "detail"] = r.detail;
   j[ "hash"] = hex( r.hash);
   j[ "nontrivial"] = r.nontrivial;
   j[ "sim_time"] = r.sim_time;
   j[ "poisoned"] = r.poisoned;
   if (!r.extra.isNull()) j[ "extra"] = r.extra;
   return j;
}

Json mapJson( const std::map< std::string, uint64_t>& m)
{
   Json  j = Json::object();
   for (auto const& kv : m) j[ kv.first] = kv.second;
   return j;
}

Json vecJson( const std::vector< uint64_t>& v, const std::vector< std::string>& names)
{
   Json  j = Json::object();
   for (size_t k = 0; k < names.size(); ++k)
      j[ names[ k]] = (k < v.size()) ? v[ k] : 0;
   return j;
}

uint64_t runSeed( uint64_t base, uint64_t index)
{
   const char*  prop = harness().property();
   return mix( mix( base, fnv1a( prop, strlen( prop))), index);
}

std::string readFile( const std::string& path)
{
   std::ifstream      in( path, std::ios::binary);
   std::stringstream  ss;
   if (!in) throw std::runtime_error( "cannot read " + path);
   ss << in.rdbuf();
   return ss.str();
}

void out( const std::string& line)
{
   std::string  l = line + "\n";
   size_t       off = 0;
   while (off < l.size())
   {
      ssize_t  n = ::write( 1, l.data() + off, l.size() - off);
      if (n <= 0) _exit( 3);
      off += static_cast< size_t>( n);
   }
}

// what abandonRun() needs to know about the command in progress
struct InFlight
{
   bool                batch = false;
   uint64_t            index = 0, seed = 0, stride = 1, runs = 0;
   const Json*         plan = nullptr;
   volatile uint64_t*  marker = nullptr;
   Stats*              stats = nullptr;
}  g_inflight;

/// all counters exist before the first run: a resize in the middle of a
/// simulated run would be executed code (schedule points, budget edges) that
/// depends on the history of the process
void initStats( Stats& st)
{
   st.faults.resize( harness().faultKinds().size() + 1);
   st.probes.resize( harness().probeNames().size() + 1);
}

int cmdGen( int argc, char* argv[])
{
   if (argc < 4) return 2;
   uint64_t  seed = strtoull( argv[ 2], nullptr, 0);
   out( harness().gen( seed, argv[ 3]).dump());
   return 0;
}

int cmdRun( int argc, char* argv[])
{
   if (argc < 3) return 2;
   bool         want_trace = (argc > 3) && (strcmp( argv[ 3], "--trace") == 0);
   Json         plan = Json::parse( readFile( argv[ 2]));
   // a replay file wraps the plan
   const Json&  p = plan.has( "plan") ? plan.get( "plan") : plan;
   Stats        st;
   std::string  trace;
   initStats( st);
   // the plan handed to the harness always lives on the heap, in a replay as
   // in a batch (a harness must not depend on it, but if it did, both agree)
   std::unique_ptr< Json>  heap_plan( new Json( p));
   g_inflight.batch = false;
   g_inflight.plan = heap_plan.get();
   g_inflight.stats = &st;
   Result       r = harness().run( *heap_plan, st, want_trace ? &trace : nullptr);
   if (want_trace)
      std::cerr << trace << std::flush;
   Json  j = resultJson( r);
   j[ "faults"] = vecJson( st.faults, harness().faultKinds());
   j[ "probes"] = vecJson( st.probes, harness().probeNames());
   out( "RESULT " + j.dump());
   return 0;
}

int cmdBatch( int argc, char* argv[])
{
   std::string  tier = "quick", status_file, hash_file, runlog_file;
   uint64_t     base = 1, start = 0, stride = 1, count = 1000, samples = 2, recheck = 100;
   double       deadline = 0;
   for (int k = 2; k + 1 < argc; k += 2)
   {
      std::string  a = argv[ k];
      const char*  v = argv[ k + 1];
      if (a == "--tier") tier = v;
      else if (a == "--base") base = strtoull( v, nullptr, 0);
      else if (a == "--start") start = strtoull( v, nullptr, 0);
      else if (a == "--stride") stride = strtoull( v, nullptr, 0);
      else if (a == "--count") count = strtoull( v, nullptr, 0);
      else if (a == "--deadline") deadline = atof( v);
      else if (a == "--status") status_file = v;
      else if (a == "--hashes") hash_file = v;
      else if (a == "--runlog") runlog_file = v;
      else if (a == "--samples") samples = strtoull( v, nullptr, 0);
      else if (a == "--recheck") recheck = strtoull( v, nullptr, 0);
      else return 2;
   }

   // progress marker in shared memory: survives the death of this process
   volatile uint64_t*  marker = nullptr;
   if (!status_file.empty())
   {
      int  fd = ::open( status_file.c_str(), O_RDWR | O_CREAT | O_TRUNC, 0644);
      if (fd < 0 || ftruncate( fd, 32) != 0) return 3;
      void*  m = mmap( nullptr, 32, PROT_READ | PROT_WRITE, MAP_SHARED, fd, 0);
      if (m == MAP_FAILED) return 3;
      marker = static_cast< volatile uint64_t*>( m);
      marker[ 0] = ~0ULL;  // index in flight
      marker[ 1] = 0;      // seed in flight
      marker[ 2] = 0;      // runs completed
   }

   // per run identity, for the determinism self test
   std::ofstream  runlog;
   if (!runlog_file.empty()) runlog.open( runlog_file, std::ios::trunc);

   using clock = std::chrono::steady_clock;
   auto const  t0 = clock::now();
   Stats       st;
   initStats( st);
   uint64_t    runs = 0, nontrivial = 0, failures = 0, sim_time = 0;
   uint64_t    rechecked = 0, recheck_mismatch = 0, events = 0, ok_mismatch_reported = 0;
   std::unordered_set< uint64_t>  hashes;
   std::map< std::string, uint64_t>  outcomes;
   bool        deadline_hit = false, poisoned_exit = false;

   for (uint64_t idx = start; idx < count; idx += stride)
   {
      if (deadline > 0 && (runs % 16) == 0)
      {
         std::chrono::duration< double>  el = clock::now() - t0;
         if (el.count() > deadline) { deadline_hit = true; break; }
      }
      const uint64_t  seed = runSeed( base, idx);
      if (marker) { marker[ 0] = idx; marker[ 1] = seed; }
      std::unique_ptr< Json>  heap_plan( new Json( harness().gen( seed, tier)));
      Json&   plan = *heap_plan;
      g_inflight.batch = true;
      g_inflight.index = idx;
      g_inflight.seed = seed;
      g_inflight.stride = stride;
      g_inflight.runs = runs;
      g_inflight.plan = &plan;
      g_inflight.marker = marker;
      g_inflight.stats = &st;
      Result  r = harness().run( plan, st, nullptr);
      ++runs;
      ++outcomes[ r.outcome];
      if (runlog.is_open())
         runlog << idx << " " << hex( seed) << " " << r.outcome << " " << hex( r.hash) << "\n";
      sim_time += r.sim_time;
      if (r.nontrivial)
      {
         ++nontrivial;
         hashes.insert( r.hash);
      }
      if (runs <= samples)
      {
         Json  j = Json::object();
         j[ "index"] = idx;
         j[ "seed"] = hex( seed);
         j[ "plan"] = plan;
         j[ "result"] = resultJson( r);
         out( "P " + j.dump());
      }
      // determinism sample: the same plan, parsed back from its text, must
      // give the same execution
      if (r.poisoned)
      {
         // abandoned in mid-operation: report, then let the driver restart us
         Json  j = Json::object();
         j[ "index"] = idx;
         j[ "seed"] = hex( seed);
         j[ "result"] = resultJson( r);
         j[ "rerun_same"] = Json();
         j[ "plan"] = plan;
         out( "R " + j.dump());
         ++failures;
         poisoned_exit = true;
         if (marker) { marker[ 2] = runs; marker[ 3] = idx + stride; }
         break;
      }
      bool  redo = !r.ok() || (recheck > 0 && (runs % recheck) == 0);
      if (redo)
      {
         Stats   scratch;
         initStats( scratch);
         std::unique_ptr< Json>  again( new Json( Json::parse( plan.dump())));
         Result  r2 = harness().run( *again, scratch, nullptr);
         ++rechecked;
         bool  same = (r2.outcome == r.outcome) && (r2.oracle == r.oracle) && (r2.hash == r.hash);
         if (!same) ++recheck_mismatch;
         // a clean run whose re-run differs is worth a note (a few of them), but
         // it is no reason to end the batch early
         if (r.ok() && !same && ++ok_mismatch_reported > 3)
            continue;
         if (!r.ok() || !same)
         {
            if (!r.ok()) ++failures;
            Json  j = Json::object();
            j[ "index"] = idx;
            j[ "seed"] = hex( seed);
            j[ "result"] = resultJson( r);
            j[ "rerun"] = resultJson( r2);
            j[ "rerun_same"] = same;
            j[ "plan"] = plan;
            out( "R " + j.dump());
            if (failures >= 40) break;   // enough material; the driver stops anyway
         }
      }
      if (marker) marker[ 2] = runs;
   }
   if (marker) marker[ 0] = ~0ULL;

   if (!hash_file.empty())
   {
      std::vector< uint64_t>  v( hashes.begin(), hashes.end());
      std::sort( v.begin(), v.end());
      std::ofstream  hf( hash_file, std::ios::binary | std::ios::trunc);
      hf.write( reinterpret_cast< const char*>( v.data()), static_cast< std::streamsize>( v.size() * sizeof( uint64_t)));
   }

   std::chrono::duration< double>  el = clock::now() - t0;
   Json  s = Json::object();
   s[ "runs"] = runs;
   s[ "nontrivial"] = nontrivial;
   s[ "distinct_nontrivial_local"] = hashes.size();
   s[ "failures"] = failures;
   s[ "sim_time"] = sim_time;
   s[ "rechecked"] = rechecked;
   s[ "recheck_mismatch"] = recheck_mismatch;
   s[ "deadline_hit"] = deadline_hit;
   s[ "poisoned_exit"] = poisoned_exit;
   s[ "wall_ms"] = static_cast< long long>( el.count() * 1000.0);
   s[ "outcomes"] = mapJson( outcomes);
   s[ "faults"] = vecJson( st.faults, harness().faultKinds());
   s[ "probes"] = vecJson( st.probes, harness().probeNames());
   s[ "misc"] = mapJson( st.misc);
   s[ "distinct_states_local"] = st.states.size();
   Json  state_keys = Json::array();
   for (auto const& kv : st.states) state_keys.push( harness().stateName( kv.first));
   s[ "state_keys"] = state_keys;
   (void) events;
   out( "S " + s.dump());
   return poisoned_exit ? 78 : 0;
}

int cmdMerge( int argc, char* argv[])
{
   std::vector< uint64_t>  all;
   for (int k = 2; k < argc; ++k)
   {
      std::string  data = readFile( argv[ k]);
      size_t       n = data.size() / sizeof( uint64_t);
      size_t       old = all.size();
      all.resize( old + n);
      memcpy( all.data() + old, data.data(), n * sizeof( uint64_t));
   }
   std::sort( all.begin(), all.end());
   all.erase( std::unique( all.begin(), all.end()), all.end());
   out( std::to_string( all.size()));
   return 0;
}

} // namespace

void abandonRun( Result r)
{
   r.poisoned = true;
   if (g_inflight.batch)
   {
      Json  j = Json::object();
      j[ "index"] = g_inflight.index;
      j[ "seed"] = hex( g_inflight.seed);
      j[ "result"] = resultJson( r);
      j[ "rerun_same"] = Json();
      if (g_inflight.plan) j[ "plan"] = *g_inflight.plan;
      out( "R " + j.dump());
      if (g_inflight.marker)
      {
         g_inflight.marker[ 2] = g_inflight.runs + 1;
         g_inflight.marker[ 3] = g_inflight.index + g_inflight.stride;
         g_inflight.marker[ 0] = ~0ULL;
      }
      Json  s = Json::object();
      s[ "runs"] = g_inflight.runs + 1;
      s[ "abandoned"] = true;
      s[ "nontrivial"] = 0;
      if (g_inflight.stats)
      {
         s[ "faults"] = vecJson( g_inflight.stats->faults, harness().faultKinds());
         s[ "probes"] = vecJson( g_inflight.stats->probes, harness().probeNames());
      }
      out( "S " + s.dump());
   } else
   {
      out( "RESULT " + resultJson( r).dump());
   }
   _exit( 78);
}

int harnessMain( int argc, char* argv[])
{
   // switch address space randomisation off so that pointer-dependent
   // behaviour, if there is any, is a function of the plan as well
   if (getenv( "SIM_NOASLR_DONE") == nullptr && getenv( "SIM_KEEP_ASLR") == nullptr)
   {
      setenv( "SIM_NOASLR_DONE", "1", 1);
      int  cur = personality( 0xffffffff);
      if (cur != -1 && !(cur & ADDR_NO_RANDOMIZE)
          && personality( static_cast< unsigned long>( cur) | ADDR_NO_RANDOMIZE) != -1)
      {
         execv( "/proc/self/exe", argv);
      }
   }

   if (argc < 2)
   {
      std::cerr << "usage: " << argv[ 0] << " gen|run|batch|merge-hashes ..." << std::endl;
      return 2;
   }
   try
   {
      std::string  cmd = argv[ 1];
      if (cmd == "gen") return cmdGen( argc, argv);
      if (cmd == "run") return cmdRun( argc, argv);
      if (cmd == "batch") return cmdBatch( argc, argv);
      if (cmd == "merge-hashes") return cmdMerge( argc, argv);
   } catch (const std::exception& e)
   {
      std::cerr << "harness: " << e.what() << std::endl;
      return 2;
   }
   return 2;
}

} // namespace sim
