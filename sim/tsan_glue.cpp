// ThreadSanitizer report hook. Compiled without instrumentation; called by the
// TSan runtime with its report lock held, so it only copies a few words.

#include "sched.hpp"

#include <cstdio>
#include <cstdlib>
#include <cstring>

extern "C" {
int __tsan_get_report_data( void* report, const char** description, int* count, int* stack_count,
                            int* mop_count, int* loc_count, int* mutex_count, int* thread_count,
                            int* unique_tid_count, void** sleep_trace, unsigned long trace_size) __attribute__(( weak));
int __tsan_get_report_mop( void* report, unsigned long idx, int* tid, void** addr, int* size, int* write,
                           int* atomic, void** trace, unsigned long trace_size) __attribute__(( weak));
}

namespace sim {
namespace {
RaceInfo  g_race;
}
void raceReset() { memset( &g_race, 0, sizeof( g_race)); }
const RaceInfo& raceInfo() { return g_race; }
} // namespace sim

extern "C" void __tsan_on_report( void* report)
{
   using sim::g_race;
   ++g_race.count;
   if (g_race.count > 1 || __tsan_get_report_data == nullptr || __tsan_get_report_mop == nullptr)
      return;
   const char*  desc = nullptr;
   int          count = 0, stacks = 0, mops = 0, locs = 0, mutexes = 0, threads = 0, utids = 0;
   void*        sleep_trace[ 1] = { nullptr };
   __tsan_get_report_data( report, &desc, &count, &stacks, &mops, &locs, &mutexes, &threads, &utids, sleep_trace, 1);
   if (desc != nullptr)
      strncpy( g_race.description, desc, sizeof( g_race.description) - 1);
   g_race.accesses = 0;
   for (int k = 0; k < mops && k < 2; ++k)
   {
      auto &  a = g_race.access[ k];
      memset( a.pc, 0, sizeof( a.pc));
      __tsan_get_report_mop( report, static_cast< unsigned long>( k), &a.tid, &a.addr, &a.size, &a.write, &a.atomic, a.pc, 4);
      ++g_race.accesses;
   }
}

// ----- libc functions that return a pointer to one static object
// (localtime, gmtime): not thread-safe by definition, but ThreadSanitizer
// cannot see inside libc. The write to the shared object is made visible here,
// so that two threads calling them without a common lock are reported as what
// they are - a data race on that object.

#include <dlfcn.h>
#include <time.h>

extern "C" {
void __tsan_write8( void* addr) __attribute__(( weak));
struct tm* __interceptor_localtime( const time_t*) __attribute__(( weak));
struct tm* __interceptor_gmtime( const time_t*) __attribute__(( weak));
}

namespace {
template< typename F> F nextFn( F interceptor, const char* name)
{
   if (interceptor != nullptr) return interceptor;
   return reinterpret_cast< F>( dlsym( RTLD_NEXT, name));
}
}

extern "C" struct tm* localtime( const time_t* t)
{
   static auto  real = nextFn( &__interceptor_localtime, "localtime");
   struct tm*   res = real( t);
   // (as a plain 8 byte store of instrumented code: races found in range
   // accesses of interceptors are reported once per process only)
   if (res != nullptr && __tsan_write8 != nullptr)
      __tsan_write8( res);
   return res;
}

extern "C" struct tm* gmtime( const time_t* t)
{
   static auto  real = nextFn( &__interceptor_gmtime, "gmtime");
   struct tm*   res = real( t);
   // (as a plain 8 byte store of instrumented code: races found in range
   // accesses of interceptors are reported once per process only)
   if (res != nullptr && __tsan_write8 != nullptr)
      __tsan_write8( res);
   return res;
}
