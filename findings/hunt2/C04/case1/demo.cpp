// Case 1: ValueHandler - the value storage of an argument is freed during
// set-up when its key is "equivalent" (ArgumentKey::operator <) to a key that
// is stored already; evalArguments() then writes the value into freed memory.
//
// Two ordinary set-ups are shown:
//   A) one argument with a short key only, one with a long key only
//   B) one keyed argument plus the positional (free) value argument
#include <cstring>
#include <iostream>
#include <sstream>
#include <string>
#include "celma/prog_args.hpp"
#include "celma/prog_args/value_handler.hpp"

using celma::prog_args::ValueHandler;

static int variantA()
{
   std::ostringstream  out, err;
   ValueHandler        vh( out, err, 0);

   vh.addValueArgument< std::string>( "a", "first argument, short key only");
   vh.addValueArgument< int>( "bcd", "second argument, long key only");

   std::string  a0( "prog"), a1( "--bcd"), a2( "4711");
   char*        argv[] = { a0.data(), a1.data(), a2.data(), nullptr };

   vh.evalArguments( 3, argv);      // <-- heap-use-after-free (write)

   int  result = 0;
   vh.getValue( result, "bcd");     // <-- finds the storage of "a": type mismatch
   return result;
}

static int variantB()
{
   std::ostringstream  out, err;
   ValueHandler        vh( out, err, 0);

   vh.addValueArgument< std::string>( "n,name", "a name");
   vh.addValueArgument< int>( "free (positional) value");

   std::string  a0( "prog"), a1( "4711");
   char*        argv[] = { a0.data(), a1.data(), nullptr };

   vh.evalArguments( 2, argv);      // <-- heap-use-after-free (write)

   int  result = 0;
   vh.getValue( result);
   return result;
}

int main( int argc, char* argv[])
{
   const bool  b = (argc > 1) && (::strcmp( argv[ 1], "B") == 0);
   try
   {
      const int  v = b ? variantB() : variantA();
      std::cout << "value read back: " << v << std::endl;
      return (v == 4711) ? 0 : 1;
   } catch (const std::exception& e)
   {
      // without sanitizer: the write goes unnoticed, the read-back fails
      std::cout << "exception: " << e.what() << std::endl;
      return 1;
   }
}
