#!/bin/bash
# usage: run.sh <source root>     (default: the worktree this directory is in)
ROOT=${1:-$(cd "$(dirname "$0")/../.." && pwd)}
HERE=$(cd "$(dirname "$0")" && pwd)
WORK=$(mktemp -d)
trap 'rm -rf "$WORK"' EXIT
CXX=${CXX:-clang++}
SRCS=$(find $ROOT/src/library/prog_args $ROOT/src/library/common $ROOT/src/library/format \
            $ROOT/src/library/appl $ROOT/src/library/container -name '*.cpp' \
       | grep -v /test | grep -v print_version_info)
mkdir -p $WORK/obj
printf '%s\n' $SRCS $HERE/demo.cpp | xargs -P 4 -I{} sh -c \
   "$CXX -std=c++17 -g -O1 -w -fsanitize=address,undefined -fno-omit-frame-pointer -I$ROOT/src -c {} -o $WORK/obj/\$(echo {} | md5sum | cut -c1-8).o" || { echo "BUILD FAILED"; exit 2; }
$CXX -fsanitize=address,undefined $WORK/obj/*.o -lpthread -o $WORK/demo || { echo "LINK FAILED"; exit 2; }

fail=0
for variant in A B; do
   ASAN_OPTIONS=detect_leaks=0 $WORK/demo $variant > $WORK/out.$variant 2>&1
   rc=$?
   if grep -q "heap-use-after-free" $WORK/out.$variant; then
      echo "variant $variant: FAIL - heap-use-after-free during evalArguments()"
      grep -m1 -A3 "ERROR: AddressSanitizer" $WORK/out.$variant | sed 's/^/    /'
      fail=1
   elif [ $rc -ne 0 ]; then
      echo "variant $variant: FAIL - rc=$rc"
      sed 's/^/    /' $WORK/out.$variant | head -5
      fail=1
   else
      echo "variant $variant: ok ($(cat $WORK/out.$variant))"
   fi
done
if [ $fail -ne 0 ]; then echo FAIL; exit 1; fi
echo PASS
