#!/bin/bash
# builds libcelma_tsan.a in cwd
set -e
ROOT=${1:-/tmp/mut/J04}
SRCS=$(find $ROOT/src/library/prog_args $ROOT/src/library/common $ROOT/src/library/format $ROOT/src/library/appl $ROOT/src/library/container -name '*.cpp' | grep -v /test | grep -v print_version_info)
mkdir -p objt
printf '%s\n' $SRCS | xargs -P 4 -I{} sh -c 'clang++ -std=c++17 -g -O1 -fsanitize=thread -fno-omit-frame-pointer -I'$ROOT'/src -c {} -o objt/$(echo {} | md5sum | cut -c1-8)_$(basename {} .cpp).o'
rm -f libcelma_tsan.a
ar rcs libcelma_tsan.a objt/*.o
