#include <vector>
#include <algorithm>
#include <random>
#include <iostream>
#include <cmath>
int main(int argc, char** argv)
{
   std::mt19937 rng( argc > 1 ? atoi(argv[1]) : 1);
   for (long iter = 0; iter < 200000; ++iter)
   {
      int n = 17 + rng() % 1500;
      std::vector<double> v(n);
      int dens = 2 + rng() % 20;
      for (auto& x : v) x = (rng() % dens == 0) ? NAN : (double)((int)(rng()%50));
      std::sort(v.begin(), v.end());
   }
   std::cout << "done\n";
}
