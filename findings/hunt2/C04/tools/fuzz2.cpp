// coverage-guided fuzz harness: Groups with several handlers, value handler
#include <cstdint>
#include <cstdlib>
#include <cstring>
#include <map>
#include <set>
#include <sstream>
#include <string>
#include <tuple>
#include <vector>
#include "celma/prog_args.hpp"
#include "celma/prog_args/groups.hpp"
#include "celma/prog_args/value_handler.hpp"

using namespace celma;
using celma::prog_args::Handler;
using celma::prog_args::Groups;

static std::vector< std::string> splitWords( const uint8_t* d, size_t n)
{
   std::vector< std::string> words;
   std::string cur;
   for (size_t i = 0; i < n; ++i)
   {
      if (d[ i] == '\n')
      {
         words.push_back( cur);
         cur.clear();
      } else if (d[ i] != 0)
         cur.push_back( static_cast< char>( d[ i]));
   }
   if (!cur.empty())
      words.push_back( cur);
   return words;
}

#define T( x) [&]{ try { x; } catch (const std::exception& e) { static bool once = false; if (!once) { once = true; fprintf( stderr, "SETUP line %d: %s\n", __LINE__, e.what()); } } }()

extern "C" int LLVMFuzzerTestOneInput( const uint8_t* data, size_t size)
{
   using namespace celma::prog_args;
   if (size < 4)
      return 0;
   const unsigned  variant = data[ 0] | (data[ 1] << 8);
   const unsigned  mode = data[ 2];
   data += 3; size -= 3;
   {
      int run = 0;
      for (size_t i = 0; i < size; ++i)
      {
         if (data[ i] >= '0' && data[ i] <= '9') { if (++run > 5) return 0; }
         else run = 0;
      }
   }
   auto  words = splitWords( data, size);
   if (words.empty())
      return 0;

   int  flags = Handler::hfUsageCont | Handler::hfListArgGroups;
   if (mode & 1) flags |= Handler::hfVerboseArgs;
   if (mode & 4) flags |= Handler::hfUsageHidden;

   std::vector< char*>  argv;
   for (auto& w : words) argv.push_back( w.data());
   argv.push_back( nullptr);
   const int argc = static_cast< int>( words.size());

   std::ostringstream  out, err;

   bool flagA = false; int intA = 0; std::vector< int> vecA; std::string strA;
   bool flagB = false; int intB = 0; std::vector< std::string> vecB; std::string cmdB;
   std::map< std::string, int> mapB; std::tuple< int, int> tupB;
   int subI = 0; std::vector< int> subV; std::string posC;

   try
   {
      auto&  grp = Groups::instance( out, err, flags);
      {
         auto  ahA = grp.getArgHandler( "A", Handler::hfHelpShort | Handler::hfHelpLong | Handler::hfListArgVar | Handler::hfArgHidden | Handler::hfEndValues
            | ((mode & 2) ? Handler::hfNoAbbr : 0));
         auto  ahB = grp.getArgHandler( "B", Handler::hfHelpArg | Handler::hfHelpArgFull);
         auto  ahC = grp.getArgValueHandler( "C", 0);

         T( ahA->addArgument( "f,flagA", DEST_VAR( flagA), "flag a"));
         T( ahA->addArgument( "i,intA", DEST_VAR( intA), "int a")->addCheck( range( 0, 100)));
         T( ahA->addArgument( "v,vecA", DEST_VAR( vecA), "vec a")->setTakesMultiValue()->setSortData());
         T( ahA->addArgument( "s,strA", DEST_VAR( strA), "str a")->addConstraint( requiresArg( "i")));
         if (variant & 1)
            T( ahA->addBracketHandler( [&]() { ++intA; }, [&]() { --intA; }));

         T( ahB->addArgument( "g,flagB", DEST_VAR( flagB), "flag b"));
         T( ahB->addArgument( "j,intB", DEST_VAR( intB), "int b")->setIsMandatory());
         T( ahB->addArgument( "w,vecB", DEST_VAR( vecB), "vec b")->setTakesMultiValue()->setListSep( ';'));
         T( ahB->addArgument( "m,mapB", DEST_VAR( mapB), "map b"));
         T( ahB->addArgument( "t,tupB", DEST_VAR( tupB), "tup b")->setTakesMultiValue());
         if (variant & 2)
            T( ahB->addArgument( "c,cmdB", DEST_VAR( cmdB), "cmd b")->setValueMode( Handler::ValueMode::command));
         if (variant & 4)
            T( ahB->addArgument( "-", DEST_VAR( posC), "pos"));
         else if (variant & 8)
            T( ahB->addArgument( "-", DEST_VAR( posC), "pos")->setValueMode( Handler::ValueMode::command));
         if (variant & 16)
            T( ahB->addArgumentFile( "arg-file"));

         Handler  sub( *ahB, 0);
         T( sub.addArgument( "i", DEST_VAR( subI), "sub i"));
         T( sub.addArgument( "v", DEST_VAR( subV), "sub v")->setTakesMultiValue());
         T( ahB->addArgument( "G,subgroup", sub, "sub group"));

         auto  vh = ahC->getValueHandlerObj();
         T( vh->addValueArgument< int>( "x,xint", "x int"));
         T( vh->addValueArgument< std::vector< std::string>>( "y,yvec", "y vec")->setTakesMultiValue());
         T( (vh->addRangeValueArgument< int, std::vector< int>>( "z,zrange", "z range")));
         if (variant & 32)
            T( ahA->addConstraint( one_of( "f;i")));

         const int rounds = (mode & 0x20) ? 2 : 1;
         for (int r = 0; r < rounds; ++r)
         {
            try
            {
               grp.evalArguments( argc, argv.data());
            } catch (const std::exception&)
            {
            }
            try
            {
               grp.printSummary( prog_args::sumoptset_t( prog_args::SummaryOptions::with_type) | prog_args::SummaryOptions::with_key, out);
            } catch (const std::exception&)
            {
            }
            try
            {
               int x = 0; vh->getValue( x, "x");
               std::vector< std::string> y; vh->getValue( y, "yvec");
            } catch (const std::exception&)
            {
            }
         }
         grp.removeAllArgHandler();
      }
      Groups::reset();
   } catch (const std::exception& e)
   {
      fprintf( stderr, "setup exception: %s\n", e.what());
      abort();
   }
   return 0;
}
