#!/bin/bash
clang++ -std=c++17 -g -O1 -w -fsanitize=address,undefined -fno-omit-frame-pointer -I/tmp/mut/J04/src $1.cpp ../build/libcelma_asan.a -lpthread -o $1 2>&1 | grep -v "^clang" | head -20
