// coverage-guided fuzz harness: many destination types, flags, sources
#include <array>
#include <bitset>
#include <cstdint>
#include <cstdlib>
#include <cstring>
#include <deque>
#include <fstream>
#include <list>
#include <map>
#include <optional>
#include <set>
#include <sstream>
#include <stack>
#include <queue>
#include <string>
#include <tuple>
#include <unordered_map>
#include <unistd.h>
#include <vector>
#include "celma/prog_args.hpp"
#include "celma/prog_args/groups.hpp"
#include "celma/common/value_filter.hpp"
#include "celma/container/dynamic_bitset.hpp"

using namespace celma;
using celma::prog_args::Handler;

static std::vector< std::string> splitWords( const uint8_t* d, size_t n)
{
   std::vector< std::string> words;
   std::string cur;
   for (size_t i = 0; i < n; ++i)
   {
      if (d[ i] == '\n')
      {
         words.push_back( cur);
         cur.clear();
      } else if (d[ i] != 0)
         cur.push_back( static_cast< char>( d[ i]));
   }
   if (!cur.empty())
      words.push_back( cur);
   return words;
}

struct Dest
{
   bool flag = false;
   int  ival = 0;
   int  ival2 = 0;
   std::string sval;
   std::string sval2;
   double dval = 0.0;
   std::vector< int> vint; std::vector< int> vint2;
   std::vector< std::string> vstr;
   std::vector< double> vdbl;
   std::list< int> lint;
   std::deque< int> dint;
   std::set< int> sint;
   std::stack< int> stint;
   std::queue< std::string> qstr;
   std::priority_queue< int> pqint;
   std::map< std::string, int> msi;
   std::multimap< int, std::string> mmis;
   std::unordered_map< std::string, std::string> umss;
   std::tuple< int, std::string, double> tup;
   int carr[ 3] = { 0, 0, 0};
   std::array< int, 3> sarr = { { 0, 0, 0}};
   std::bitset< 10> bs;
   std::vector< bool> vb;
   container::DynamicBitset dbs{ 10};
   prog_args::LevelCounter lc;
   std::optional< int> oint;
   std::optional< bool> obool;
   std::vector< int> rvec;
   std::bitset< 20> rbs;
   std::set< int> rset;
   common::ValueFilter< int> vf;
   int start = 0, end = 0;
   std::string cmd;
   std::string pos;
   int cnt = 0;
   int pairint = 0; std::string pairstr;
   std::string dep, repl;
   int sub_i = 0; std::string sub_s; std::vector<int> sub_v; bool sub_f = false;
   int h1 = 0, h2 = 0;
};

#define T( x) [&]{ try { x; } catch (const std::exception& e) { static bool once = false; if (!once) { once = true; fprintf( stderr, "SETUP line %d: %s\n", __LINE__, e.what()); } } }()
static void setup( Handler& ah, Handler& sub, Dest& d, unsigned variant)
{
   using namespace celma::prog_args;
   T( ah.addArgument( "f,flag", DEST_VAR( d.flag), "flag"));
   ah.addArgument( "i,int", DEST_VAR( d.ival), "int")
      ->addCheck( range( -1000, 1000))->setValueMode( Handler::ValueMode::required);
   T( ah.addArgument( "I,int2", DEST_VAR( d.ival2), "int2")
      ->addCheck( lower( 5))->addCheck( upper( 500))
      ->addConstraint( requiresArg( "i,int")));
   ah.addArgument( "s,string", DEST_VAR( d.sval), "string")
      ->addFormat( uppercase())->addCheck( minLength( 2))->addCheck( maxLength( 20))
      ->addConstraint( excludes( "S,string2"));
   T( ah.addArgument( "S,string2", DEST_VAR( d.sval2), "string2")
      ->addFormat( anycase( "UlUlUl"))->addCheck( values( "Abc,Def,GhI,jkl", (variant & 1) != 0)));
   ah.addArgument( "d,double", DEST_VAR( d.dval), "double");
   T( ah.addArgument( "v,vint", DEST_VAR( d.vint), "vint")->setSortData()->setUniqueData( (variant & 2) != 0)
      ->setTakesMultiValue());
   ah.addArgument( "vint2", DEST_VAR( d.vint2), "vint2")->setSortData();
   ah.addArgument( "vstr", DEST_VAR( d.vstr), "vstr")->addFormatPos( 0, lowercase())
      ->addFormatPos( 2, uppercase())->setListSep( ':')->setCardinality( cardinality_max( 4));
   T( ah.addArgument( "vdbl", DEST_VAR( d.vdbl), "vdbl")->setSortData()->setClearBeforeAssign());
   ah.addArgument( "lint", DEST_VAR( d.lint), "lint")->setSortData()->setUniqueData();
   T( ah.addArgument( "dint", DEST_VAR( d.dint), "dint")->setSortData()->setCardinality( cardinality_range( 2, 5)));
   ah.addArgument( "sint", DEST_VAR( d.sint), "sint")->setUniqueData( true);
   T( ah.addArgument( "stint", DEST_VAR( d.stint), "stint")->setTakesMultiValue());
   ah.addArgument( "qstr", DEST_VAR( d.qstr), "qstr");
   T( ah.addArgument( "pqint", DEST_VAR( d.pqint), "pqint")->setClearBeforeAssign());
   ah.addArgument( "m,msi", DEST_VAR( d.msi), "msi")->addFormatKey( lowercase())->setUniqueData( (variant & 4) != 0);
   T( ah.addArgument( "mmis", DEST_VAR( d.mmis), "mmis")->setPairFormat( "={}")->addFormatValue( uppercase())
      ->setTakesMultiValue());
   ah.addArgument( "umss", DEST_VAR( d.umss), "umss")->setListSep( '+')->setPairFormat( ":||")->setClearBeforeAssign();
   T( ah.addArgument( "t,tup", DEST_VAR( d.tup), "tup")->addFormatPos( 1, uppercase()));
   ah.addArgument( "carr", DEST_VAR( d.carr), "carr")->setSortData()->setUniqueData()->addFormatPos( 1, lowercase());
   T( ah.addArgument( "sarr", DEST_VAR( d.sarr), "sarr")->setSortData()->setTakesMultiValue()->setListSep( '.'));
   ah.addArgument( "b,bs", DEST_VAR( d.bs), "bs")->setTakesMultiValue();
   T( ah.addArgument( "vb", DEST_VAR( d.vb), "vb")->unsetFlag()->setClearBeforeAssign());
   ah.addArgument( "dbs", DEST_VAR( d.dbs), "dbs");
   T( ah.addArgument( "V,lc", DEST_VAR( d.lc), "lc")->addCheck( range( 0, 6)));
   if (variant & 8)
      T( ah.getArgHandler( "V")->setAllowMixIncSet());
   ah.addArgument( "oint", DEST_VAR( d.oint), "oint");
   T( ah.addArgument( "obool", DEST_VAR( d.obool), "obool"));
   ah.addArgument( "r,rvec", DEST_RANGE( d.rvec, int, std::vector), "rvec");
   T( ah.addArgument( "rbs", DEST_RANGE_BITSET( d.rbs, 20), "rbs"));
   ah.addArgument( "rset", DEST_RANGE( d.rset, int, std::set), "rset");
   T( ah.addArgument( "F,vf", DEST_VAR( d.vf), "vf"));
   ah.addArgument( "start", DEST_START_END( d.start, d.end), "start");
   T( ah.addArgument( "pair", DEST_PAIR( d.pairint, d.pairstr, std::string( "was set")), "pair"));
   ah.addArgument( "setval", DEST_VAR_VALUE( d.cnt, 42), "setval");
   if (variant & 16)
      T( ah.addArgument( "c,cmd", DEST_VAR( d.cmd), "cmd")->setValueMode( Handler::ValueMode::command));
   if (variant & 32)
      T( ah.addArgument( "-", DEST_VAR( d.pos), "pos"));
   else if (variant & 64)
      T( ah.addArgument( "-", DEST_VAR( d.pos), "pos")->setValueMode( Handler::ValueMode::command));
   ah.addArgument( "call", DEST_LAMBDA( [&d]( bool inv) { if (inv) throw std::runtime_error( "no inv"); ++d.cnt; }), "call");
   ah.addArgument( "callv", DEST_LAMBDA_VALUE( ([&d]( const std::string& v, bool) { if (v == "throw") throw std::out_of_range( "thrown"); d.cnt += v.size(); })), "callv")
      ->setTakesMultiValue()->setCardinality()->allowsInversion();
   T( ah.addArgument( "dep", DEST_VAR( d.dep), "dep")->setIsDeprecated());
   ah.addArgument( "repl", DEST_VAR( d.repl), "repl")->setReplacedBy( "--string");
   T( ah.addArgument( "hidden-one", DEST_VAR( d.h1), "h1")->setIsHidden());
   ah.addArgument( "M,mandatory", DEST_VAR( d.h2), "mand")->setIsMandatory();
   T( ah.addArgumentFile( "arg-file"));
   ah.addBracketHandler( [&d]() { ++d.cnt; }, [&d]() { --d.cnt; });

   T( sub.addArgument( "i,subint", DEST_VAR( d.sub_i), "sub int"));
   sub.addArgument( "s", DEST_VAR( d.sub_s), "sub string");
   T( sub.addArgument( "v", DEST_VAR( d.sub_v), "sub vec")->setTakesMultiValue());
   sub.addArgument( "f", DEST_VAR( d.sub_f), "sub flag");
   T( ah.addArgument( "g,group", sub, "sub group"));

   if (variant & 128)
      ah.addConstraint( one_of( "oint;obool"));
   if (variant & 256)
      ah.addConstraint( all_of( "f;d"));
   if (variant & 512)
      ah.addConstraint( any_of( "qstr;pqint;sint"));
   if (variant & 1024)
      ah.addConstraint( disjoint( "vint;vint2"));
   if (variant & 2048)
      ah.addConstraint( differ( "i;I"));
}

extern "C" int LLVMFuzzerTestOneInput( const uint8_t* data, size_t size)
{
   if (size < 4)
      return 0;
   const unsigned  variant = data[ 0] | (data[ 1] << 8);
   const unsigned  mode = data[ 2];
   data += 3; size -= 3;
   {
      // skip legal-but-huge numbers (allocation sizes), judged outside the property
      int run = 0;
      for (size_t i = 0; i < size; ++i)
      {
         if (data[ i] >= '0' && data[ i] <= '9') { if (++run > 5) return 0; }
         else run = 0;
      }
   }
   auto  words = splitWords( data, size);
   if (words.empty())
      return 0;

   int  flags = Handler::hfHelpShort | Handler::hfHelpLong | Handler::hfHelpArg
      | Handler::hfHelpArgFull | Handler::hfUsageCont | Handler::hfListArgVar
      | Handler::hfArgHidden | Handler::hfArgDeprecated | Handler::hfUsageShort
      | Handler::hfUsageLong | Handler::hfEndValues;
   if (mode & 1) flags |= Handler::hfVerboseArgs;
   if (mode & 2) flags |= Handler::hfNoAbbr;
   if (mode & 4) flags |= Handler::hfUsageHidden | Handler::hfUsageDeprecated;

   static const char* envname = "FUZZENVVAR";
   ::unsetenv( envname);
   static char fname[ 64] = "";
   if (fname[ 0] == '\0')
      ::snprintf( fname, sizeof( fname), "/tmp/fuzz1_%d.pa", (int) ::getpid());

   std::vector< std::string>  cmdline;
   const unsigned source = (mode >> 3) & 3;
   if (source == 1)
   {
      // everything up to the word "@@" goes into the environment variable
      std::string env;
      size_t i = 1;
      for (; i < words.size() && words[ i] != "@@"; ++i)
      {
         if (!env.empty()) env += ' ';
         env += words[ i];
      }
      ::setenv( envname, env.c_str(), 1);
      cmdline.push_back( words[ 0]);
      for (++i; i < words.size(); ++i) cmdline.push_back( words[ i]);
   } else if (source == 2)
   {
      std::ofstream ofs( fname);
      size_t i = 1;
      for (; i < words.size() && words[ i] != "@@"; ++i)
      {
         if (words[ i] == "@n") ofs << '\n';
         else ofs << words[ i] << ' ';
      }
      ofs.close();
      cmdline.push_back( words[ 0]);
      cmdline.push_back( "--arg-file");
      cmdline.push_back( fname);
      for (++i; i < words.size(); ++i) cmdline.push_back( words[ i]);
   } else
   {
      cmdline = words;
   }

   std::vector< char*>  argv;
   for (auto& w : cmdline) argv.push_back( w.data());
   argv.push_back( nullptr);
   const int argc = static_cast< int>( cmdline.size());

   std::ostringstream  out, err;
   Dest  d;
   try
   {
      Handler  ah( out, err, flags);
      Handler  sub( ah, 0);
      if (source == 1)
         ah.checkEnvVarArgs( envname);
      setup( ah, sub, d, variant);

      const int rounds = (mode & 0x20) ? 2 : 1;
      for (int r = 0; r < rounds; ++r)
      {
         try
         {
            ah.evalArguments( argc, argv.data());
         } catch (const std::exception&)
         {
         }
         try
         {
            ah.printSummary( prog_args::sumoptset_t( prog_args::SummaryOptions::with_type) | prog_args::SummaryOptions::with_key, out);
         } catch (const std::exception&)
         {
         }
      }
      if (mode & 0x40)
      {
         try { out << ah; } catch (const std::exception&) {}
      }
   } catch (const std::exception& e)
   {
      // set-up must not throw
      fprintf( stderr, "setup exception: %s\n", e.what());
      abort();
   }
   return 0;
}
