#include <iostream>
#include <string>
#include "celma/prog_args.hpp"
#include "celma/prog_args/groups.hpp"
#include "celma/prog_args/value_handler.hpp"
using namespace celma::prog_args;
int main()
{
   auto h = Groups::instance().getArgValueHandler( "lib");
   auto vh = h->getValueHandlerObj();
   vh->addValueArgument< std::string>( "n", "name");
   vh->addValueArgument< int>( "level", "level");
   std::string a0 = "prog", a1 = "--level", a2 = "3";
   char* av[] = { a0.data(), a1.data(), a2.data(), nullptr };
   try { Groups::instance().evalArguments( 3, av); std::cout << "ok\n"; }
   catch (const std::exception& e) { std::cout << "exc: " << e.what() << "\n"; }
}
