#include <iostream>
#include <sstream>
#include <string>
#include <vector>
#include "celma/prog_args.hpp"
using namespace celma::prog_args;
int main( int argc, char* argv[])
{
   bool f = false; int si = 0; int bogus = 0;
   Handler ah( 0); Handler sub( ah, 0);
   sub.addArgument( "i", DEST_VAR( si), "sub i");
   ah.addArgument( "g", sub, "sub");
   ah.addArgument( "f", DEST_VAR( f), "flag");
   try { ah.evalArguments( argc, argv); std::cout << "ok f=" << f << " si=" << si << "\n"; }
   catch (const std::exception& e) { std::cout << "exc: " << e.what() << "\n"; }
}
