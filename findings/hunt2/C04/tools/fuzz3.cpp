// fuzz harness 3: the set-up (modifiers per destination) is chosen by the input as well
#include <array>
#include <bitset>
#include <cstdint>
#include <cstdlib>
#include <cstring>
#include <deque>
#include <forward_list>
#include <list>
#include <map>
#include <optional>
#include <set>
#include <sstream>
#include <stack>
#include <queue>
#include <string>
#include <tuple>
#include <unordered_map>
#include <unordered_set>
#include <vector>
#include "celma/prog_args.hpp"
#include "celma/common/value_filter.hpp"
#include "celma/container/dynamic_bitset.hpp"

using namespace celma;
using celma::prog_args::Handler;
using celma::prog_args::detail::TypedArgBase;

struct In
{
   const uint8_t* d; size_t n; size_t p = 0;
   uint8_t next() { return (p < n) ? d[ p++] : 0; }
};

static void modify( TypedArgBase* a, In& in)
{
   using namespace celma::prog_args;
   int  num = in.next() % 6;
   for (int i = 0; i < num; ++i)
   {
      const uint8_t  op = in.next();
      const uint8_t  prm = in.next();
      try
      {
         switch (op % 30)
         {
         case 0:  a->setIsMandatory(); break;
         case 1:  a->setPrintDefault( prm & 1); break;
         case 2:  a->setValueMode( static_cast< Handler::ValueMode>( prm % 4)); break;
         case 3:  a->setTakesMultiValue(); break;
         case 4:  a->addFormat( (prm & 1) ? uppercase() : lowercase()); break;
         case 5:  a->addFormatPos( static_cast< int>( prm % 6) - 1, anycase( "UlUl")); break;
         case 6:  a->addFormatKey( uppercase()); break;
         case 7:  a->addFormatValue( lowercase()); break;
         case 8:  a->addCheck( range( 0, 50 + prm)); break;
         case 9:  a->addCheck( values( "a,b,1,2,3", prm & 1)); break;
         case 10: a->addCheck( minLength( 1 + prm % 3)); break;
         case 11: a->addCheck( maxLength( 1 + prm % 9)); break;
         case 12: a->setAllowMixIncSet(); break;
         case 13: a->setListSep( ",;:+-. =|"[ prm % 9]); break;
         case 14: { static const char* pf[] = { "=", ":", ",{}", "=[]", "-<>", ":||", ";", "+" }; a->setPairFormat( pf[ prm % 8]); } break;
         case 15: a->setClearBeforeAssign(); break;
         case 16: a->setSortData(); break;
         case 17: a->setUniqueData( prm & 1); break;
         case 18: a->setCardinality( (prm & 3) == 0 ? nullptr : (prm & 3) == 1 ? cardinality_exact( prm % 5) : (prm & 3) == 2 ? cardinality_max( prm % 5) : cardinality_range( prm % 3, 3 + prm % 4)); break;
         case 19: a->checkOriginalValue( prm & 1); break;
         case 20: a->setIsDeprecated(); break;
         case 21: a->setReplacedBy( "--other"); break;
         case 22: a->allowsInversion(); break;
         case 23: a->setIsHidden(); break;
         case 24: a->unsetFlag(); break;
         case 25: a->addConstraint( requiresArg( (prm & 1) ? "i" : "s;v")); break;
         case 26: a->addConstraint( excludes( (prm & 1) ? "i" : "m")); break;
         case 27: a->addCheck( lower( static_cast< int>( prm))); break;
         case 28: a->addCheck( upper( static_cast< int>( prm))); break;
         case 29: a->setValueUnit( "unit"); break;
         }
      } catch (const std::exception&)
      {
      }
   }
}

extern "C" int LLVMFuzzerTestOneInput( const uint8_t* data, size_t size)
{
   using namespace celma::prog_args;
   if (size < 8)
      return 0;
   // set-up part up to the first 0xFF 0xFF, words after it
   size_t  split = 0;
   for (size_t i = 0; i + 1 < size; ++i)
      if (data[ i] == 0xFF && data[ i + 1] == 0xFF) { split = i; break; }
   if (split == 0)
      return 0;
   In  in{ data, split};
   const uint8_t*  wd = data + split + 2;
   const size_t    wn = size - split - 2;
   {
      int run = 0;
      for (size_t i = 0; i < wn; ++i)
      {
         if ((wd[ i] >= '0' && wd[ i] <= '9') || wd[ i] == 0) { if (wd[ i] != 0 && ++run > 5) return 0; }
         else run = 0;
      }
   }
   std::vector< std::string> words;
   {
      std::string cur;
      for (size_t i = 0; i < wn; ++i)
      {
         if (wd[ i] == '\n') { words.push_back( cur); cur.clear(); }
         else if (wd[ i] != 0) cur.push_back( static_cast< char>( wd[ i]));
      }
      if (!cur.empty()) words.push_back( cur);
   }
   if (words.empty())
      return 0;

   int  flags = Handler::hfHelpShort | Handler::hfHelpLong | Handler::hfHelpArgFull | Handler::hfUsageCont
      | Handler::hfListArgVar | Handler::hfEndValues;
   const uint8_t  mode = in.next();
   if (mode & 1) flags |= Handler::hfVerboseArgs;
   if (mode & 2) flags |= Handler::hfNoAbbr;
   if (mode & 4) flags |= Handler::hfUsageHidden | Handler::hfUsageDeprecated;

   bool f = false; int i = 0; std::string s; double dd = 0; char ch = 'x'; unsigned u = 0;
   std::vector< int> v; std::vector< std::string> vs; std::list< std::string> ls; std::deque< double> dq;
   std::forward_list< int> fl; std::set< std::string> ss; std::multiset< int> ms; std::unordered_set< int> us;
   std::stack< int> st; std::queue< int> qu; std::priority_queue< int> pq;
   std::map< int, int> m; std::multimap< std::string, std::string> mm; std::unordered_map< int, std::string> um;
   std::unordered_multimap< std::string, int> umm;
   std::tuple< int, std::string> t2; std::tuple< int, int, int> t3;
   int ca[ 4] = { 0, 0, 0, 0}; std::array< std::string, 2> sa;
   std::bitset< 8> bs; std::vector< bool> vb; container::DynamicBitset db( 4);
   prog_args::LevelCounter lc; std::optional< std::string> os; std::optional< bool> ob;
   std::vector< int> rv; common::ValueFilter< int> vf; int se1 = 0, se2 = 0; int p1 = 0; int p2 = 0;
   int sv = 0; std::string pos; std::vector< std::string> posv; int cnt = 0;

   std::ostringstream  out, err;
   try
   {
      Handler  ah( out, err, flags);
#define ADD( key, dest) try { modify( ah.addArgument( key, dest, "desc " key), in); } catch (const std::exception&) { }
      ADD( "f,flag", DEST_VAR( f));
      ADD( "i,int", DEST_VAR( i));
      ADD( "s,str", DEST_VAR( s));
      ADD( "d,dbl", DEST_VAR( dd));
      ADD( "c,chr", DEST_VAR( ch));
      ADD( "u,uns", DEST_VAR( u));
      ADD( "v,vec", DEST_VAR( v));
      ADD( "vs", DEST_VAR( vs));
      ADD( "ls", DEST_VAR( ls));
      ADD( "dq", DEST_VAR( dq));
      ADD( "fl", DEST_VAR( fl));
      ADD( "ss", DEST_VAR( ss));
      ADD( "ms", DEST_VAR( ms));
      ADD( "us", DEST_VAR( us));
      ADD( "st", DEST_VAR( st));
      ADD( "qu", DEST_VAR( qu));
      ADD( "pq", DEST_VAR( pq));
      ADD( "m,map", DEST_VAR( m));
      ADD( "mm", DEST_VAR( mm));
      ADD( "um", DEST_VAR( um));
      ADD( "umm", DEST_VAR( umm));
      ADD( "t2", DEST_VAR( t2));
      ADD( "t3", DEST_VAR( t3));
      ADD( "ca", DEST_VAR( ca));
      ADD( "sa", DEST_VAR( sa));
      ADD( "bs", DEST_VAR( bs));
      ADD( "vb", DEST_VAR( vb));
      ADD( "db", DEST_VAR( db));
      ADD( "L,lc", DEST_VAR( lc));
      ADD( "os", DEST_VAR( os));
      ADD( "ob", DEST_VAR( ob));
      ADD( "rv", DEST_RANGE( rv, int, std::vector));
      ADD( "vf", DEST_VAR( vf));
      ADD( "se", DEST_START_END( se1, se2));
      ADD( "pr", DEST_PAIR( p1, p2, 7));
      ADD( "pv", DEST_PAIR( vs, p2, 9));
      ADD( "sv", DEST_VAR_VALUE( sv, 3));
      ADD( "call", DEST_LAMBDA( [&cnt]( bool) { ++cnt; }));
      ADD( "callv", DEST_LAMBDA_VALUE( ([&cnt]( const std::string& val, bool) { cnt += val.size(); })));
      if (mode & 8)
         ADD( "-", DEST_VAR( pos))
      else if (mode & 16)
         ADD( "-", DEST_VAR( posv))

      std::vector< char*>  argv;
      for (auto& w : words) argv.push_back( w.data());
      argv.push_back( nullptr);
      const int argc = static_cast< int>( words.size());

      for (int r = 0; r < ((mode & 32) ? 2 : 1); ++r)
      {
         try { ah.evalArguments( argc, argv.data()); } catch (const std::exception&) { }
         try { ah.printSummary( prog_args::sumoptset_t( prog_args::SummaryOptions::with_type) | prog_args::SummaryOptions::with_key, out); } catch (const std::exception&) { }
      }
      if (mode & 64)
         try { out << ah; } catch (const std::exception&) { }
   } catch (const std::exception& e)
   {
      fprintf( stderr, "setup exception: %s\n", e.what());
      abort();
   }
   return 0;
}
