#!/bin/bash
clang++ -std=c++17 -g -O1 -w -fsanitize=fuzzer,address,undefined -fno-sanitize=signed-integer-overflow,float-cast-overflow -fno-sanitize-recover=undefined -fno-omit-frame-pointer -I/tmp/mut/J04/src $1.cpp ../build/libcelma_fuzz.a -lpthread -o $1 2>&1 | grep -v "^clang" | head -20
