#include <iostream>
#include <sstream>
#include <string>
#include <thread>
#include <vector>
#include <map>
#include <tuple>
#include <bitset>
#include "celma/prog_args.hpp"
using namespace celma::prog_args;
static void worker( int id)
{
   for (int r = 0; r < 200; ++r)
   {
      std::ostringstream out, err;
      int i = 0; std::vector<int> v; std::string s; std::map<std::string,int> m; std::tuple<int,std::string> t;
      std::vector<int> rv; std::bitset<10> bs; bool f = false; LevelCounter lc;
      Handler ah( out, err, Handler::hfHelpShort | Handler::hfHelpLong | Handler::hfUsageCont | Handler::hfListArgVar | Handler::hfHelpArgFull | Handler::hfEnvVarArgs | Handler::hfReadProgArg | Handler::hfVerboseArgs);
      Handler sub( ah, 0);
      int si = 0;
      sub.addArgument( "i", DEST_VAR( si), "sub i");
      ah.addArgument( "g", sub, "sub");
      ah.addArgument( "i,int", DEST_VAR( i), "int")->addCheck( range( 0, 100));
      ah.addArgument( "v,vec", DEST_VAR( v), "vec")->setTakesMultiValue()->setSortData();
      ah.addArgument( "s,str", DEST_VAR( s), "str")->addFormat( uppercase())->addCheck( values( "ABC,def", true));
      ah.addArgument( "m,map", DEST_VAR( m), "map");
      ah.addArgument( "t,tup", DEST_VAR( t), "tup");
      ah.addArgument( "r,range", DEST_RANGE( rv, int, std::vector), "range");
      ah.addArgument( "b,bits", DEST_VAR( bs), "bits");
      ah.addArgument( "f", DEST_VAR( f), "flag");
      ah.addArgument( "L", DEST_VAR( lc), "level")->setPrintDefault( false);
      ah.addConstraint( any_of( "f;L"));
      std::vector< std::string> w = { "prog" + std::to_string( id), "-i", "5", "-v", "3", "2", "1", "--str=abc",
         "-m", "a,1;b,2", "-t", "7,x", "-r", "1-9[2]{3}", "-b", "1,2", "-f", "-g", "-i", "4", "--list-arg-vars", "--help", "--help-arg-full=vec" };
      if (r % 3 == 1) w.push_back( "--bogus");
      std::vector< char*> av; for (auto& x : w) av.push_back( x.data()); av.push_back( nullptr);
      try { ah.evalArguments( (int) w.size(), av.data()); ah.printSummary( out); } catch (const std::exception&) {}
   }
}
int main()
{
   std::vector< std::thread> th;
   for (int i = 0; i < 4; ++i) th.emplace_back( worker, i);
   for (auto& t : th) t.join();
   std::cout << "done\n";
}
