
/*==
**
**    ####   ######  #       #    #   ####
**   #    #  #       #       ##  ##  #    #
**   #       ###     #       # ## #  ######    (C) 2017-2020 Rene Eng
**   #    #  #       #       #    #  #    #        LGPL
**    ####   ######  ######  #    #  #    #
**
**
--*/


/// @file
/// See documentation of class celma::prog_args::ValueHandler.


#pragma once


#include <map>
#include <memory>
#include <stdexcept>
#include <string>
#include "celma/prog_args.hpp"
#include "celma/prog_args/detail/argument_value.hpp"
#include "celma/prog_args/detail/storage.hpp"


namespace celma::prog_args {


/// Extension of the Handler class that creates and stores the destination
/// variables itself.
/// Use this class e.g. in a library module that wants to support setting values
/// through command line arguments, but does not have a global object that
/// persists. Then, create an object of this value handler class in the
/// prog_args::Groups, specify the arguments with the type of the destination
/// variables, and that's it. Later, when the values from the command line
/// arguments are required, retrieve the value handler object again from the
/// Groups, and extract the values.<br>
/// This class seems to offer some types less than the original Handler class,
/// but actually most types can (here) be handled by the simple template
/// parameter type \c T.<br>
/// In a value handler object, all arguments must be set to use a destination
/// variable in this object, tho ensure that the corresponding methods of the
/// base Handler class are hidden here.
///
/// @since  0.14.0, 09.02.2017
class ValueHandler final : public Handler
{
public:
   /// Constructor.
   ///
   /// @param[in]  flagSet
   ///    The set of flags. See enum HandleFlags for a list of possible values.
   /// @param[in]  txt1
   ///    Optional pointer to the object to provide additional text for the
   ///    usage.
   /// @param[in]  txt2
   ///    Optional pointer to the object to provide additional text for the
   ///    usage.
   /// @since  0.14.0, 09.02.2017
   explicit ValueHandler( int flagSet = Handler::hfHelpShort | Handler::hfHelpLong,
      IUsageText* txt1 = nullptr, IUsageText* txt2 = nullptr);

   /// Constructor that allows to specify the output streams to write to.
   ///
   /// @param[in]  os
   ///    The stream to write normal output to.
   /// @param[in]  error_os
   ///    The stream to write error output to.
   /// @param[in]  flag_set
   ///    The set of flags. See enum HandleFlags for a list of possible values.
   /// @param[in]  txt1
   ///    Optional pointer to the object to provide additional text for the
   ///    usage.
   /// @param[in]  txt2
   ///    Optional pointer to the object to provide additional text for the
   ///    usage.
   /// @since  0.14.0, 09.02.2017
   ValueHandler( std::ostream& os, std::ostream& error_os,
      int flag_set = Handler::hfHelpShort | Handler::hfHelpLong,
      IUsageText* txt1 = nullptr,
      IUsageText* txt2 = nullptr);

   // default destructor will do just fine
   ~ValueHandler() override = default;

   // don't want to allow copying nor assignment
   ValueHandler( const ValueHandler&) = delete;
   ValueHandler& operator =( const ValueHandler&) = delete;

   /// Add an argument to the argument handler, where the destination variable
   /// is managed by this class.
   /// This method is used for single-value-types like PODs, std::string etc.
   ///
   /// @tparam  T  The type of the argument value to handle.
   /// @param[in]  args
   ///    The arguments on the command line for this argument.
   /// @param[in]  desc
   ///    The description of this argument for the usage.
   /// @return
   ///    The object managing this argument, may be used to apply further
   ///    settings.
   /// @since  0.14.0, 10.02.2017
   template< typename T>
      typename std::enable_if< !detail::ContainerAdapter< T>::HasAdapter,
         detail::TypedArgBase*>::type
      addValueArgument( const std::string& args, const std::string& desc)
         noexcept( false)
   {

      auto  value = std::make_shared< detail::ArgumentValue< T>>();

      mValues.addArgument( value, detail::ArgumentKey( args));
      return Handler::addArgument(
         args, new detail::TypedArg< T>( (*value)(), "unnamed"), desc);
   } // ValueHandler::addValueArgument

   /// Add an argument to the argument handler, where the destination variable
   /// is managed by this class.
   /// This method is used for types that can store multiple values.
   ///
   /// @tparam  T  The type of the argument value to handle.
   /// @param[in]  args
   ///    The arguments on the command line for this argument.
   /// @param[in]  desc
   ///    The description of this argument for the usage.
   /// @return
   ///    The object managing this argument, may be used to apply further
   ///    settings.
   /// @since  x.y., 29.11.2019
   template< typename T>
      typename std::enable_if< detail::ContainerAdapter< T>::HasAdapter,
         detail::TypedArgBase*>::type
      addValueArgument( const std::string& args, const std::string& desc)
         noexcept( false)
   {

      auto  value = std::make_shared< detail::ArgumentValue< T>>();

      mValues.addArgument( value, detail::ArgumentKey( args));
      detail::ContainerAdapter< T>  wrapper( (*value)());
      return Handler::addArgument(
         args, new detail::TypedArg< detail::ContainerAdapter< T>>( wrapper,
         "unnamed"), desc);
   } // ValueHandler::addValueArgument

   /// Add a free argument to the argument handler, where the destination
   /// variable is managed by this class.
   ///
   /// @tparam  T  The type of the argument value to handle.
   /// @param[in]  desc  The description of this argument for the usage.
   /// @return
   ///    The object managing this argument, may be used to apply further
   ///    settings.
   /// @since  0.14.0, 10.02.2017
   template< typename T>
      detail::TypedArgBase* addValueArgument( const std::string& desc)
         noexcept( false);

   /// Add an argument that accepts a range string as value.
   ///
   /// @tparam  T
   ///    The type of the values to generate from the range string.
   /// @tparam  C
   ///    The type of the container to store the values in.
   /// @param[in]  args
   ///    The arguments on the command line for this argument.
   /// @param[in]  desc
   ///    The description of this argument for the usage.
   /// @return
   ///    The object managing this argument, may be used to apply further
   ///    settings.
   /// @since  0.14.0, 21.02.2017
   template< typename T, typename C>
      detail::TypedArgBase* addRangeValueArgument( const std::string& args,
                                                   const std::string& desc)
                                                 noexcept( false);

   /// Add a free argument that accepts a range string as value.
   ///
   /// @tparam  T
   ///    The type of the values to generate from the range string.
   /// @tparam  C
   ///    The type of the container to store the values in.
   /// @param[in]  desc  The description of this argument for the usage.
   /// @return
   ///    The object managing this argument, may be used to apply further
   ///    settings.
   /// @since  0.14.0, 21.02.2017
   template< typename T, typename C>
      detail::TypedArgBase* addRangeValueArgument( const std::string& desc)
                                                 noexcept( false);


   /// Adds a sub-group.
   /// Note: Theoretically we could pass the object by reference, but then the
   /// compiler cannot distinguish anymore between this function and the variant
   /// to add an argument resulting in a function call.
   ///
   /// @param[in]  arg_spec
   ///    The arguments on the command line to enter/start the sub-group.
   /// @param[in]  subGroup
   ///    The object to handle the sub-group arguments.
   /// @param[in]  desc
   ///    The description of this sub-group argument.
   /// @return
   ///    The object managing this argument, may be used to apply further
   ///    settings.
   /// @since  0.14.0, 15.03.2017
   detail::TypedArgBase* addArgument( const std::string& arg_spec,
      ValueHandler* subGroup, const std::string& desc);

   /// Use this function to get the value that was set by the argument on the
   /// command line.
   /// To check if a non-mandatory argument was really set, use the
   /// Handler::getArgHandler() method and then check hasValue() from the
   /// (TypedArgBase) pointer returned.
   ///
   /// @tparam  T  The type of the value.
   /// @param[out]  dest
   ///    Returns the value.
   /// @param[in]   args
   ///    The command line argument(s).
   /// @since  0.14.0, 10.02.2017
   template< typename T>
      void getValue( T& dest, const std::string& args) const noexcept( false);

   /// Use this function to get the free value that was set on the command
   /// line.
   /// To check if a non-mandatory, free argument was really set, use the
   /// Handler::getArgHandler() method with '-' as the argument key, and then
   /// check hasValue() from the (TypedArgBase) pointer returned.
   ///
   /// @tparam  T  The type of the value.
   /// @param[out]  dest  Returns the value.
   /// @since  0.14.0, 10.02.2017
   template< typename T> void getValue( T& dest) const noexcept( false);

   /// Returns if this object is a value handler.
   ///
   /// @return  In this class, always \c true.
   /// @since  0.14.0, 21.02.2017
   bool isValueHandler() const override;

   /// Returns this object.
   ///
   /// @return  This object.
   /// @since  0.14.0, 15.03.2017
   ValueHandler* getValueHandlerObj() noexcept( false) override;

private:
   /// Type used to store the destination variables.
   using shared_value_storage_t = std::shared_ptr< common::AnyBase>;
   /// Container used to store the destination variables.
   using container_t = detail::Storage< shared_value_storage_t>;

   /// Hidden when value handler is used.
   template< typename T>
      detail::TypedArgBase* addArgument( const std::string&,
                                         T&,
                                         const std::string,
                                         const std::string&);

   /// Hidden when value handler is used.
   detail::TypedArgBase* addArgument( const std::string& arg_spec,
                                      Handler* subGroup,
                                      const std::string& desc);

   /// The container with the destination variables.
   container_t  mValues;

}; // ValueHandler


// inlined methods
// ===============


template< typename T>
   detail::TypedArgBase*
      ValueHandler::addValueArgument( const std::string& desc) noexcept( false)
{
   return addValueArgument< T>( "-", desc);
} // ValueHandler::addValueArgument


template< typename T, typename C>
   detail::TypedArgBase*
      ValueHandler::addRangeValueArgument( const std::string& args,
         const std::string& desc) noexcept( false)
{

   auto  value = std::make_shared< detail::ArgumentValue< C>>();

   mValues.addArgument( value, detail::ArgumentKey( args));
   return Handler::addArgument(
      args,
      new detail::TypedArgRange< T, C>( common::RangeDest< T, C>( (*value)()),
         "unnamed"), desc);
} // ValueHandler::addRangeValueArgument


template< typename T, typename C>
   detail::TypedArgBase*
      ValueHandler::addRangeValueArgument( const std::string& desc)
         noexcept( false)
{
   return addRangeValueArgument< T, C>( "-", desc);
} // ValueHandler::addRangeValueArgument


template< typename T>
   void ValueHandler::getValue( T& dest, const std::string& args) const
      noexcept( false)
{

   auto  value_iter = mValues.find( detail::ArgumentKey( args));

   if (value_iter == mValues.end())
      throw std::invalid_argument( "unknown argument '" + args + "'");

   auto  type_name_access = value_iter->data().get();

   if (type_name_access->getTypeNameBase()->getTypeName() != type< T>::name())
      throw std::invalid_argument( "type mismatch");

   auto  value_obj = static_cast< detail::ArgumentValue< T>*>( type_name_access);
   dest = (*value_obj)();

} // ValueHandler::getValue


template< typename T> void ValueHandler::getValue( T& dest) const noexcept( false)
{
   getValue( dest, "-");
} // ValueHandler::getValue


} // namespace celma::prog_args


// =====  END OF value_handler.hpp  =====

