#include <iostream>
#include <sstream>
#include "celma/prog_args.hpp"
using namespace celma::prog_args;
int main( int argc, char* argv[])
{
   LevelCounter lc;
   Handler ah( Handler::hfHelpShort | Handler::hfUsageCont);
   ah.addArgument( "v", DEST_VAR( lc), "verbose level");
   try { ah.evalArguments( argc, argv); std::cout << "ok " << lc.value() << "\n"; }
   catch (const std::exception& e) { std::cout << "exc: " << e.what() << "\n"; }
}
