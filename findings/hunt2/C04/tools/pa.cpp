#include <iostream>
#include <sstream>
#include <string>
#include <vector>
#include <cstdlib>
#include "celma/prog_args.hpp"
using namespace celma::prog_args;
int main()
{
   std::vector< std::string> names = { "", "/", "a/", "prog", "./prog", std::string( 100000, 'x'), std::string( 5000, '/') + "prog", "..", ".", "pr og", "-", "--" };
   for (auto& n : names)
   {
      std::ostringstream out, err;
      int i = 0; std::vector< std::string> v; std::string cmd;
      Handler ah( out, err, Handler::hfReadProgArg | Handler::hfEnvVarArgs | Handler::hfVerboseArgs);
      ah.addArgument( "i", DEST_VAR( i), "int");
      ah.addArgument( "v", DEST_VAR( v), "vec")->setTakesMultiValue();
      ah.addArgument( "c", DEST_VAR( cmd), "cmd")->setValueMode( Handler::ValueMode::command);
      std::string a0 = n, a1 = "-i", a2 = "7";
      char* av[] = { a0.data(), a1.data(), a2.data(), nullptr };
      try { ah.evalArguments( 3, av); std::cout << "ok i=" << i << " v=" << v.size() << " cmd=" << cmd << "\n"; }
      catch (const std::exception& e) { std::cout << "exc: " << e.what() << "\n"; }
   }
}
