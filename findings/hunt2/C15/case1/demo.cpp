// C15 / case1: Timestamped policy destroys the log file with every message
// when no "last timestamp" can be computed for the open file.
//
// Uses only the public API: filename::Creator, files::Timestamped,
// files::Handler, detail::LogMsg.

#include <cstdlib>
#include <ctime>
#include <filesystem>
#include <fstream>
#include <iostream>
#include <string>
#include <vector>
#include <unistd.h>

#include "celma/log/filename/creator.hpp"
#include "celma/log/files/handler.hpp"
#include "celma/log/files/timestamped.hpp"

using namespace celma::log;
namespace fs = std::filesystem;

namespace {

struct TextOnly : detail::IFormatStream
{
   void format( std::ostream& o, const detail::LogMsg& m) const override
   {
      o << m.getText();
   }
};

std::vector< std::string> readAll( const std::string& dir)
{
   std::vector< std::string>  lines;
   for (auto const& e : fs::directory_iterator( dir))
   {
      std::ifstream  f( e.path());
      std::string    l;
      while (std::getline( f, l))
         lines.push_back( e.path().filename().string() + ": " + l);
   }
   return lines;
}

/// Writes 5 messages through one handler, closes it, returns what is on disk.
int scenario( const std::string& title, const std::string& dir,
   const std::string& date_format, bool last_from_future = false)
{
   fs::remove_all( dir);
   fs::create_directories( dir);

   filename::Definition  def;
   filename::Creator     creator( def);
   creator << dir << "/app." << filename::formatString( date_format)
           << filename::date << ".log";

   {
      files::Handler< files::Timestamped>  h( new files::Timestamped( def));
      h.setFormatter( new TextOnly);
      for (int i = 1; i <= 5; ++i)
      {
         detail::LogMsg  m( LOG_MSG_OBJECT_INIT);   // timestamp = now
         m.setText( "message " + std::to_string( i));
         if (last_from_future && (i == 5))
            m.setTimestamp( ::time( nullptr) + 2 * 86400);
         h.handleMessage( m);
      }
   }

   auto const  lines = readAll( dir);
   std::cout << title << ": wrote 5 messages, found " << lines.size()
             << " on disk\n";
   for (auto const& l : lines)
      std::cout << "    " << l << "\n";
   return (lines.size() == 5) ? 0 : 1;
}

} // namespace


int main( int argc, char* argv[])
{
   const std::string  base = (argc > 1) ? argv[ 1] : "/tmp/c15_case1";
   int                failed = 0;

   // --- scenario A: monthly log files, any time zone ------------------------
   ::setenv( "TZ", "UTC", 1);
   ::tzset();
   failed += scenario( "A) monthly files (%Y-%m), TZ=UTC", base + "/A", "%Y-%m");

   // --- scenario C: daily file, UTC, the 5th message carries a timestamp that
   // lies after the end of the file's day (LogMsg::setTimestamp() is public,
   // e.g. an event forwarded from a host whose clock is ahead)
   failed += scenario( "C) daily files (%F), TZ=UTC, message 5 stamped 2 days ahead",
      base + "/C", "%F", true);

   // --- scenario B: the ordinary daily file (%F), time zone west of UTC -----
   // the policy computes "next midnight" in UTC, the file name uses local time;
   // whenever the next UTC midnight still has the same local date, no limit
   // is found.  Pick a real-world style zone for which that is the case now.
   for (;;)
   {
      const time_t  now = ::time( nullptr);
      const int     utc_hour = static_cast< int>( (now % 86400) / 3600);
      const int     utc_min = static_cast< int>( (now % 3600) / 60);
      const char*   tz = nullptr;
      if (utc_hour >= 5)
         tz = "EST5";           // New York without DST: start before 19:00 local
      else if (utc_hour >= 1)
         tz = "AZOT1";          // Azores
      else if (utc_min >= 2)
         tz = "XXX0:01";        // artificial, only used 00:02..00:59 UTC
      if (tz != nullptr)
      {
         ::setenv( "TZ", tz, 1);
         ::tzset();
         failed += scenario( std::string( "B) daily files (%F), TZ=") + tz,
            base + "/B", "%F");
         break;
      }
      ::sleep( 30);
   }

   if (failed != 0)
   {
      std::cout << "FAIL: " << failed << " scenario(s) lost messages\n";
      return 1;
   }
   std::cout << "ok\n";
   return 0;
}
