// exhaustive harness: policy (C/M), limit, gens, histories
#include <iostream>
#include <fstream>
#include <sstream>
#include <vector>
#include <memory>
#include <map>
#include <filesystem>
#include "celma/log/filename/creator.hpp"
#include "celma/log/files/counted.hpp"
#include "celma/log/files/max_size.hpp"
#include "celma/log/files/handler.hpp"
using namespace celma::log;
namespace fs = std::filesystem;
struct TextOnly : detail::IFormatStream { void format(std::ostream& o, const detail::LogMsg& m) const override { o << m.getText(); } };
static const std::string dir = "/tmp/c15_tried_exo";
static int fails = 0;
std::vector<std::string> readGen(int g, bool& exists){ std::ifstream f(dir+"/log."+std::to_string(g)); exists = f.good(); std::vector<std::string> v; std::string l; while(std::getline(f,l)) v.push_back(l); return v; }
template<class P> struct Run {
  size_t limit; int gens; std::unique_ptr<files::Handler<P>> h;
  void open(){ filename::Definition def; filename::Creator c(def); c << dir << "/log." << filename::number; h.reset(new files::Handler<P>(new P(def, limit, gens))); h->setFormatter(new TextOnly); }
  void close(){ h.reset(); }
  void msg(const std::string& t){ detail::LogMsg m(LOG_MSG_OBJECT_INIT); m.setText(t); h->handleMessage(m);}  
};
// history encoded as vector<int>: -1 = reopen, n>=0: message of length n (text unique)
template<class P> bool check(const std::vector<int>& hist, size_t limit, int gens, bool bytes, std::string& why){
  fs::remove_all(dir); fs::create_directories(dir);
  Run<P> r{limit,gens,{}}; r.open();
  std::vector<std::string> all; int seq=0;
  for (int ev: hist){
    if (ev<0){ r.close(); r.open(); }
    else { std::string t = std::to_string(seq++%10); while((int)t.size()<ev) t+=char('a'+(seq%26)); if(ev==0) t=""; t.resize(ev); all.push_back(t); r.msg(t);} 
    // check files
    std::vector<std::string> cat; int ngen=0;
    for (int g=9; g>=0; --g){ bool ex; auto v = readGen(g,ex); if(!ex) continue; ++ngen;
      if (g >= std::max(gens,1)) { why="stale generation "+std::to_string(g); return false; }
      size_t sz=0; for(auto&s:v) sz+=s.size()+1;
      if (bytes){ if (v.size()>1 && sz>limit){ why="gen "+std::to_string(g)+" exceeds byte limit: "+std::to_string(sz); return false; } }
      else if (v.size()>std::max<size_t>(limit,1)){ why="gen exceeds count"; return false; }
      if (v.empty() && g!=0){ why="empty rolled generation "+std::to_string(g); return false; }
      for(auto&s:v) cat.push_back(s);
    }
    // cat must be suffix of all
    if (cat.size()>all.size()){ why="more lines than written"; return false; }
    for (size_t i=0;i<cat.size();++i) if (cat[cat.size()-1-i]!=all[all.size()-1-i]){ why="not a suffix at step"; return false; }
    if (!all.empty() && (cat.empty() || cat.back()!=all.back()) && ev>=0){ why="last message missing"; return false; }
  }
  return true;
}
template<class P> void enumerate(bool bytes, const std::vector<int>& alphabet, int maxlen, std::vector<size_t> limits){
  for (size_t limit: limits) for (int gens=0; gens<=3; ++gens){
    std::vector<int> idx; 
    for (int len=1; len<=maxlen; ++len){
      idx.assign(len,0);
      while(true){
        std::vector<int> hist; for(int i:idx) hist.push_back(alphabet[i]);
        std::string why; bool ok=false;
        try { ok = check<P>(hist,limit,gens,bytes,why);} catch(std::exception&e){ why=std::string("exception: ")+e.what(); }
        if(!ok){ static std::map<std::string,int> seen; std::string key=why+"/"+std::to_string(limit)+"/"+std::to_string(gens); if(seen[key]++<1){ ++fails; std::cout<<(bytes?"MaxSize":"Counted")<<" limit="<<limit<<" gens="<<gens<<" hist="; for(int e:hist) std::cout<<e<<","; std::cout<<" : "<<why<<"\n"; } }
        int p=len-1; while(p>=0 && ++idx[p]==(int)alphabet.size()){ idx[p]=0; --p; } if(p<0) break;
      }
    }
  }
}
int main(int argc,char**argv){
  enumerate<files::Counted>(false, {-1,1,3}, 6, {0,1,2,3});
  enumerate<files::MaxSize>(true, {-1,0,1,3,9}, 5, {0,1,2,5,8});
  std::cout<<"fails="<<fails<<"\n";
}
