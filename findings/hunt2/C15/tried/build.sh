#!/bin/bash
# usage: build.sh <source root> <prog.cpp> [sanitizer flags]  -> builds ./prog next to the source
ROOT="${1:-/tmp/mut/J15}"; [ -d "$ROOT/src/celma" ] && ROOT="$ROOT/src"
PROG="$2"; SAN="${3:--fsanitize=address,undefined}"
OBJ="$(mktemp -d /tmp/c15_tried_obj.XXXXXX)"
find "$ROOT/library/common" "$ROOT/library/log" "$ROOT/library/format" -name '*.cpp' | grep -v /test | grep -v print_version_info \
  | xargs -P4 -I{} sh -c "clang++ -std=c++17 -g -O1 -w $SAN -I'$ROOT' -c {} -o '$OBJ/'\$(echo {} | tr / _).o"
ar rcs "$OBJ/libcelma.a" "$OBJ"/*.o
clang++ -std=c++17 -g -O1 -w $SAN -I"$ROOT" "$PROG" "$OBJ/libcelma.a" -lpthread -o "${PROG%.cpp}"
rm -rf "$OBJ"
