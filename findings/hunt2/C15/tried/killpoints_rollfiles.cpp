// kill points inside rollFiles(): child is killed before/after the k-th rename, parent restarts
#include <iostream>
#include <fstream>
#include <vector>
#include <memory>
#include <filesystem>
#include <unistd.h>
#include <sys/wait.h>
#include <sys/stat.h>
#include "celma/common/file_operations.hpp"
#include "celma/common/detail/file_funcs_os.hpp"
#include "celma/log/filename/creator.hpp"
#include "celma/log/files/counted.hpp"
#include "celma/log/files/max_size.hpp"
#include "celma/log/files/handler.hpp"
using namespace celma::log;
namespace fs = std::filesystem;
struct TextOnly : detail::IFormatStream { void format(std::ostream& o, const detail::LogMsg& m) const override { o << m.getText(); } };
static const std::string dir = "/tmp/c15_tried_killo";
static int g_kill_at=-1; static bool g_after=false; static int g_count=0;
struct KillFuncs : celma::common::detail::FileFuncsBase {
  int rename(const std::string& d, const std::string& s) override { ++g_count; if(g_count==g_kill_at && !g_after) _exit(42); int r=::rename(s.c_str(), d.c_str()); if(g_count==g_kill_at && g_after) _exit(42); return r; }
  int remove(const std::string& f) override { return ::remove(f.c_str()); }
  int mkdir(const std::string& d, int m) override { return ::mkdir(d.c_str(), m); }
};
template<class P> std::unique_ptr<files::Handler<P>> mk(size_t limit,int gens){ filename::Definition def; filename::Creator c(def); c << dir << "/log." << filename::number; auto h=std::make_unique<files::Handler<P>>(new P(def,limit,gens)); h->setFormatter(new TextOnly); return h; }
template<class P> void msg(files::Handler<P>& h,int n){ detail::LogMsg m(LOG_MSG_OBJECT_INIT); char b[16]; snprintf(b,sizeof b,"m%04d",n); m.setText(b); h.handleMessage(m);} 
template<class P> int runAll(size_t limit, const char* nm){
  int fails=0, runs=0;
  for(int gens=2;gens<=4;++gens) for(int n=1;n<=14;++n) for(int k=1;k<=12;++k) for(int after=0;after<2;++after) for(int more=0; more<=5; ++more){
    fs::remove_all(dir); fs::create_directories(dir);
    pid_t pid=fork();
    if(pid==0){ celma::common::FileOperations::setFuncImpl(new KillFuncs); g_kill_at=k; g_after=after; auto h=mk<P>(limit,gens); for(int i=0;i<n;++i){ msg(*h,i); { std::ofstream p(dir+"/../killprog"); p<<i; } } _exit(0);} 
    int st; waitpid(pid,&st,0); bool killed = WEXITSTATUS(st)==42; if(!killed) { if (more>0 || after) continue; }
    int done=-1; { std::ifstream p(dir+"/../killprog"); p>>done; } // last completed message index
    int inflight = killed ? done+1 : -1;
    ++runs;
    int next = killed ? inflight+1 : n;
    { auto h=mk<P>(limit,gens); for(int i=0;i<more;++i) msg(*h,next++); }
    std::vector<int> cat;
    for(int g=9;g>=0;--g){ std::ifstream f(dir+"/log."+std::to_string(g)); std::string l; size_t cnt=0; while(std::getline(f,l)){ cat.push_back(atoi(l.c_str()+1)); ++cnt; } }
    int last = next-1; if (last==inflight) last=inflight-1;
    bool ok=true; std::string why;
    for(size_t i=1;i<cat.size();++i){ int exp=cat[i-1]+1; if(exp==inflight) exp++; if(cat[i]!=exp){ ok=false; why="not contiguous"; } }
    if(last>=0 && (cat.empty()||cat.back()!=last)){ ok=false; why+=" last missing"; }
    if(!ok){ if(fails++<15){ std::cout<<nm<<" gens="<<gens<<" n="<<n<<" kill@"<<k<<(after?"after":"before")<<" more="<<more<<" inflight="<<inflight<<" : "<<why<<" cat="; for(int c:cat) std::cout<<c<<","; std::cout<<"\n"; } }
  }
  std::cout<<nm<<" runs="<<runs<<" fails="<<fails<<"\n"; return fails;
}
int main(){ int f=runAll<files::Counted>(2,"Counted"); f+=runAll<files::MaxSize>(13,"MaxSize"); return f!=0; }
