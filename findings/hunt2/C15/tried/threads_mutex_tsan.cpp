#include <iostream>
#include <fstream>
#include <thread>
#include <vector>
#include <set>
#include <filesystem>
#include "celma/log/filename/creator.hpp"
#include "celma/log/files/counted.hpp"
#include "celma/log/files/max_size.hpp"
#include "celma/log/files/handler.hpp"
#include "celma/log/formatting/creator.hpp"
#include "celma/log/formatting/format.hpp"
using namespace celma::log;
namespace fs = std::filesystem;
static const std::string dir = "/tmp/c15_tried_tho";
int main(){
  fs::remove_all(dir); fs::create_directories(dir);
  filename::Definition def; filename::Creator c(def);
  c << dir << "/log." << filename::date << "." << filename::number;
  formatting::Definition fd; formatting::Creator fc(fd); fc << formatting::date_time << "|" << formatting::text;
  const int T=8, N=300;
  for (int round=0; round<3; ++round){
    files::Handler<files::MaxSize, std::mutex> h(new files::MaxSize(def, 400, 1000));
    h.setFormatter(new formatting::Format(fd));
    std::vector<std::thread> th;
    for (int t=0;t<T;++t) th.emplace_back([&,t]{ for(int i=0;i<N;++i){ detail::LogMsg m(LOG_MSG_OBJECT_INIT); m.setText("r"+std::to_string(round)+"t"+std::to_string(t)+"i"+std::to_string(i)+"#"); h.handleMessage(m);} });
    for(auto&x:th) x.join();
  }
  // verify
  std::multiset<std::string> seen; size_t bad=0;
  for (auto& e: fs::directory_iterator(dir)){ std::ifstream f(e.path()); std::string l; size_t sz=0; while(std::getline(f,l)){ sz+=l.size()+1; auto p=l.find('|'); if(p==std::string::npos||l.back()!='#'){++bad; std::cout<<"bad line "<<l<<"\n";} else seen.insert(l.substr(p+1)); } if(sz>400) {++bad; std::cout<<"oversize "<<e.path()<<" "<<sz<<"\n";} }
  std::cout<<"lines="<<seen.size()<<" expected="<<3*T*N<<" bad="<<bad<<"\n";
  std::set<std::string> u(seen.begin(),seen.end()); std::cout<<"unique="<<u.size()<<"\n";
}
