#include <iostream>
#include <fstream>
#include <filesystem>
#include "celma/log/filename/creator.hpp"
#include "celma/log/files/factory.hpp"
#include "celma/log/logging.hpp"
#include "celma/log/log_macros.hpp"
#include "celma/log/detail/log.hpp"
using namespace celma::log; namespace fs=std::filesystem;
int main(){
  std::string dir="/tmp/c15_tried_integ_o"; fs::remove_all(dir);
  filename::Definition def; filename::Creator c(def);
  c << dir << "/app." << 2 << filename::number << ".log";
  auto id = Logging::instance().findCreateLog("mylog");
  int n=0;
  for(int round=0; round<4; ++round){
    Logging::instance().getLog(id)->addDestination("file", files::factory(def, 400, 12));
    for(int i=0;i<7;++i) LOG(id) << "message number " << n++;
    Logging::instance().getLog(id)->removeDestination("file");
  }
  std::vector<std::string> names; for(auto&e:fs::directory_iterator(dir)) names.push_back(e.path().filename().string()); std::sort(names.rbegin(),names.rend());
  int expect=-1; bool ok=true;
  for(auto&nm:names){ std::ifstream f(dir+"/"+nm); std::string l; size_t sz=0; int cnt=0; while(std::getline(f,l)){ sz+=l.size()+1; ++cnt; auto p=l.rfind(' '); int v=atoi(l.c_str()+p+1); if(expect>=0 && v!=expect) {ok=false; std::cout<<"order break at "<<v<<"\n";} expect=v+1; if(l.empty()) {ok=false; std::cout<<"empty line\n";} } std::cout<<nm<<" lines="<<cnt<<" bytes="<<sz<<"\n"; if(sz>400) ok=false; }
  std::cout<<"last="<<expect-1<<" written="<<n<<" ok="<<ok<<"\n";
}
