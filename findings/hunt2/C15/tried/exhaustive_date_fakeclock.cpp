// exhaustive harness with date part in the file name and a fake clock (midnight events)
#include <iostream>
#include <fstream>
#include <sstream>
#include <vector>
#include <memory>
#include <map>
#include <algorithm>
#include <filesystem>
#include "celma/log/filename/creator.hpp"
#include "celma/log/files/counted.hpp"
#include "celma/log/files/max_size.hpp"
#include "celma/log/files/handler.hpp"
using namespace celma::log;
namespace fs = std::filesystem;
static time_t g_now = 1790000000; // fake
extern "C" time_t time(time_t* t){ if(t) *t=g_now; return g_now; }
struct TextOnly : detail::IFormatStream { void format(std::ostream& o, const detail::LogMsg& m) const override { o << m.getText(); } };
static const std::string dir = "/tmp/c15_tried_exdo";
static int fails = 0;
template<class P> struct Run {
  size_t limit; int gens; std::unique_ptr<files::Handler<P>> h;
  void open(){ filename::Definition def; filename::Creator c(def); c << dir << "/log." << filename::date << "." << filename::number; h.reset(new files::Handler<P>(new P(def, limit, gens))); h->setFormatter(new TextOnly); }
  void close(){ h.reset(); }
  void msg(const std::string& t){ detail::LogMsg m(LOG_MSG_OBJECT_INIT); m.setText(t); h->handleMessage(m);}  
};
template<class P> bool check(const std::vector<int>& hist, size_t limit, int gens, bool bytes, std::string& why){
  fs::remove_all(dir); fs::create_directories(dir); g_now = 1790000000;
  Run<P> r{limit,gens,{}}; r.open();
  std::vector<std::string> all; int seq=0;
  for (int ev: hist){
    if (ev==-1){ r.close(); r.open(); }
    else if (ev==-2){ g_now += 86400; }
    else { std::string t = std::to_string(seq++%10); while((int)t.size()<ev) t+=char('a'+(seq%26)); t.resize(ev); all.push_back(t); r.msg(t);} 
    // collect files: sort by date asc, then gen desc
    std::vector<std::pair<std::string,int>> files;
    for (auto&e: fs::directory_iterator(dir)){ auto n=e.path().filename().string(); auto p=n.rfind('.'); files.push_back({n.substr(4,p-4), -std::stoi(n.substr(p+1))}); }
    std::sort(files.begin(),files.end());
    std::vector<std::string> cat;
    for (auto&f: files){ std::ifstream in(dir+"/log."+f.first+"."+std::to_string(-f.second)); std::vector<std::string> v; std::string l; while(std::getline(in,l)) v.push_back(l);
      size_t sz=0; for(auto&s:v) sz+=s.size()+1;
      if (bytes){ if (v.size()>1 && sz>limit){ why="exceeds byte limit"; return false; } } else if (v.size()>limit){ why="exceeds count"; return false; }
      for(auto&s:v) cat.push_back(s); }
    if (cat.size()>all.size()){ why="more lines than written"; return false; }
    for (size_t i=0;i<cat.size();++i) if (cat[cat.size()-1-i]!=all[all.size()-1-i]){ why="not a suffix"; return false; }
    if (ev>=0 && (cat.empty()||cat.back()!=all.back())){ why="last message missing"; return false; }
  }
  return true;
}
template<class P> void enumerate(bool bytes, const std::vector<int>& alphabet, int maxlen, std::vector<size_t> limits){
  for (size_t limit: limits) for (int gens=1; gens<=3; ++gens){
    std::vector<int> idx; 
    for (int len=1; len<=maxlen; ++len){
      idx.assign(len,0);
      while(true){
        std::vector<int> hist; for(int i:idx) hist.push_back(alphabet[i]);
        std::string why; bool ok=false;
        try { ok = check<P>(hist,limit,gens,bytes,why);} catch(std::exception&e){ why=std::string("exception: ")+e.what(); }
        if(!ok){ static std::map<std::string,int> seen; std::string key=why+"/"+std::to_string(limit)+"/"+std::to_string(gens)+(bytes?"M":"C"); if(seen[key]++<1){ ++fails; std::cout<<(bytes?"MaxSize":"Counted")<<" limit="<<limit<<" gens="<<gens<<" hist="; for(int e:hist) std::cout<<e<<","; std::cout<<" : "<<why<<"\n"; } }
        int p=len-1; while(p>=0 && ++idx[p]==(int)alphabet.size()){ idx[p]=0; --p; } if(p<0) break;
      }
    }
  }
}
int main(){
  enumerate<files::Counted>(false, {-2,-1,1}, 7, {1,2});
  enumerate<files::MaxSize>(true, {-2,-1,1,3}, 6, {5,8});
  std::cout<<"fails="<<fails<<"\n";
}
