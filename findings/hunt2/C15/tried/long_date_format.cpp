#include <iostream>
#include <fstream>
#include <filesystem>
#include "celma/log/filename/creator.hpp"
#include "celma/log/files/counted.hpp"
#include "celma/log/files/handler.hpp"
using namespace celma::log; namespace fs=std::filesystem;
struct TextOnly : detail::IFormatStream { void format(std::ostream& o, const detail::LogMsg& m) const override { o << m.getText(); } };
int main(int argc,char**argv){
  int n=atoi(argv[1]); std::string dir="/tmp/c15_tried_sfo"; fs::remove_all(dir); fs::create_directories(dir);
  filename::Definition def; filename::Creator c(def);
  c << dir << "/" << filename::formatString(std::string(n,'a')+"-%Y-%m-%d") << filename::date << "." << filename::number;
  { files::Handler<files::Counted> h(new files::Counted(def,3,3)); h.setFormatter(new TextOnly);
  for(int i=1;i<=9;++i){ detail::LogMsg m(LOG_MSG_OBJECT_INIT); m.setText("message "+std::to_string(i)); h.handleMessage(m);} }
  for(auto&e:fs::directory_iterator(dir)){ std::cout<<e.path().filename().string().substr(n>100?100:0)<<": "; std::ifstream f(e.path()); std::string l; while(std::getline(f,l)) std::cout<<l<<"; "; std::cout<<"\n"; }
}
