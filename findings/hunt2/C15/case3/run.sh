#!/bin/bash
# usage: run.sh <source root>   (the directory that contains src/, or src/ itself)
# exits non-zero and prints FAIL when the violation shows
ROOT="${1:-/tmp/mut/J15}"
[ -d "$ROOT/src/celma" ] && ROOT="$ROOT/src"
HERE="$(cd "$(dirname "$0")" && pwd)"
WORK="$(mktemp -d /tmp/c15_case3.XXXXXX)"
trap 'rm -rf "$WORK"' EXIT
SAN="${SAN:--fsanitize=address,undefined}"

SRCS="
library/common/detail/file_funcs_os.cpp
library/common/exception_base.cpp
library/common/extract_funcname.cpp
library/common/file_operations.cpp
library/log/detail/format_stream_default.cpp
library/log/detail/i_log_dest.cpp
library/log/detail/log_msg.cpp
library/log/filename/builder.cpp
library/log/filename/creator.cpp
library/log/files/policy_base.cpp
library/log/files/max_size.cpp
library/log/formatting/creator.cpp
library/log/formatting/format.cpp
library/log/log_attributes.cpp
library/log/detail/log_attributes_container.cpp
library/log/filter/detail/duplicate_policy_factory.cpp
library/log/filter/detail/log_filter_classes.cpp
library/log/filter/filters.cpp
"
for f in $SRCS; do echo "$f"; done | xargs -P4 -I{} sh -c \
   "clang++ -std=c++17 -g -O1 -w $SAN -I'$ROOT' -c '$ROOT/{}' -o '$WORK/'\$(echo {} | tr / _).o" || { echo "BUILD ERROR"; exit 2; }
clang++ -std=c++17 -g -O1 -w $SAN -I"$ROOT" "$HERE/demo.cpp" "$WORK"/*.o -lpthread -o "$WORK/demo" || { echo "BUILD ERROR"; exit 2; }
"$WORK/demo" "$WORK/out" 90
