// C15 / case3: files::Handler< MaxSize, std::mutex> used by two threads.
// The names of the generations are built with ::localtime() (static buffer),
// the message text is formatted OUTSIDE the handler's lock, also with
// ::localtime(). When the two calls overlap, rollFiles()/open() work with a
// file name that carries a wrong (mixed) date: a generation is renamed to a
// name outside the generation sequence (its messages are missing when the
// generations are read), or a foreign file is created/truncated.
//
// Thread 1 logs "new event <n>" with the current time.
// Thread 2 logs events that carry their original, older timestamp
// (LogMsg::setTimestamp() is public API, e.g. forwarding recorded events).
// Public API only.

#include <atomic>
#include <chrono>
#include <ctime>
#include <filesystem>
#include <fstream>
#include <iostream>
#include <mutex>
#include <set>
#include <string>
#include <thread>
#include <vector>

#include "celma/log/filename/creator.hpp"
#include "celma/log/files/handler.hpp"
#include "celma/log/files/max_size.hpp"
#include "celma/log/formatting/creator.hpp"
#include "celma/log/formatting/format.hpp"

using namespace celma::log;
namespace fs = std::filesystem;

namespace {

std::string today()
{
   char         buf[ 32];
   const time_t now = ::time( nullptr);
   struct tm    tmv;
   ::localtime_r( &now, &tmv);
   ::strftime( buf, sizeof( buf), "%F", &tmv);
   return buf;
}

} // namespace


int main( int argc, char* argv[])
{
   const std::string  dir = (argc > 1) ? argv[ 1] : "/tmp/c15_case3";
   const int          max_seconds = (argc > 2) ? std::atoi( argv[ 2]) : 60;

   fs::remove_all( dir);
   fs::create_directories( dir);

   filename::Definition  def;
   filename::Creator     creator( def);
   creator << dir << "/app." << filename::date << "." << filename::number
           << ".log";

   formatting::Definition  fmt_def;
   formatting::Creator     fmt_creator( fmt_def);
   fmt_creator << formatting::date_time << "|" << formatting::text;

   std::set< std::string>  good_names;
   auto  add_good = [&]()
   {
      for (int g = 0; g < 3; ++g)
         good_names.insert( "app." + today() + "." + std::to_string( g) + ".log");
   };
   add_good();

   long        written = 0;
   std::string bogus;
   {
      // 600 bytes per file, 3 generations, locked with a std::mutex
      files::Handler< files::MaxSize, std::mutex>
         h( new files::MaxSize( def, 600, 3));
      h.setFormatter( new formatting::Format( fmt_def));

      std::atomic< bool>  stop{ false};
      auto  replay_func = [&]()
      {
         // 1999-12-25 12:00:00 UTC
         const time_t  recorded = 946123200;
         while (!stop)
         {
            detail::LogMsg  m( LOG_MSG_OBJECT_INIT);
            m.setTimestamp( recorded);
            m.setText( "recorded event");
            h.handleMessage( m);
         }
      };
      std::vector< std::thread>  replay;
      for (int t = 0; t < 3; ++t)
         replay.emplace_back( replay_func);

      auto const  start = std::chrono::steady_clock::now();
      while (bogus.empty())
      {
         {
            detail::LogMsg  m( LOG_MSG_OBJECT_INIT);
            m.setText( "new event " + std::to_string( written++));
            h.handleMessage( m);
         }
         if (written % 1000 == 0)
            add_good();   // in case midnight passes while the demo runs
         for (auto const& e : fs::directory_iterator( dir))
         {
            if (good_names.count( e.path().filename().string()) == 0)
               bogus = e.path().filename().string();
         }
         if (std::chrono::steady_clock::now() - start
             > std::chrono::seconds( max_seconds))
            break;
      }
      stop = true;
      for (auto& t : replay)
         t.join();
   }

   std::cout << "wrote " << written << " 'new event' messages, today is "
             << today() << "\nfiles in the log directory:\n";
   for (auto const& e : fs::directory_iterator( dir))
   {
      const std::string  name = e.path().filename().string();
      std::cout << "   " << name
                << ((good_names.count( name) == 0)
                    ? "   <-- date was never current" : "") << "\n";
      if (good_names.count( name) == 0)
      {
         std::ifstream  f( e.path());
         std::string    l;
         while (std::getline( f, l))
            std::cout << "        " << l << "\n";
      }
   }

   // read the generations oldest to newest, the 'new event' numbers must be
   // consecutive and end with the last one written
   std::vector< long>  numbers;
   for (int g = 2; g >= 0; --g)
   {
      std::ifstream  f( dir + "/app." + today() + "." + std::to_string( g)
                        + ".log");
      std::string    l;
      while (std::getline( f, l))
      {
         auto const  p = l.find( "new event ");
         if (p != std::string::npos)
            numbers.push_back( std::stol( l.substr( p + 10)));
      }
   }
   bool  gap = numbers.empty() || (numbers.back() != written - 1);
   for (size_t i = 1; i < numbers.size(); ++i)
   {
      if (numbers[ i] != numbers[ i - 1] + 1)
      {
         std::cout << "gap in the retained generations: " << numbers[ i - 1]
                   << " is followed by " << numbers[ i] << "\n";
         gap = true;
      }
   }

   if (!bogus.empty() || gap)
   {
      std::cout << "FAIL: generation renamed to/created with a wrong date ("
                << bogus << ")"
                << (gap ? ", messages missing from the generation sequence" : "")
                << "\n";
      return 1;
   }
   std::cout << "ok (race not hit in " << max_seconds << "s)\n";
   return 0;
}
