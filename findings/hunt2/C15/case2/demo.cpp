// C15 / case2: after the first roll-over the log file is no longer opened in
// append mode. A second writer on the same files (a second Handler object in
// the same process, or the new process instance during a restart while the old
// one is still shutting down) then gets its messages overwritten.
//
// Single thread, fully deterministic. Public API only.

#include <filesystem>
#include <fstream>
#include <iostream>
#include <memory>
#include <string>
#include <vector>

#include "celma/log/filename/creator.hpp"
#include "celma/log/files/counted.hpp"
#include "celma/log/files/handler.hpp"

using namespace celma::log;
namespace fs = std::filesystem;

namespace {

struct TextOnly : detail::IFormatStream
{
   void format( std::ostream& o, const detail::LogMsg& m) const override
   {
      o << m.getText();
   }
};

using handler_t = files::Handler< files::Counted>;

std::unique_ptr< handler_t> makeHandler( const filename::Definition& def)
{
   // at most 100 entries per file, 3 generations
   auto  h = std::make_unique< handler_t>( new files::Counted( def, 100, 3));
   h->setFormatter( new TextOnly);
   return h;
}

void log( handler_t& h, const std::string& text)
{
   detail::LogMsg  m( LOG_MSG_OBJECT_INIT);
   m.setText( text);
   h.handleMessage( m);
}

int run( const std::string& dir, bool roll_first)
{
   fs::remove_all( dir);
   fs::create_directories( dir);

   filename::Definition  def;
   filename::Creator     creator( def);
   creator << dir << "/app." << filename::number << ".log";

   std::vector< std::string>  expected;

   auto  first = makeHandler( def);
   if (roll_first)
   {
      // fill one generation so that 'first' has gone through a roll-over
      for (int i = 0; i < 100; ++i)
         log( *first, "filler " + std::to_string( i));
   }
   // 'first' writes one line into the current generation 0
   log( *first, "first: line 1");
   expected.push_back( "first: line 1");

   // now a second writer is attached to the same files (e.g. second log id
   // routed into the same file, or the restarted process)
   auto  second = makeHandler( def);
   log( *second, "second: line A");
   log( *second, "second: line B");
   expected.push_back( "second: line A");
   expected.push_back( "second: line B");

   // and the first one continues
   log( *first, "first: line 2");
   expected.push_back( "first: line 2");

   first.reset();
   second.reset();

   std::ifstream               f( dir + "/app.0.log");
   std::vector< std::string>   found;
   std::string                 l;
   while (std::getline( f, l))
      found.push_back( l);

   std::cout << (roll_first ? "after a roll-over" : "before any roll-over")
             << ": generation 0 contains " << found.size() << " lines, expected "
             << expected.size() << "\n";
   for (auto const& s : found)
      std::cout << "    |" << s << "|\n";

   return (found == expected) ? 0 : 1;
}

} // namespace


int main( int argc, char* argv[])
{
   const std::string  base = (argc > 1) ? argv[ 1] : "/tmp/c15_case2";

   const int  r1 = run( base + "/fresh", false);
   const int  r2 = run( base + "/rolled", true);

   if (r1 != 0)
      std::cout << "FAIL: messages lost/garbled even before the first roll-over\n";
   if (r2 != 0)
      std::cout << "FAIL: messages of the second writer were overwritten "
                   "(file re-opened without append mode after roll-over)\n";
   if ((r1 == 0) && (r2 == 0))
      std::cout << "ok\n";
   return ((r1 != 0) || (r2 != 0)) ? 1 : 0;
}
