// C15 / case4: the generation number is part of the DIRECTORY name
// ("<dir>/gen<nbr>/app.log"). PolicyBase::open() creates the missing directory
// of generation 0 itself, rollFiles() does not do that for the older
// generations: rename() fails, the error is ignored, and the following
// open( true) truncates generation 0. Every roll-over silently destroys a
// complete generation, max_gen generations are never kept.
//
// Single thread, deterministic, public API only.

#include <filesystem>
#include <fstream>
#include <iostream>
#include <string>
#include <vector>

#include "celma/log/filename/creator.hpp"
#include "celma/log/files/counted.hpp"
#include "celma/log/files/handler.hpp"

using namespace celma::log;
namespace fs = std::filesystem;

namespace {

struct TextOnly : detail::IFormatStream
{
   void format( std::ostream& o, const detail::LogMsg& m) const override
   {
      o << m.getText();
   }
};

} // namespace


int main( int argc, char* argv[])
{
   const std::string  dir = (argc > 1) ? argv[ 1] : "/tmp/c15_case4";

   fs::remove_all( dir);
   fs::create_directories( dir);

   filename::Definition  def;
   filename::Creator     creator( def);
   creator << dir << "/gen" << filename::number << "/app.log";

   {
      // 3 entries per file, 3 generations
      files::Handler< files::Counted>  h( new files::Counted( def, 3, 3));
      h.setFormatter( new TextOnly);
      for (int i = 1; i <= 9; ++i)
      {
         detail::LogMsg  m( LOG_MSG_OBJECT_INIT);
         m.setText( "message " + std::to_string( i));
         h.handleMessage( m);
      }
   }

   std::vector< std::string>  found;
   for (int g = 2; g >= 0; --g)
   {
      const std::string  name = dir + "/gen" + std::to_string( g) + "/app.log";
      std::ifstream      f( name);
      std::string        l;
      std::cout << name << (f ? "" : "   (does not exist)") << "\n";
      while (std::getline( f, l))
      {
         std::cout << "    " << l << "\n";
         found.push_back( l);
      }
   }

   std::cout << "wrote 9 messages with limit 3 entries x 3 generations, found "
             << found.size() << "\n";
   if (found.size() != 9)
   {
      std::cout << "FAIL: rolled generations were destroyed instead of kept\n";
      return 1;
   }
   std::cout << "ok\n";
   return 0;
}
