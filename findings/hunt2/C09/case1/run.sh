#!/bin/bash
# usage: run.sh <source root>      (directory that contains src/, or src itself)
# Builds demo.cpp against the unmodified library sources and runs it.
# Exit code != 0 and "FAIL" when the violation shows.
# Set WITH_TSAN=0 to skip the second (ThreadSanitizer) step.
ROOT=${1:-/tmp/mut/J09}
if [ -d "$ROOT/src/celma" ]; then SRC="$ROOT/src"; else SRC="$ROOT"; fi
HERE=$(cd "$(dirname "$0")" && pwd)
WORK=$(mktemp -d /tmp/c09case1.XXXXXX)
trap 'rm -rf "$WORK"' EXIT
CXX=${CXX:-clang++}

find "$SRC/library/prog_args" "$SRC/library/common" "$SRC/library/format" \
     "$SRC/library/appl" "$SRC/library/container" -name '*.cpp' \
   | grep -v /test | grep -v print_version_info > "$WORK/srcs.txt"

build() {  # $1 = sub-directory, $2.. = additional compiler flags
   local dir="$WORK/$1"; shift
   mkdir -p "$dir"
   local n=0
   while read -r f; do n=$((n+1)); echo "$f $dir/$n.o"; done < "$WORK/srcs.txt" \
      | xargs -P 4 -L 1 sh -c "$CXX -std=c++17 -g -O1 -w $* -I'$SRC' -c \$0 -o \$1" || return 1
   $CXX -std=c++17 -g -O1 -w "$@" -I"$SRC" "$HERE/demo.cpp" "$dir"/*.o -lpthread -o "$dir/demo"
}

rc=0

echo "== step 1: plain build, output of thread B compared with the output it produces alone"
build plain || { echo "build failed"; exit 2; }
failed=0
for attempt in 1 2 3 4 5; do
   "$WORK/plain/demo" 20000 > "$WORK/out1.txt" 2>&1
   if grep -q '^FAIL' "$WORK/out1.txt"; then failed=1; break; fi
done
cat "$WORK/out1.txt"
[ $failed = 1 ] && rc=1

if [ "${WITH_TSAN:-1}" = 1 ]; then
   echo "== step 2: -fsanitize=thread, both threads print the usage of their own handler on std::cout"
   if build tsan -fsanitize=thread; then
      "$WORK/tsan/demo" 200 usage-usage > /dev/null 2> "$WORK/out2.txt"
      if grep -q 'ThreadSanitizer: data race' "$WORK/out2.txt" \
         && grep -q 'ArgumentDesc::printArguments' "$WORK/out2.txt"; then
         grep -m1 -A4 'ThreadSanitizer: data race' "$WORK/out2.txt" | cut -c1-200
         echo "FAIL: data race on the format state of std::cout in ArgumentDesc::printArguments()"
         rc=1
      else
         echo "no data race reported"
      fi
   else
      echo "(tsan build not possible, step skipped)"
   fi
fi

[ $rc = 0 ] && echo "PASS"
exit $rc
