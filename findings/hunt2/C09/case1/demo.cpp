// Two threads, each with its OWN handler, its OWN destination variables and
// its OWN command line.  Both handlers are created with the constructor
// Handler( int flags), which wires the output of the handler to std::cout.
//
// thread A:  prints its usage ("-h", flag hfUsageCont so that the process
//            goes on) again and again
// thread B:  flag hfVerboseArgs, evaluates "-v <n>" again and again; running
//            alone it prints exactly the line "v: value '<n>' is assigned"
//
// (Second mode, "usage-usage": both threads do what thread A does, used with
// -fsanitize=thread to get the data race reported, see run.sh.)
//
// std::cout is redirected into a (mutex protected, i.e. thread-safe) stream
// buffer that keeps the characters written by each thread apart, so that the
// output of thread B can be compared with the output it produces when it runs
// alone.  Any difference can not be explained by the interleaving of complete
// insertions: the field width that ArgumentDesc::printArguments() sets on the
// shared stream object for thread A is consumed by an insertion of thread B.
#include "celma/prog_args.hpp"
#include "celma/prog_args/eval_argument_string.hpp"

#include <atomic>
#include <iostream>
#include <map>
#include <mutex>
#include <streambuf>
#include <string>
#include <thread>

using celma::prog_args::Handler;
using celma::prog_args::evalArgumentString;

namespace {

/// Thread-safe stream buffer, collects the output per thread.
class PerThreadBuf: public std::streambuf
{
public:
   std::string get( std::thread::id id)
   {
      const std::lock_guard< std::mutex>  lg( mMutex);
      return mData[ id];
   }
protected:
   int_type overflow( int_type c) override
   {
      const std::lock_guard< std::mutex>  lg( mMutex);
      if (c != traits_type::eof())
         mData[ std::this_thread::get_id()].append( 1, static_cast< char>( c));
      return c;
   }
   std::streamsize xsputn( const char* s, std::streamsize n) override
   {
      const std::lock_guard< std::mutex>  lg( mMutex);
      mData[ std::this_thread::get_id()].append( s, n);
      return n;
   }
private:
   std::mutex                               mMutex;
   std::map< std::thread::id, std::string>  mData;
};

std::atomic< bool>  stop{ false};
std::atomic< int>   ready{ 0};

void threadA( int max_rounds)
{
   ++ready;
   while (ready < 2) { }
   for (int round = 0; !stop && (round != max_rounds); ++round)
   {
      Handler      ah( Handler::hfHelpShort | Handler::hfUsageCont);
      int          first = 0;
      std::string  second;
      ah.addArgument( "f,first-argument-of-thread-a", DEST_VAR( first), "first");
      ah.addArgument( "s,second-argument-of-thread-a", DEST_VAR( second), "second");
      evalArgumentString( ah, "-h");
   }
}

int runB( int rounds, std::string& expected)
{
   for (int i = 0; i < rounds; ++i)
   {
      Handler  ah( Handler::hfVerboseArgs);
      int      v = 0;
      ah.addArgument( "v", DEST_VAR( v), "value");
      evalArgumentString( ah, "-v " + std::to_string( i));
      if (v != i)
         return 1;
      expected.append( "v: value '" + std::to_string( i) + "' is assigned\n");
   }
   return 0;
}

} // namespace

int main( int argc, char* argv[])
{
   const int     rounds = (argc > 1) ? std::atoi( argv[ 1]) : 20000;
   PerThreadBuf  buf;

   if ((argc > 2) && (std::string( argv[ 2]) == "usage-usage"))
   {
      // mode for a build with -fsanitize=thread: both threads print the usage
      // of their own handler on std::cout (not redirected), so that both
      // accesses to the format state of std::cout are in instrumented code
      std::thread  t1( threadA, rounds);
      std::thread  t2( threadA, rounds);
      t1.join();
      t2.join();
      return 0;
   } // end if

   auto          orig = std::cout.rdbuf( &buf);
   std::string   expected;
   std::string   outputB;
   int           wrongValue = 0;

   std::thread  ta( threadA, -1);
   std::thread  tb( [&]()
   {
      ++ready;
      while (ready < 2) { }
      wrongValue = runB( rounds, expected);
      outputB = buf.get( std::this_thread::get_id());
   });
   tb.join();
   stop = true;
   ta.join();
   std::cout.rdbuf( orig);

   if (wrongValue != 0)
   {
      std::cout << "FAIL: wrong value stored" << std::endl;
      return 1;
   }

   if (outputB != expected)
   {
      // find the first line that differs
      size_t  pos = 0;
      while ((pos < outputB.size()) && (pos < expected.size())
             && (outputB[ pos] == expected[ pos]))
         ++pos;
      auto const  lineStart = outputB.rfind( '\n', pos);
      auto const  from = (lineStart == std::string::npos) ? 0 : lineStart + 1;
      std::cout << "FAIL: the verbose output of thread B differs from the output "
                   "it produces alone, first difference in line:\n   >"
                << outputB.substr( from, outputB.find( '\n', pos) - from)
                << "<" << std::endl;
      return 1;
   }

   std::cout << "ok: output of thread B as expected (" << rounds << " rounds)"
             << std::endl;
   return 0;
}
