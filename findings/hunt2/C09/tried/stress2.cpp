#include "celma/prog_args.hpp"
#include "celma/prog_args/eval_argument_string.hpp"
#include "celma/prog_args/value_handler.hpp"
#include "celma/prog_args/i_usage_text.hpp"
#include "celma/container/dynamic_bitset.hpp"
#include <thread>
#include <vector>
#include <set>
#include <map>
#include <unordered_map>
#include <unordered_set>
#include <stack>
#include <queue>
#include <deque>
#include <list>
#include <forward_list>
#include <sstream>
#include <fstream>
#include <atomic>
#include <iostream>
#include <unistd.h>

using namespace celma::prog_args;
using celma::prog_args::Handler;

UsageText(pre, beforeArgs, "text before");
UsageText(post, afterArgs, "text after");

static std::atomic<int> gate{0};
static std::atomic<int> failures{0};
static bool use_pattern = false;

void worker(int id, int nthreads)
{
   std::string fname = "/tmp/c09_argfile_" + std::to_string(id) + ".txt";
   { std::ofstream f(fname); f << "# comment\n-n " << id + 100 << "\n--queue 4,5,6\n"; }
   gate.fetch_add(1);
   while (gate.load() < nthreads) {}
   for (int round = 0; round < 20; ++round)
   {
      try {
      std::ostringstream out, err;
      Handler ah(out, err, Handler::hfHelpShort | Handler::hfHelpLong | Handler::hfUsageCont
         | Handler::hfListArgVar | Handler::hfHelpArgFull | Handler::hfVerboseArgs | Handler::hfEnvVarArgs | Handler::hfUsageHidden | Handler::hfUsageDeprecated, pre.get(), post.get());
      ah.setUsageLineLength(60 + id * 5);
      ah.checkEnvVarArgs("STRESS2_ENV_" + std::to_string(id));
      Handler sub(ah, Handler::hfHelpShort);
      Handler sub2(out, err, 0);
      int n = 0; std::string name, subname; int subtype = 0; int sub2val = 0;
      std::vector<bool> vb; celma::container::DynamicBitset dbs(10);
      std::stack<int> st; std::queue<int> qu; std::priority_queue<int> pq; std::deque<int> dq; std::list<std::string> li;
      std::forward_list<int> fl; std::multiset<int> ms; std::unordered_set<int> us; std::unordered_map<int,std::string> um;
      std::multimap<std::string,int> mm; std::vector<int> va, vb2; int start = 0, end = 0; int calls = 0; std::string cval;
      std::string pat; bool f1 = false, f2 = false, f3 = false; int c1 = 0; int valarg = 0; std::string cmdrest;
      const char sep = "%:;+/|#@"[id % 8];
      std::string s(1, sep);
      ah.addArgumentFile("arg-file");
      ah.addArgument("n", DEST_VAR(n), "number")->setValueUnit("pieces");
      ah.addArgument("name", DEST_VAR(name), "name")->addFormat(anycase("Ull"))->addCheck(check_function([](const std::string& v){ return v.size() < 10; }, "short"));
      sub.addArgument("c", DEST_PAIR(subname, subtype, 1), "cache name");
      sub.addArgument("f", DEST_PAIR(subname, subtype, 2), "file name");
      ah.addArgument("i", sub, "input");
      sub2.addArgument("x", DEST_VAR(sub2val), "x value");
      ah.addArgument("o", sub2, "output");
      ah.addArgument("vb", DEST_VAR(vb), "vector bool")->setListSep(sep);
      ah.addArgument("dbs", DEST_VAR(dbs), "dyn bitset")->setListSep(sep);
      ah.addArgument("stack", DEST_VAR(st), "stack")->setListSep(sep);
      ah.addArgument("queue", DEST_VAR(qu), "queue");
      ah.addArgument("pq", DEST_VAR(pq), "prio queue")->setListSep(sep);
      ah.addArgument("deque", DEST_VAR(dq), "deque")->setListSep(sep)->setCardinality(cardinality_range(1, 5));
      ah.addArgument("list", DEST_VAR(li), "list")->setListSep(sep)->addFormat(formatFunction([](std::string& v){ v += "_x"; }, "append"));
      ah.addArgument("fl", DEST_VAR(fl), "fwd list")->setListSep(sep);
      ah.addArgument("ms", DEST_VAR(ms), "multiset")->setListSep(sep);
      ah.addArgument("us", DEST_VAR(us), "unordered set")->setListSep(sep);
      ah.addArgument("um", DEST_VAR(um), "unordered map")->setPairFormat("={}");
      ah.addArgument("mm", DEST_VAR(mm), "multimap");
      ah.addArgument("va", DEST_VAR(va), "vec a")->setListSep(sep);
      ah.addArgument("vb2", DEST_VAR(vb2), "vec b")->setListSep(sep);
      ah.addConstraint(disjoint("va;vb2"));
      ah.addArgument("start", DEST_START_END(start, end), "start");
      ah.addArgument("end", DEST_START_END(end, start), "end");
      ah.addArgument("call", DEST_LAMBDA([&](bool){ ++calls; }), "callable")->setCardinality(cardinality_max(3));
      ah.addArgument("cval", DEST_LAMBDA_VALUE(([&](const std::string& v, bool){ cval = v; })), "callable value");
      if (use_pattern) ah.addArgument("pat", DEST_VAR(pat), "pattern")->addCheck(pattern("^[a-z]+[0-9]*$"));
      ah.addArgument("f1", DEST_VAR(f1), "f1");
      ah.addArgument("f2", DEST_VAR(f2), "f2");
      ah.addArgument("f3", DEST_VAR(f3), "f3");
      ah.addConstraint(all_of("f1;f2"));
      ah.addArgument("v1", DEST_VAR_VALUE(valarg, 11), "value 1");
      ah.addArgument("v2", DEST_VAR_VALUE(valarg, 22), "value 2");
      ah.addConstraint(any_of("f3;v1"));
      ah.addArgument("-", DEST_VAR(cmdrest), "rest")->setValueMode(Handler::ValueMode::command);
      std::string cmd = "--arg-file " + fname + " --name hELLO -ic mycache -o -x 42 --vb 1" + s + "3 --dbs 2" + s + "4 --stack 1" + s + "2" + s + "3"
         " --pq 3" + s + "9" + s + "1 --deque 1" + s + "2 --list a" + s + "b --fl 7" + s + "8 --ms 2" + s + "2 --us 5" + s + "6"
         " --um {1=one};{2=two} --mm a,1;a,2 --va 1" + s + "2 --vb2 3" + s + "4 --start 10 --end 20 --call --call --cval xyz"
         + (use_pattern ? " --pat abc123" : "") + " --f1 --f2 --v2 -h --list-arg-vars --help-arg-full name rest of " + std::to_string(id);
      evalArgumentString(ah, cmd);
      ah.printSummary(celma::common::operator|(SummaryOptions::with_type, SummaryOptions::with_key), out);
      if (n != id + 100 || name != "HelLO" || subname != "mycache" || subtype != 1 || sub2val != 42 || !vb[1] || !vb[3] || !dbs[2] || !dbs[4]
          || st.top() != 3 || qu.size() != 3 || pq.top() != 9 || dq.size() != 2 || li.front() != "a_x" || ms.count(2) != 2 || us.size() != 2
          || um[2] != "two" || mm.count("a") != 2 || va.size() != 2 || start != 10 || end != 20 || calls != 2 || cval != "xyz"
          || !f1 || !f2 || valarg != 22 || cmdrest != "rest of " + std::to_string(id))
      { failures++; std::cerr << "thread " << id << " wrong result n=" << n << " name=" << name << " rest=" << cmdrest << "\n"; }
      // expected failures
      int threw = 0;
      {
         Handler eh(out, err, 0); std::vector<int> a, b; int q = 0;
         eh.addArgument("a", DEST_VAR(a), "a")->setListSep(sep);
         eh.addArgument("b", DEST_VAR(b), "b")->setListSep(sep);
         eh.addArgument("q", DEST_VAR(q), "q")->addCheck(range(1, 10));
         eh.addConstraint(disjoint("a;b"));
         try { evalArgumentString(eh, "-a 1" + s + "2 -b 2" + s + "3"); } catch (const std::exception&) { ++threw; }
         try { evalArgumentString(eh, "-q 11"); } catch (const std::exception&) { ++threw; }
         try { evalArgumentString(eh, "-z"); } catch (const std::exception&) { ++threw; }
      }
      if (threw != 3) { failures++; std::cerr << "thread " << id << " threw " << threw << "\n"; }
      } catch (const std::exception& e) { failures++; std::cerr << "thread " << id << " exception " << e.what() << "\n"; }
   }
}

int main(int argc, char** argv)
{
   int n = argc > 1 ? atoi(argv[1]) : 8;
   use_pattern = argc > 2;
   for (int i = 0; i < n; ++i) setenv(("STRESS2_ENV_" + std::to_string(i)).c_str(), "--f3", 1);
   std::vector<std::thread> th;
   for (int i = 0; i < n; ++i) th.emplace_back(worker, i, n);
   for (auto& t : th) t.join();
   std::cout << "failures: " << failures << std::endl;
   return failures ? 1 : 0;
}
