// like case1/demo.cpp, but on the real stdout: run as  ./cout3_plain | grep -cE "^v {20,}: value"   (205 of 20000 lines when tried)
#include "celma/prog_args.hpp"
#include "celma/prog_args/eval_argument_string.hpp"
#include <atomic>
#include <thread>
using namespace celma::prog_args;
std::atomic<bool> stop{false};
int main() {
   std::thread a([]{ while (!stop) { Handler ah(Handler::hfHelpShort | Handler::hfUsageCont); int f = 0; std::string s;
      ah.addArgument("f,first-argument-of-thread-a", DEST_VAR(f), "first"); ah.addArgument("s,second-argument-of-thread-a", DEST_VAR(s), "second");
      evalArgumentString(ah, "-h"); } });
   std::thread b([]{ for (int i = 0; i < 20000; ++i) { Handler ah(Handler::hfVerboseArgs); int v = 0; ah.addArgument("v", DEST_VAR(v), "value"); evalArgumentString(ah, "-v " + std::to_string(i)); } });
   b.join(); stop = true; a.join();
}
