#include "celma/prog_args.hpp"
#include "celma/prog_args/groups.hpp"
#include "celma/prog_args/eval_argument_string.hpp"
#include <thread>
#include <vector>
#include <atomic>
#include <sstream>
#include <iostream>
using namespace celma::prog_args;
static std::atomic<int> gate{0};
static std::atomic<int> failures{0};
void groupsWorker(int n)
{
   gate++; while (gate < n) {}
   for (int r = 0; r < 50; ++r) {
      std::ostringstream out, err;
      auto& g = Groups::instance(out, err, Handler::hfUsageCont | Handler::hfListArgGroups);
      int a = 0, b = 0;
      auto h1 = g.getArgHandler("first", Handler::hfHelpShort | Handler::hfHelpLong);
      auto h2 = g.getArgHandler("second");
      h1->addArgument("a", DEST_VAR(a), "a value");
      h2->addArgument("b", DEST_VAR(b), "b value");
      try { evalArgumentString("-a 1 -b 2 -h --list-arg-groups"); } catch (const std::exception& e) { failures++; std::cerr << "groups: " << e.what() << "\n"; }
      if (a != 1 || b != 2 || out.str().find("second") == std::string::npos) { failures++; std::cerr << "groups wrong\n"; }
      h1.reset(); h2.reset();
      Groups::reset();
   }
}
void worker(int id, int n)
{
   gate++; while (gate < n) {}
   for (int r = 0; r < 200; ++r) {
      std::ostringstream out, err;
      Handler ah(out, err, Handler::hfHelpShort | Handler::hfUsageCont | Handler::hfListArgVar);
      Handler sub(ah, Handler::hfHelpShort);
      int v = 0, sv = 0; bool b = false;
      ah.addArgument("v,value", DEST_VAR(v), "the value");
      ah.addArgument("b", DEST_VAR(b), "flag");
      ah.addBracketHandler([](){}, [](){});
      sub.addArgument("x", DEST_VAR(sv), "sub value");
      ah.addArgument("s", sub, "sub group");
      std::string exp;
      try { evalArgumentString(ah, "-v 3 ( ) -s -x 5 -h"); } catch (const std::exception& e) { failures++; std::cerr << "standalone: " << e.what() << "\n"; }
      if (v != 3 || sv != 5) { failures++; std::cerr << "standalone wrong\n"; }
      if (out.str().find("Usage:\n") != 0 || out.str().find("first") != std::string::npos) { failures++; std::cerr << "standalone usage wrong: " << out.str() << "\n"; }
   }
}
int main() { int n = 4; std::vector<std::thread> t; t.emplace_back(groupsWorker, n); for (int i = 1; i < n; ++i) t.emplace_back(worker, i, n); for (auto& x : t) x.join(); std::cout << "failures " << failures << "\n"; return failures != 0; }
