#include "celma/prog_args.hpp"
#include "celma/prog_args/eval_argument_string.hpp"
#include "celma/prog_args/detail/check_is_file.hpp"
#include "celma/prog_args/detail/check_is_directory.hpp"
#include "celma/prog_args/detail/check_is_absolute_path.hpp"
#include "celma/prog_args/detail/check_parent_directory_exists.hpp"
#include "celma/prog_args/detail/check_file_suffix.hpp"
#include "celma/prog_args/detail/check_file_size.hpp"
#include "celma/prog_args/detail/check_file_modification.hpp"
#include <thread>
#include <vector>
#include <atomic>
#include <sstream>
#include <iostream>
#include <fstream>
using namespace celma::prog_args;
static std::atomic<int> gate{0};
static std::atomic<int> failures{0};
void worker(int id, int n)
{
   std::string fname = "/tmp/c09_fs_" + std::to_string(id) + ".txt";
   { std::ofstream f(fname); f << std::string(100 + id, 'x'); }
   gate++; while (gate < n) {}
   for (int r = 0; r < 50; ++r) {
      std::ostringstream out, err;
      Handler ah(out, err, Handler::hfHelpShort | Handler::hfUsageCont | Handler::hfHelpArgFull);
      std::string f, d, p;
      ah.addArgument("f", DEST_VAR(f), "file")->addCheck(isFile())->addCheck(isAbsolutePath())
        ->addCheck(fileSize<std::greater>(50))->addCheck(fileMod<std::less>(std::chrono::hours(1)));
      ah.addArgument("d", DEST_VAR(d), "dir")->addCheck(isDirectory()); std::string sx; ah.addArgument("x", DEST_VAR(sx), "sfx")->addCheck(fileSuffix("txt"));
      ah.addArgument("p", DEST_VAR(p), "parent")->addCheck(parentDirectoryExists());
      try { evalArgumentString(ah, "-f " + fname + " -d /tmp -x a.txt -p /tmp/abc -h --help-arg-full f"); } catch (const std::exception& e) { failures++; std::cerr << id << ": " << e.what() << "\n"; }
      if (f != fname) failures++;
   }
}
int main() { int n = 6; std::vector<std::thread> t; for (int i = 0; i < n; ++i) t.emplace_back(worker, i, n); for (auto& x : t) x.join(); std::cout << "failures " << failures << "\n"; return failures != 0; }
