#include "celma/prog_args.hpp"
#include "celma/prog_args/eval_argument_string.hpp"
#include "celma/prog_args/value_handler.hpp"
#include "celma/common/value_filter.hpp"
#include <thread>
#include <vector>
#include <set>
#include <map>
#include <sstream>
#include <atomic>
#include <iostream>
#include <bitset>
#include <optional>
#include <tuple>
#include <array>

using namespace celma::prog_args;
using celma::prog_args::Handler;

static std::atomic<int> gate{0};
static std::atomic<int> failures{0};

void worker(int id, int nthreads)
{
   gate.fetch_add(1);
   while (gate.load() < nthreads) {}
   for (int round = 0; round < 30; ++round)
   {
      try {
      std::ostringstream out, err;
      Handler ah(out, err, Handler::hfHelpShort | Handler::hfHelpLong | Handler::hfUsageCont
         | Handler::hfListArgVar | Handler::hfHelpArgFull | Handler::hfHelpArg | Handler::hfEndValues
         | Handler::hfUsageShort | Handler::hfUsageLong | Handler::hfArgHidden | Handler::hfArgDeprecated);
      int ival = 0; std::string sval; std::vector<int> vec; std::set<std::string> sset;
      std::map<std::string,int> mp; std::tuple<int,std::string,double> tup;
      std::array<int,3> arr{}; std::bitset<16> bs; std::optional<int> opt; LevelCounter lc;
      std::vector<int> rng; celma::common::ValueFilter<int> vf; bool flag = false;
      int first=0, second=0; double dval = 0.0;
      const char sep = "%:;+/|#@"[id % 8];
      ah.addArgument("i,integer", DEST_VAR(ival), "integer value")->addCheck(range(1, 1000))->setIsMandatory();
      ah.addArgument("s,string", DEST_VAR(sval), "string")->addFormat(uppercase())->addCheck(values("abc,def,ghi"))
         ->addConstraint(requiresArg("i"));
      ah.addArgument("v,vec", DEST_VAR(vec), "vector")->setListSep(sep)->setSortData()->setUniqueData()->setTakesMultiValue()
         ->addCheck(lower(0))->addCheck(upper(100));
      ah.addArgument("S,set", DEST_VAR(sset), "set")->setListSep(sep)->addFormat(lowercase())->addCheck(minLength(1))->addCheck(maxLength(8));
      ah.addArgument("m,map", DEST_VAR(mp), "map")->setListSep(sep == ';' ? '!' : ';');
      ah.addArgument("t,tuple", DEST_VAR(tup), "tuple")->setListSep(sep);
      ah.addArgument("a,array", DEST_VAR(arr), "array")->setListSep(sep);
      ah.addArgument("b,bits", DEST_VAR(bs), "bitset")->setListSep(sep);
      ah.addArgument("o,opt", DEST_VAR(opt), "optional");
      ah.addArgument("l,level", DEST_VAR(lc), "level")->setPrintDefault(false);
      ah.addArgument("r,range", DEST_RANGE(rng, int, std::vector), "range");
      ah.addArgument("f,filter", DEST_VAR(vf), "filter");
      ah.addArgument("F,flag", DEST_VAR(flag), "flag")->addConstraint(excludes("q"));
      ah.addArgument("q", DEST_VAR(first), "first");
      ah.addArgument("w", DEST_VAR(second), "second")->setIsHidden();
      ah.addArgument("d,double", DEST_VAR(dval), "double")->setIsDeprecated();
      ah.addConstraint(one_of("o;l"));
      ah.addConstraint(differ("q;w"));
      std::string s(1, sep);
      std::string cmd = "-i " + std::to_string(id + 1) + " -s abc -v 5" + s + "3" + s + "5" + s + "1 7 --endvalues -S Xa" + s + "Yb"
         " -m a,1" + (sep == ';' ? "!" : ";") + "b,2 -t 4" + s + "hello" + s + "3.25 -a 1" + s + "2" + s + "3 -b 1" + s + "2 -o 17"
         " -r 1-10[2] -f 1-5,9 -F -w 9 --help --list-arg-vars --help-arg-full=vec";
      evalArgumentString(ah, cmd);
      ah.printSummary(out);
      std::vector<int> expvec{1,3,5,7};
      if (ival != id + 1 || sval != "ABC" || vec != expvec || sset.size() != 2 || mp.size() != 2
          || std::get<1>(tup) != "hello" || arr[2] != 3 || !bs[1] || !bs[2] || opt.value() != 17 || rng.size() != 5
          || !flag || !vf.matches(9) || vf.matches(7))
      { failures++; std::cerr << "thread " << id << " wrong result\n"; }
      } catch (const std::exception& e) { failures++; std::cerr << "thread " << id << " exception " << e.what() << "\n"; }
   }
}

int main(int argc, char** argv)
{
   int n = argc > 1 ? atoi(argv[1]) : 8;
   std::vector<std::thread> th;
   for (int i = 0; i < n; ++i) th.emplace_back(worker, i, n);
   for (auto& t : th) t.join();
   std::cout << "failures: " << failures << std::endl;
   return failures ? 1 : 0;
}
