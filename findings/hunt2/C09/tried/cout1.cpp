#include "celma/prog_args.hpp"
#include "celma/prog_args/eval_argument_string.hpp"
#include <thread>
#include <vector>
#include <atomic>
using namespace celma::prog_args;
static std::atomic<int> gate{0};
void worker(int id, int n)
{
   gate++; while (gate < n) {}
   for (int r = 0; r < 50; ++r) {
      Handler ah(Handler::hfHelpShort | Handler::hfUsageCont | Handler::hfListArgVar | Handler::hfHelpArgFull);
      int v = 0; bool b = false;
      ah.addArgument("v,value" + std::to_string(id), DEST_VAR(v), "the value");
      ah.addArgument("b", DEST_VAR(b), "flag");
      evalArgumentString(ah, "-v 3 -h --list-arg-vars --help-arg-full v");
   }
}
int main() { std::vector<std::thread> t; for (int i = 0; i < 4; ++i) t.emplace_back(worker, i, 4); for (auto& x : t) x.join(); }
