#!/bin/bash
# usage: build.sh <source root> <program.cpp> [tsan|asan|plain]
# Builds one of the stress programs in this directory against the library sources.
ROOT=${1:-/tmp/mut/J09}; PROG=$2; MODE=${3:-tsan}
if [ -d "$ROOT/src/celma" ]; then SRC="$ROOT/src"; else SRC="$ROOT"; fi
case $MODE in tsan) FL=-fsanitize=thread;; asan) FL=-fsanitize=address,undefined;; *) FL=;; esac
OBJ=/tmp/c09tried_$MODE; mkdir -p $OBJ
n=0
find "$SRC/library/prog_args" "$SRC/library/common" "$SRC/library/format" "$SRC/library/appl" "$SRC/library/container" -name '*.cpp' \
   | grep -v /test | grep -v print_version_info | while read -r f; do n=$((n+1)); echo "$f $OBJ/$n.o"; done \
   | xargs -P 4 -L 1 sh -c "[ -f \$1 ] || clang++ -std=c++17 -g -O1 -w $FL -I'$SRC' -c \$0 -o \$1"
clang++ -std=c++17 -g -O1 -w $FL -I"$SRC" "$PROG" $OBJ/*.o -lpthread -o "${PROG%.cpp}_$MODE"
