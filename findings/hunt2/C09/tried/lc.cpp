#include "celma/prog_args.hpp"
#include "celma/prog_args/eval_argument_string.hpp"
#include <iostream>
using namespace celma::prog_args;
int main() {
   Handler ah(Handler::hfHelpShort | Handler::hfUsageCont);
   LevelCounter lc;
   ah.addArgument("v", DEST_VAR(lc), "verbose level");
   try { evalArgumentString(ah, "-h"); } catch (const std::exception& e) { std::cout << "EXC: " << e.what() << "\n"; }
}
