#include <cstdlib>
#include <fstream>
#include <iostream>
#include <random>
#include <vector>
#include "celma/appl/arg_string_2_array.hpp"
#include "celma/prog_args.hpp"
#include "celma/prog_args/eval_argument_string.hpp"
using namespace celma::prog_args;
static std::mt19937 rng(12345);
static std::string esc(const std::string& w, int style) {
  std::string r;
  if (style == 0) { for (char c: w) { if (c==' '||c=='\''||c=='"'||c=='\\') r += '\\'; r += c; } return r; }
  char q = style == 1 ? '"' : '\'';
  if (style == 3) { // mixed: each char quoted differently
    for (char c: w) { int s = rng()%3; if (s==0) { r+='\\'; r+=c; } else { char qq = s==1?'"':'\''; r+=qq; if (c==qq||c=='\\') r+='\\'; r+=c; r+=qq; } }
    return r;
  }
  r += q; for (char c: w) { if (c==q||c=='\\') r += '\\'; r += c; } r += q; return r;
}
int main() {
  const std::string alphabet = "ab -'\"\\#!()=,;$~\t";
  int bad = 0;
  for (int it = 0; it < 200000; ++it) {
    int n = rng()%5;
    std::vector<std::string> words;
    for (int i=0;i<n;++i) { int l = 1 + rng()%4; std::string w; for (int j=0;j<l;++j) w += alphabet[rng()%alphabet.size()]; words.push_back(w); }
    std::string joined;
    for (auto& w: words) { if (!joined.empty()) joined += std::string(1 + rng()%2, ' '); joined += esc(w, rng()%4); }
    if (rng()%2) joined = " " + joined + " ";
    auto a = celma::appl::make_arg_array(joined, nullptr);
    bool ok = a.mArgC == (int)words.size()+1;
    for (int i=0; ok && i<(int)words.size(); ++i) ok = words[i] == a.mpArgV[i+1];
    if (ok) ok = a.mpArgV[a.mArgC] == nullptr;
    if (!ok && ++bad < 10) { std::cout << "MISMATCH [" << joined << "]\n"; }
  }
  std::cout << "bad=" << bad << "\n";
}
