#include <fstream>
#include <iostream>
#include "celma/prog_args.hpp"
#include "celma/prog_args/eval_argument_string.hpp"
using namespace celma::prog_args;
static const char* F = "/tmp/mut/J07/hunt/probe/p11.args";
void run(const char* name, const std::string& filetxt) {
  { std::ofstream f(F, std::ios::binary); f << filetxt; }
  Handler ah(0);
  ah.addArgumentFile("argfile");
  int i=0; std::string s; std::string p;
  ah.addArgument("i", DEST_VAR(i), "d");
  ah.addArgument("s", DEST_VAR(s), "d");
  ah.addArgument("-", DEST_VAR(p), "d");
  try { evalArgumentString(ah, std::string("--argfile ") + F, nullptr); std::cout << name << ": i=" << i << " s=[" << s << "] p=[" << p << "]\n"; }
  catch (const std::exception& e) { std::cout << name << " EXC " << e.what() << "\n"; }
}
int main() {
  run("indented comment", "  # comment\n-i 1\n");
  run("blank line with spaces", "   \n-i 1\n");
  run("CRLF", "-i 1\r\n-s x\r\n");
  run("CRLF empty line", "-i 1\r\n\r\n-s x\r\n");
  run("tab separated", "-i\t1\n");
  run("empty quoted value", "-s \"\"\n");
  run("long= empty", "-i 1\n");
  run("value #", "-s #x\n#y\n");
  run("trailing comment", "-i 1 # one\n");
}
