#include <fstream>
#include <iostream>
#include <tuple>
#include "celma/prog_args.hpp"
#include "celma/prog_args/eval_argument_string.hpp"
using namespace celma::prog_args;
static const char* F = "/tmp/mut/J07/hunt/probe/p13.args";
void run(const char* name, const std::string& filetxt, const std::string& env, const std::string& cmd) {
  Handler ah(0);
  ah.addArgumentFile("argfile");
  std::tuple<int,int,int> t{0,0,0}; bool f=false; std::string p; int n=0; std::string c;
  ah.addArgument("t", DEST_VAR(t), "d");
  ah.addArgument("f,flag", DEST_VAR(f), "d");
  ah.addArgument("n", DEST_VAR(n), "d");
  ah.addArgument("-", DEST_VAR(p), "d");
  ah.addArgument("c", DEST_VAR(c), "d")->setValueMode(Handler::ValueMode::command);
  std::string full = cmd;
  if (!filetxt.empty()) { std::ofstream o(F); o << filetxt << "\n"; full = std::string("--argfile ") + F + " " + cmd; }
  if (!env.empty()) { ::setenv("P13", env.c_str(), 1); ah.checkEnvVarArgs("P13"); }
  try { evalArgumentString(ah, full, nullptr); std::cout << name << ": t=" << std::get<0>(t) << std::get<1>(t) << std::get<2>(t) << " f=" << f << " n=" << n << " p=[" << p << "] c=[" << c << "]\n"; }
  catch (const std::exception& e) { std::cout << name << " EXC " << e.what() << "\n"; }
  ::unsetenv("P13");
}
int main() {
  run("partial tuple", "-t 1,2", "", "-t 7,8,9");
  run("flag=value", "", "", "--flag=x");
  run("-n -- -5 argv", "", "", "-n -- -5");
  run("-n -- -5 file", "-n -- -5", "", "");
  run("-n -- -5 env", "", "-n -- -5", "");
  run("-- -x first", "", "", "-- -x");
  run("-- -x file", "-- -x", "", "");
  run("-- last in file, -x argv", "--", "", "-x");
  run("dir as argfile", "", "", "--argfile /tmp");
  run("command last", "", "", "-c");
}
