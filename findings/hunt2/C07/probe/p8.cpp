#include <iostream>
#include <vector>
#include "celma/prog_args.hpp"
#include "celma/prog_args/eval_argument_string.hpp"
#include "celma/prog_args/groups.hpp"
using namespace celma::prog_args;
int main() {
  bool a=false; int b=0; int c=0, d=0; std::vector<int> v; int x=0; std::string p;
  auto h1 = Groups::instance().getArgHandler("one");
  auto h2 = Groups::instance().getArgHandler("two");
  h1->addArgument("a", DEST_VAR(a), "d")->addConstraint(requiresArg("b"));
  h1->addArgument("b", DEST_VAR(b), "d");
  h1->addArgument("c", DEST_VAR(c), "d");
  h1->addArgument("d", DEST_VAR(d), "d");
  h1->addConstraint(one_of("c;d"));
  h1->addArgument("v", DEST_VAR(v), "d")->setTakesMultiValue();
  h2->addArgument("x", DEST_VAR(x), "d");
  h2->addArgument("-", DEST_VAR(p), "d");
  try { evalArgumentString("-a", nullptr); std::cout << "groups -a accepted: a=" << a << " b=" << b << "\n"; }
  catch (const std::exception& e) { std::cout << "EXC " << e.what() << "\n"; }
  try { evalArgumentString("-v 1 2 -x 5 pos", nullptr); std::cout << "groups: v.size=" << v.size() << " p=" << p << "\n"; }
  catch (const std::exception& e) { std::cout << "EXC " << e.what() << "\n"; }
  try { evalArgumentString("pos2", nullptr); std::cout << "groups 2nd call: v.size=" << v.size() << " p=" << p << "\n"; }
  catch (const std::exception& e) { std::cout << "EXC " << e.what() << "\n"; }
}
