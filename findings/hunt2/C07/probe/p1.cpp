#include <array>
#include <fstream>
#include <iostream>
#include <vector>
#include "celma/prog_args.hpp"
#include "celma/prog_args/eval_argument_string.hpp"
using namespace celma::prog_args;
int main() {
  { std::ofstream f("/tmp/mut/J07/hunt/probe/p1.args"); f << "-a 1,2,3\n"; }
  // argv only
  {
    Handler ah(0);
    std::array<int,3> a{0,0,0};
    ah.addArgument("a", DEST_VAR(a), "arr");
    try { evalArgumentString(ah, "-a 1,2,3", nullptr); std::cout << "argv: " << a[0] << a[1] << a[2] << "\n"; }
    catch (const std::exception& e) { std::cout << "argv EXC " << e.what() << "\n"; }
  }
  {
    Handler ah(0);
    std::array<int,3> a{0,0,0};
    ah.addArgument("a", DEST_VAR(a), "arr");
    ah.addArgumentFile("f");
    try { evalArgumentString(ah, "-f /tmp/mut/J07/hunt/probe/p1.args -a 4,5,6", nullptr); std::cout << "file+argv: " << a[0] << a[1] << a[2] << "\n"; }
    catch (const std::exception& e) { std::cout << "file+argv EXC " << e.what() << "\n"; }
  }
  {
    Handler ah(0);
    int a[3] = {0,0,0};
    ah.addArgument("a", DEST_VAR(a), "arr");
    ah.addArgumentFile("f");
    try { evalArgumentString(ah, "-f /tmp/mut/J07/hunt/probe/p1.args -a 4,5,6", nullptr); std::cout << "file+argv: " << a[0] << a[1] << a[2] << "\n"; }
    catch (const std::exception& e) { std::cout << "file+argv C-array EXC " << e.what() << "\n"; }
  }
}
