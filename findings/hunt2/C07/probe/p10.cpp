#include <iostream>
#include "celma/prog_args.hpp"
#include "celma/prog_args/eval_argument_string.hpp"
using namespace celma::prog_args;
void run(const std::string& cmd) {
  Handler ah(0);
  std::string u, p; bool x=false;
  ah.addArgument("u,user", DEST_VAR(u), "d")->addConstraint(requiresArg("password"));
  ah.addArgument("p,password", DEST_VAR(p), "d");
  ah.addArgument("x", DEST_VAR(x), "d")->addConstraint(excludes("password"));
  try { evalArgumentString(ah, cmd, nullptr); std::cout << cmd << ": OK " << u << "/" << p << "\n"; }
  catch (const std::exception& e) { std::cout << cmd << ": EXC " << e.what() << "\n"; }
}
int main() { run("--user a --password b"); run("--user a -p b"); run("-x -p b"); run("-x --password b"); }
