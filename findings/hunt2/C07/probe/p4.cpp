#include <fstream>
#include <iostream>
#include "celma/prog_args.hpp"
#include "celma/prog_args/eval_argument_string.hpp"
using namespace celma::prog_args;
static const char* F = "/tmp/mut/J07/hunt/probe/p4.args";
void run(const char* name, const std::string& filetxt, const std::string& cmd) {
  { std::ofstream f(F); f << filetxt << "\n"; }
  Handler ah(0);
  ah.addArgumentFile("argfile");
  bool a=false; int b=0; int c=0;
  ah.addArgument("a", DEST_VAR(a), "d")->addConstraint(requiresArg("b"));
  ah.addArgument("b", DEST_VAR(b), "d");
  ah.addArgument("c", DEST_VAR(c), "d")->addConstraint(excludes("b"));
  try { evalArgumentString(ah, (filetxt.empty() ? std::string() : std::string("--argfile ") + F + " ") + cmd, nullptr); std::cout << name << ": a=" << a << " b=" << b << " c=" << c << "\n"; }
  catch (const std::exception& e) { std::cout << name << " EXC " << e.what() << "\n"; }
}
int main() {
  run("argv a,b", "", "-a -b 1");
  run("argv b,a", "", "-b 1 -a");
  run("file b, argv a", "-b 1", "-a");
  run("file a, argv b", "-a", "-b 1");
  run("argv b,c", "", "-b 1 -c 2");
  run("argv c,b", "", "-c 2 -b 1");
  run("file b, argv c", "-b 1", "-c 2");
}
