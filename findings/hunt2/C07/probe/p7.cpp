// differential: argv vs string vs file/env split
#include <cstdlib>
#include <fstream>
#include <iostream>
#include <random>
#include <sstream>
#include <tuple>
#include <vector>
#include "celma/prog_args.hpp"
#include "celma/prog_args/eval_argument_string.hpp"
using namespace celma::prog_args;
static std::mt19937 rng(4711);
using Words = std::vector<std::string>;
static std::string esc(const std::string& w) {
  int style = rng()%3; std::string r;
  if (style == 0) { for (char c: w) { if (c==' '||c=='\''||c=='"'||c=='\\') r += '\\'; r += c; } if (!r.empty() && r[0]=='#') r = "\\" + r; return r; }
  char q = style == 1 ? '"' : '\'';
  r += q; for (char c: w) { if (c==q||c=='\\') r += '\\'; r += c; } r += q; return r;
}
static std::string join(const Words& ws) { std::string r; for (auto& w: ws) { if (!r.empty()) r += ' '; r += esc(w); } return r; }
struct State {
  bool f=false, g=false; int i=0; std::string s; std::vector<int> v; std::tuple<int,std::string> t{0,""}; std::string p; std::string o="unset"; std::vector<std::string> w; int cnt=0;
  std::string str() const { std::ostringstream os; os << f << g << "|" << i << "|" << s << "|"; for (auto x: v) os << x << ","; os << "|" << std::get<0>(t) << "," << std::get<1>(t) << "|" << p << "|" << o << "|"; for (auto& x: w) os << x << ";"; os << "|" << cnt; return os.str(); }
};
static std::string eval(int mode, const std::vector<Words>& items, size_t k1, size_t k2, std::string& verbose) {
  // mode 0: argv; 1: string; 2: split file(k1)/env(k2)/argv
  State st;
  std::ostringstream out, err;
  int flags = Handler::hfVerboseArgs | Handler::hfEndValues;
  if (mode == 2) flags |= Handler::hfReadProgArg | Handler::hfEnvVarArgs;
  Handler ah(out, err, flags);
  ah.addArgument("f,flag", DEST_VAR(st.f), "d");
  ah.addArgument("g", DEST_VAR(st.g), "d");
  ah.addArgument("i,int", DEST_VAR(st.i), "d");
  ah.addArgument("s,str", DEST_VAR(st.s), "d");
  ah.addArgument("v,vec", DEST_VAR(st.v), "d")->setTakesMultiValue();
  ah.addArgument("t,tup", DEST_VAR(st.t), "d");
  ah.addArgument("w,words", DEST_VAR(st.w), "d")->setListSep(';');
  ah.addArgument("-", DEST_VAR(st.p), "d");
  auto lam = [&](const std::string& val, bool inv){ st.o = "[" + val + "]" + (inv?"!":""); };
  ah.addArgument("o,opt", DEST_LAMBDA_VALUE(lam), "d")->setValueMode(Handler::ValueMode::optional)->allowsInversion();
  auto lam2 = [&](bool){ ++st.cnt; };
  ah.addArgument("c", DEST_LAMBDA(lam2), "d");
  std::string res;
  try {
    Words all;
    if (mode == 2) {
      { std::ofstream f("/tmp/mut/J07/hunt/probe/home/.progargs/programname.pa");
        f << "# comment\n\n";
        for (size_t n=0; n<k1; ++n) { f << join(items[n]) << "\n"; if (rng()%2) f << "\n#x\n"; } }
      Words envw; for (size_t n=k1; n<k2; ++n) for (auto& w: items[n]) envw.push_back(w);
      ::setenv("PROGRAMNAME", join(envw).c_str(), 1);
      for (size_t n=k2; n<items.size(); ++n) for (auto& w: items[n]) all.push_back(w);
      evalArgumentString(ah, join(all), nullptr);
    } else {
      for (auto& it: items) for (auto& w: it) all.push_back(w);
      if (mode == 1) evalArgumentString(ah, join(all), nullptr);
      else {
        std::vector<char*> av; std::string pn = "programname"; av.push_back(pn.data());
        for (auto& w: all) av.push_back(w.data()); av.push_back(nullptr);
        ah.evalArguments((int)av.size()-1, av.data());
      }
    }
    res = "OK " + st.str();
  } catch (const std::exception& e) { res = std::string("EXC ") + e.what() + " || " + st.str(); }
  verbose = out.str();
  return res;
}
static std::string rval() { static const std::string al = "ab -'\"\\#!()=,$"; int l = 1+rng()%4; std::string w; for (int j=0;j<l;++j) w += al[rng()%al.size()]; if (w[0]=='-'||((w=="!"||w=="("||w==")"))) w = "x" + w; return w; }
int main() {
  ::setenv("HOME", "/tmp/mut/J07/hunt/probe/home", 1);
  int bad = 0;
  for (int it=0; it<30000; ++it) {
    std::vector<Words> pool;
    pool.push_back({rng()%2 ? "-f" : "--flag"});
    pool.push_back({"-g"});
    pool.push_back({"-fg"});
    { std::string n = std::to_string(rng()%100); int k=rng()%4; if (k==0) pool.push_back({"-i", n}); else if (k==1) pool.push_back({"-i"+n}); else if (k==2) pool.push_back({"--int="+n}); else pool.push_back({"--int", n}); }
    { std::string n = rval(); int k=rng()%4; if (k==0) pool.push_back({"-s", n}); else if (k==1) pool.push_back({"-s"+n}); else if (k==2) pool.push_back({"--str="+n}); else pool.push_back({"--st", n}); }
    { Words w{"-v"}; int n=1+rng()%3; for (int j=0;j<n;++j) w.push_back(std::to_string(rng()%10)); if (rng()%2) w.push_back("--endvalues"); pool.push_back(w); }
    pool.push_back({"-t", std::to_string(rng()%10)+","+ "q"});
    pool.push_back({"--words", rval()+";"+rval()});
    pool.push_back({rval()});
    { int k=rng()%3; if (k==0) pool.push_back({"-o"}); else if (k==1) pool.push_back({"-o", rval()}); else pool.push_back({"!", "--opt"}); }
    pool.push_back({"-c"});
    std::shuffle(pool.begin(), pool.end(), rng);
    size_t n = rng()%(pool.size()+1);
    std::vector<Words> items(pool.begin(), pool.begin()+n);
    // drop -fg if -f or -g present
    bool hasf=false; std::vector<Words> it2;
    for (auto& w: items) { bool isf = w[0]=="-f"||w[0]=="--flag"||w[0]=="-g"||w[0]=="-fg"; if (isf) { if (hasf) continue; hasf = true; } it2.push_back(w); }
    items = it2;
    { std::vector<Words> it3; for (auto& w: items) { if (!it3.empty() && (it3.back().back()=="-o"||it3.back().back()=="--opt") && w[0][0] != '-' && w[0] != "!") { for (auto& x: w) it3.back().push_back(x); } else it3.push_back(w); } items = it3; }
    std::string v0, v1, v2;
    auto r0 = eval(0, items, 0, 0, v0);
    auto r1 = eval(1, items, 0, 0, v1);
    size_t k1 = rng()%(items.size()+1), k2 = k1 + rng()%(items.size()-k1+1);
    auto r2 = eval(2, items, k1, k2, v2);
    if (r0 != r1 || r0 != r2 || v0 != v1 || v0 != v2) {
      if (++bad <= 15) { std::cout << "DIFF k1=" << k1 << " k2=" << k2 << "\n items:"; for (auto& w: items) { std::cout << " {"; for (auto& x: w) std::cout << "<" << x << ">"; std::cout << "}"; } std::cout << "\n argv: " << r0 << "\n str : " << r1 << "\n src : " << r2 << "\n"; if (v0!=v2) std::cout << " verbose differs\n" << v0 << "---\n" << v2; }
    }
  }
  std::cout << "bad=" << bad << "\n";
}
