#include <fstream>
#include <iostream>
#include <thread>
#include <vector>
#include <atomic>
#include "celma/prog_args.hpp"
#include "celma/prog_args/eval_argument_string.hpp"
using namespace celma::prog_args;
std::atomic<int> bad{0};
void worker(int id) {
  std::string fn = "/tmp/mut/J07/hunt/probe/p12_" + std::to_string(id) + ".args";
  { std::ofstream f(fn); f << "# c\n\n-i " << id << "\n-v 1 2 3\n"; }
  for (int n=0; n<200; ++n) {
    Handler ah(0);
    ah.addArgumentFile("argfile");
    ah.checkEnvVarArgs("P12ARGS");
    int i=0; std::string s; std::vector<int> v;
    ah.addArgument("i", DEST_VAR(i), "d");
    ah.addArgument("s", DEST_VAR(s), "d");
    ah.addArgument("v", DEST_VAR(v), "d")->setTakesMultiValue();
    try { evalArgumentString(ah, "--argfile " + fn + " -i " + std::to_string(id+100), nullptr); }
    catch (const std::exception& e) { ++bad; }
    if (i != id+100 || s != "env" || v.size() != 3) ++bad;
  }
}
int main() {
  ::setenv("P12ARGS", "-s env", 1);
  std::vector<std::thread> t; for (int k=0;k<4;++k) t.emplace_back(worker, k); for (auto& x: t) x.join();
  std::cout << "bad=" << bad << "\n";
}
