#include <fstream>
#include <iostream>
#include <vector>
#include "celma/prog_args.hpp"
#include "celma/prog_args/eval_argument_string.hpp"
using namespace celma::prog_args;
static const char* F = "/tmp/mut/J07/hunt/probe/p5.args";
template<typename C>
void run(const char* name, C card, const std::string& filetxt, const std::string& cmd) {
  { std::ofstream f(F); f << filetxt << "\n"; }
  Handler ah(0);
  ah.addArgumentFile("argfile");
  std::vector<int> v;
  ah.addArgument("v", DEST_VAR(v), "d")->setCardinality(card());
  try { evalArgumentString(ah, (filetxt.empty() ? std::string() : std::string("--argfile ") + F + " ") + cmd, nullptr); std::cout << name << ": "; for (auto i: v) std::cout << i << ","; std::cout << "\n"; }
  catch (const std::exception& e) { std::cout << name << " EXC " << e.what() << "\n"; }
}
int main() {
  run("exact3 argv", []{ return cardinality_exact(3); }, "", "-v 1,2 -v 3");
  run("exact3 file 1,2 argv 3", []{ return cardinality_exact(3); }, "-v 1,2", "-v 3");
  run("exact3 file 1,2,3 argv 4,5,6", []{ return cardinality_exact(3); }, "-v 1,2,3", "-v 4,5,6");
  run("range2-3 argv", []{ return cardinality_range(2,3); }, "", "-v 1,2 -v 3");
  run("range2-3 file 1,2 argv 3", []{ return cardinality_range(2,3); }, "-v 1,2", "-v 3");
  run("max3 file 1,2,3 argv 4,5,6", []{ return cardinality_max(3); }, "-v 1,2,3", "-v 4,5,6");
}
