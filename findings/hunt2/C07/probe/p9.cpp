#include <fstream>
#include <iostream>
#include "celma/prog_args.hpp"
#include "celma/prog_args/eval_argument_string.hpp"
using namespace celma::prog_args;
static const char* F = "/tmp/mut/J07/hunt/probe/p9.args";
void run(const char* name, const std::string& filetxt, const std::string& cmd) {
  { std::ofstream f(F); f << filetxt << "\n"; }
  Handler ah(0);
  ah.addArgumentFile("argfile");
  int a=0; int b=0; int c=0;
  ah.addArgument("a", DEST_VAR(a), "d")->addConstraint(requiresArg("b"));
  ah.addArgument("b", DEST_VAR(b), "d");
  ah.addArgument("c", DEST_VAR(c), "d")->addConstraint(excludes("b"));
  try { evalArgumentString(ah, (filetxt.empty() ? std::string() : std::string("--argfile ") + F + " ") + cmd, nullptr); std::cout << name << ": a=" << a << " b=" << b << " c=" << c << "\n"; }
  catch (const std::exception& e) { std::cout << name << " EXC " << e.what() << "\n"; }
}
int main() {
  run("file a,b", "-a 1 -b 2", "");
  run("file a,b argv a", "-a 1 -b 2", "-a 3");
  run("file a,b argv a b", "-a 1 -b 2", "-a 3 -b 4");
  run("file a,b argv b", "-a 1 -b 2", "-b 4");
}
