#include <array>
#include <bitset>
#include <fstream>
#include <iostream>
#include <map>
#include <optional>
#include <set>
#include <vector>
#include "celma/prog_args.hpp"
#include "celma/prog_args/eval_argument_string.hpp"
using namespace celma::prog_args;
template<typename Setup, typename Show>
void run(const char* name, Setup setup, Show show, const std::string& cmd) {
  {
    Handler ah(0);
    setup(ah);
    try { evalArgumentString(ah, cmd, nullptr); std::cout << name << " argv: "; show(); std::cout << "\n"; }
    catch (const std::exception& e) { std::cout << name << " argv EXC " << e.what() << "\n"; }
  }
}
int main() {
  { std::vector<int> v; run("vector", [&](Handler& ah){ ah.addArgument("v", DEST_VAR(v), "d"); }, [&]{ for (auto b: v) std::cout << b << ","; }, "-v 1,2 -v 3"); }
  { std::map<std::string,int> v; run("map", [&](Handler& ah){ ah.addArgument("v", DEST_VAR(v), "d"); }, [&]{ for (auto& b: v) std::cout << b.first << "=" << b.second << ","; }, "-v a,1;b,2 -v a,3"); }
  { std::bitset<8> v; run("bitset", [&](Handler& ah){ ah.addArgument("v", DEST_VAR(v), "d"); }, [&]{ std::cout << v; }, "-v 1,2 -v 3"); }
  { std::vector<int> v; run("range", [&](Handler& ah){ ah.addArgument("v", DEST_RANGE(v, int, std::vector), "d"); }, [&]{ for (auto b: v) std::cout << b << ","; }, "-v 1-3 -v 5-6"); }
}
