#include <array>
#include <bitset>
#include <fstream>
#include <iostream>
#include <map>
#include <optional>
#include <set>
#include <vector>
#include "celma/prog_args.hpp"
#include "celma/prog_args/eval_argument_string.hpp"
using namespace celma::prog_args;
static const char* F = "/tmp/mut/J07/hunt/probe/p2.args";
template<typename Setup, typename Show>
void run(const char* name, Setup setup, Show show, const std::string& filetxt, const std::string& cmd) {
  { std::ofstream f(F); f << filetxt << "\n"; }
  {
    Handler ah(0);
    ah.addArgumentFile("argfile");
    setup(ah);
    try { evalArgumentString(ah, std::string("--argfile ") + F + " " + cmd, nullptr); std::cout << name << " file+argv: "; show(); std::cout << "\n"; }
    catch (const std::exception& e) { std::cout << name << " file+argv EXC " << e.what() << "\n"; }
  }
}
int main() {
  { int v=0; run("int", [&](Handler& ah){ ah.addArgument("v", DEST_VAR(v), "d"); }, [&]{ std::cout << v; }, "-v 1", "-v 2"); }
  { std::string v; run("string", [&](Handler& ah){ ah.addArgument("v", DEST_VAR(v), "d"); }, [&]{ std::cout << v; }, "-v a", "-v b"); }
  { bool v=false; run("bool", [&](Handler& ah){ ah.addArgument("v", DEST_VAR(v), "d"); }, [&]{ std::cout << v; }, "-v", "-v"); }
  { std::optional<int> v; run("opt<int>", [&](Handler& ah){ ah.addArgument("v", DEST_VAR(v), "d"); }, [&]{ std::cout << v.value_or(-1); }, "-v 1", "-v 2"); }
  { std::optional<bool> v; run("opt<bool>", [&](Handler& ah){ ah.addArgument("v", DEST_VAR(v), "d"); }, [&]{ std::cout << v.value_or(false); }, "-v", "-v"); }
  { std::bitset<8> v; run("bitset", [&](Handler& ah){ ah.addArgument("v", DEST_VAR(v), "d"); }, [&]{ std::cout << v; }, "-v 1,2", "-v 3"); }
  { std::vector<bool> v(8); run("vector<bool>", [&](Handler& ah){ ah.addArgument("v", DEST_VAR(v), "d"); }, [&]{ for (bool b: v) std::cout << b; }, "-v 1,2", "-v 3"); }
  { std::vector<int> v; run("vector", [&](Handler& ah){ ah.addArgument("v", DEST_VAR(v), "d"); }, [&]{ for (auto b: v) std::cout << b << ","; }, "-v 1,2", "-v 3"); }
  { std::vector<int> v; run("vector-clear", [&](Handler& ah){ ah.addArgument("v", DEST_VAR(v), "d")->setClearBeforeAssign(); }, [&]{ for (auto b: v) std::cout << b << ","; }, "-v 1,2", "-v 3"); }
  { std::vector<int> v{9}; run("vector-default-clear", [&](Handler& ah){ ah.addArgument("v", DEST_VAR(v), "d")->setClearBeforeAssign(); }, [&]{ for (auto b: v) std::cout << b << ","; }, "-v 1,2", "-v 3"); }
  { std::set<int> v; run("set", [&](Handler& ah){ ah.addArgument("v", DEST_VAR(v), "d"); }, [&]{ for (auto b: v) std::cout << b << ","; }, "-v 1,2", "-v 3"); }
  { std::map<std::string,int> v; run("map", [&](Handler& ah){ ah.addArgument("v", DEST_VAR(v), "d"); }, [&]{ for (auto& b: v) std::cout << b.first << "=" << b.second << ","; }, "-v a,1;b,2", "-v a,3"); }
  { std::array<int,2> v{0,0}; run("array", [&](Handler& ah){ ah.addArgument("v", DEST_VAR(v), "d"); }, [&]{ for (auto b: v) std::cout << b << ","; }, "-v 1,2", "-v 3,4"); }
  { std::tuple<int,int> v{0,0}; run("tuple", [&](Handler& ah){ ah.addArgument("v", DEST_VAR(v), "d"); }, [&]{ std::cout << std::get<0>(v) << "," << std::get<1>(v); }, "-v 1,2", "-v 3,4"); }
  { int v=0; run("value", [&](Handler& ah){ ah.addArgument("l", DEST_VAR_VALUE(v, 1), "d"); ah.addArgument("r", DEST_VAR_VALUE(v, 2), "d"); }, [&]{ std::cout << v; }, "-l", "-r"); }
  { int v=0; run("value-same", [&](Handler& ah){ ah.addArgument("l", DEST_VAR_VALUE(v, 1), "d"); ah.addArgument("r", DEST_VAR_VALUE(v, 2), "d"); }, [&]{ std::cout << v; }, "-l", "-l"); }
  { std::string v; int w=0; run("pair", [&](Handler& ah){ ah.addArgument("l", DEST_PAIR(v, w, 1), "d"); ah.addArgument("r", DEST_PAIR(v, w, 2), "d"); }, [&]{ std::cout << v << w; }, "-l a", "-r b"); }
  { std::vector<int> v; run("range", [&](Handler& ah){ ah.addArgument("v", DEST_RANGE(v, int, std::vector), "d"); }, [&]{ for (auto b: v) std::cout << b << ","; }, "-v 1-3", "-v 5-6"); }
  { int n=0; auto l=[&](const std::string& s, bool){ n = n*10 + std::stoi(s); }; run("lambda-value", [&](Handler& ah){ ah.addArgument("v", DEST_LAMBDA_VALUE(l), "d"); }, [&]{ std::cout << n; }, "-v 1", "-v 2"); }
  { int n=0; auto l=[&](bool){ ++n; }; run("lambda", [&](Handler& ah){ ah.addArgument("v", DEST_LAMBDA(l), "d"); }, [&]{ std::cout << n; }, "-v", "-v"); }
  { int v=0; run("positional", [&](Handler& ah){ ah.addArgument("-", DEST_VAR(v), "d"); }, [&]{ std::cout << v; }, "1", "2"); }
  { int v=0; run("long=", [&](Handler& ah){ ah.addArgument("val", DEST_VAR(v), "d"); }, [&]{ std::cout << v; }, "--val=1", "--val=2"); }
  { int v=0; run("glued", [&](Handler& ah){ ah.addArgument("v", DEST_VAR(v), "d"); }, [&]{ std::cout << v; }, "-v1", "-v2"); }
}
