// C07 case 1: the values of a fixed-size array (std::array< T, N> or T[ N]) that
// came from an argument file or from the environment variable cannot be
// overridden on the real command line: "too many values for fixed-size array".
//
// Uses only the public API: Handler, addArgument(), addArgumentFile(),
// checkEnvVarArgs(), evalArgumentString().

#include <array>
#include <cstdlib>
#include <fstream>
#include <iostream>
#include <string>
#include <unistd.h>

#include "celma/prog_args.hpp"
#include "celma/prog_args/eval_argument_string.hpp"

using namespace celma::prog_args;

static int  failures = 0;

static void report( const std::string& what, bool ok, const std::string& got)
{
   std::cout << (ok ? "  ok    " : "  WRONG ") << what << " -> " << got << std::endl;
   if (!ok)
      ++failures;
}

template< typename A> static std::string show( const A& a)
{
   std::string  s;
   for (auto v : a)
      s += std::to_string( v) + " ";
   return s;
}

int main()
{
   const std::string  argfile = "case1.args";
   {
      std::ofstream  f( argfile);
      f << "# defaults of the installation\n\n-a 1,2,3\n";
   }

   // reference: the scalar case works, the value of the file is overridden
   {
      Handler  ah( 0);
      int      a = 0;
      ah.addArgumentFile( "argfile");
      ah.addArgument( "a", DEST_VAR( a), "scalar");
      std::string  got;
      try
      {
         { std::ofstream  f( "case1_scalar.args"); f << "-a 1\n"; }
         evalArgumentString( ah, "--argfile case1_scalar.args -a 4", nullptr);
         got = std::to_string( a);
      } catch (const std::exception& e)
      {
         got = std::string( "exception: ") + e.what();
      }
      report( "int: file '-a 1', command line '-a 4' (reference)", got == "4", got);
   }

   // std::array, values from the argument file
   {
      Handler              ah( 0);
      std::array< int, 3>  a{ 0, 0, 0};
      ah.addArgumentFile( "argfile");
      ah.addArgument( "a", DEST_VAR( a), "array");
      std::string  got;
      try
      {
         evalArgumentString( ah, "--argfile " + argfile + " -a 4,5,6", nullptr);
         got = show( a);
      } catch (const std::exception& e)
      {
         got = std::string( "exception: ") + e.what();
      }
      report( "std::array<int,3>: file '-a 1,2,3', command line '-a 4,5,6'",
         got == "4 5 6 ", got);
   }

   // std::array, values from the environment variable
   {
      ::setenv( "CASE1ARGS", "-a 1,2,3", 1);
      Handler              ah( 0);
      std::array< int, 3>  a{ 0, 0, 0};
      ah.checkEnvVarArgs( "CASE1ARGS");
      ah.addArgument( "a", DEST_VAR( a), "array");
      std::string  got;
      try
      {
         evalArgumentString( ah, "-a 4,5,6", nullptr);
         got = show( a);
      } catch (const std::exception& e)
      {
         got = std::string( "exception: ") + e.what();
      }
      report( "std::array<int,3>: environment '-a 1,2,3', command line '-a 4,5,6'",
         got == "4 5 6 ", got);
   }

   // plain C array, values from the argument file
   {
      Handler  ah( 0);
      int      a[ 3] = { 0, 0, 0};
      ah.addArgumentFile( "argfile");
      ah.addArgument( "a", DEST_VAR( a), "array");
      std::string  got;
      try
      {
         evalArgumentString( ah, "--argfile " + argfile + " -a 4,5,6", nullptr);
         got = show( a);
      } catch (const std::exception& e)
      {
         got = std::string( "exception: ") + e.what();
      }
      report( "int[3]: file '-a 1,2,3', command line '-a 4,5,6'",
         got == "4 5 6 ", got);
   }

   // for comparison: the tuple (repaired earlier) behaves as the property says
   {
      Handler                     ah( 0);
      std::tuple< int, int, int>  t{ 0, 0, 0};
      ah.addArgumentFile( "argfile");
      ah.addArgument( "a", DEST_VAR( t), "tuple");
      std::string  got;
      try
      {
         evalArgumentString( ah, "--argfile " + argfile + " -a 4,5,6", nullptr);
         got = std::to_string( std::get< 0>( t)) + " " + std::to_string( std::get< 1>( t))
            + " " + std::to_string( std::get< 2>( t)) + " ";
      } catch (const std::exception& e)
      {
         got = std::string( "exception: ") + e.what();
      }
      report( "std::tuple<int,int,int>: file '-a 1,2,3', command line '-a 4,5,6' (reference)",
         got == "4 5 6 ", got);
   }

   ::unlink( argfile.c_str());
   ::unlink( "case1_scalar.args");

   if (failures != 0)
   {
      std::cout << "FAIL: " << failures << " array(s) from a source could not be "
         "overridden on the command line" << std::endl;
      return 1;
   }
   return 0;
}
