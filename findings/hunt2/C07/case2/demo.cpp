// C07 case 2: a "value argument" (DEST_VAR_VALUE: the value to store is part
// of the argument definition, e.g. --left/--right that both write 'direction')
// that was used in an argument file or in the environment variable cannot be
// overridden - not even repeated - on the real command line:
//    "destination variable 'direction' has already been set to '1'"
//
// Uses only the public API: Handler, addArgument(), addArgumentFile(),
// checkEnvVarArgs(), evalArgumentString().

#include <cstdlib>
#include <fstream>
#include <iostream>
#include <string>
#include <unistd.h>

#include "celma/prog_args.hpp"
#include "celma/prog_args/eval_argument_string.hpp"

using namespace celma::prog_args;

static int  failures = 0;

static void report( const std::string& what, bool ok, const std::string& got)
{
   std::cout << (ok ? "  ok    " : "  WRONG ") << what << " -> " << got << std::endl;
   if (!ok)
      ++failures;
}

/// Evaluates with the given source contents, returns the value of 'direction'
/// or the text of the exception.
static std::string eval( const std::string& file_line, const std::string& env,
   const std::string& cmd_line)
{
   const std::string  argfile = "case2.args";
   std::string        cmd( cmd_line);

   Handler  ah( 0);
   int      direction = 0;

   ah.addArgumentFile( "argfile");
   ah.addArgument( "l,left",  DEST_VAR_VALUE( direction, 1), "turn left");
   ah.addArgument( "r,right", DEST_VAR_VALUE( direction, 2), "turn right");

   if (!file_line.empty())
   {
      std::ofstream  f( argfile);
      f << "# settings\n\n" << file_line << "\n";
      cmd = "--argfile " + argfile + " " + cmd;
   } // end if

   if (!env.empty())
   {
      ::setenv( "CASE2ARGS", env.c_str(), 1);
      ah.checkEnvVarArgs( "CASE2ARGS");
   } // end if

   std::string  got;
   try
   {
      evalArgumentString( ah, cmd, nullptr);
      got = std::to_string( direction);
   } catch (const std::exception& e)
   {
      got = std::string( "exception: ") + e.what();
   }

   ::unlink( argfile.c_str());
   ::unsetenv( "CASE2ARGS");
   return got;
}

int main()
{
   std::string  got;

   // the same words on argv only
   got = eval( "", "", "--left");
   report( "command line '--left' (reference)", got == "1", got);
   got = eval( "", "", "--right");
   report( "command line '--right' (reference)", got == "2", got);

   // from the sources only
   got = eval( "--left", "", "");
   report( "file '--left' (reference)", got == "1", got);
   got = eval( "", "--left", "");
   report( "environment '--left' (reference)", got == "1", got);

   // a later value on the real command line must override the source
   got = eval( "--left", "", "--right");
   report( "file '--left', command line '--right'", got == "2", got);
   got = eval( "", "--left", "--right");
   report( "environment '--left', command line '--right'", got == "2", got);
   got = eval( "--left", "", "--left");
   report( "file '--left', command line '--left' (same value again)", got == "1", got);
   // the environment variable is evaluated first, the file (given through
   // --argfile on the command line) afterwards: later source wins
   got = eval( "--left", "--right", "");
   report( "environment '--right', then file '--left' (later source)", got == "1", got);

   if (failures != 0)
   {
      std::cout << "FAIL: " << failures << " value argument(s) from a source could "
         "not be overridden" << std::endl;
      return 1;
   }
   return 0;
}
