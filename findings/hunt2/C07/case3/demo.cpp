// C07 case 3: an argument with a 'requires' constraint cannot be overridden on
// the real command line when it and the argument that it requires were given
// in an argument file / the environment variable:
//    file:          --user alice --password secret
//    command line:  --user bob
// -> "Argument '--password' required by '--user' is missing"
// although --password has its value (from the file) and the result that the
// property promises is user=bob, password=secret.
//
// Uses only the public API: Handler, addArgument(), addConstraint(),
// requiresArg(), addArgumentFile(), checkEnvVarArgs(), evalArgumentString().

#include <cstdlib>
#include <fstream>
#include <iostream>
#include <string>
#include <unistd.h>

#include "celma/prog_args.hpp"
#include "celma/prog_args/eval_argument_string.hpp"

using namespace celma::prog_args;

static int  failures = 0;

static void report( const std::string& what, bool ok, const std::string& got)
{
   std::cout << (ok ? "  ok    " : "  WRONG ") << what << " -> " << got << std::endl;
   if (!ok)
      ++failures;
}

static std::string eval( const std::string& file_lines, const std::string& env,
   const std::string& cmd_line)
{
   const std::string  argfile = "case3.args";
   std::string        cmd( cmd_line);

   Handler      ah( 0);
   std::string  user;
   std::string  password;

   ah.addArgumentFile( "argfile");
   ah.addArgument( "u,user", DEST_VAR( user), "user name")
      ->addConstraint( requiresArg( "password"));
   ah.addArgument( "p,password", DEST_VAR( password), "password");

   if (!file_lines.empty())
   {
      std::ofstream  f( argfile);
      f << "# login\n\n" << file_lines << "\n";
      cmd = "--argfile " + argfile + " " + cmd;
   } // end if

   if (!env.empty())
   {
      ::setenv( "CASE3ARGS", env.c_str(), 1);
      ah.checkEnvVarArgs( "CASE3ARGS");
   } // end if

   std::string  got;
   try
   {
      evalArgumentString( ah, cmd, nullptr);
      got = user + "/" + password;
   } catch (const std::exception& e)
   {
      got = std::string( "exception: ") + e.what();
   }

   ::unlink( argfile.c_str());
   ::unsetenv( "CASE3ARGS");
   return got;
}

int main()
{
   std::string  got;

   got = eval( "", "", "--user alice --password secret");
   report( "command line '--user alice --password secret' (reference)",
      got == "alice/secret", got);

   got = eval( "--user alice\n--password secret", "", "");
   report( "file '--user alice' / '--password secret' (reference)",
      got == "alice/secret", got);

   got = eval( "--user alice\n--password secret", "", "--password other");
   report( "file as before, command line '--password other' (reference)",
      got == "alice/other", got);

   // override of the argument that carries the constraint
   got = eval( "--user alice\n--password secret", "", "--user bob");
   report( "file as before, command line '--user bob'", got == "bob/secret", got);

   got = eval( "", "--user alice --password secret", "--user bob");
   report( "environment '--user alice --password secret', command line '--user bob'",
      got == "bob/secret", got);

   // the environment variable is evaluated first, the file (given through
   // --argfile on the command line) afterwards: later source wins
   got = eval( "--user alice", "--user carol --password secret", "");
   report( "environment '--user carol --password secret', then file '--user alice' (later source)",
      got == "alice/secret", got);

   if (failures != 0)
   {
      std::cout << "FAIL: " << failures << " override(s) of an argument with a "
         "'requires' constraint were rejected" << std::endl;
      return 1;
   }
   return 0;
}
