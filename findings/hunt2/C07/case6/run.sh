#!/bin/sh
# usage: run.sh [source-root]   (source root = directory that contains src/)
# builds demo.cpp together with the needed library sources of the given tree,
# runs it; prints FAIL and exits non-zero when the violation shows.
SRC=${1:-/tmp/mut/J07}
HERE=$(cd "$(dirname "$0")" && pwd)
WORK=$(mktemp -d /tmp/c07hunt.XXXXXX) || exit 2
trap 'rm -rf "$WORK"' EXIT
CXX=${CXX:-clang++}
FLAGS="-w -std=c++17 -g -O1 -fsanitize=address,undefined -fno-sanitize-recover=undefined -I$SRC/src"
export CXX FLAGS WORK
find "$SRC/src/library/prog_args" "$SRC/src/library/common" "$SRC/src/library/format" \
     "$SRC/src/library/appl" -name '*.cpp' | grep -v /test | grep -v print_version_info \
   | xargs -P 4 -I{} sh -c '$CXX $FLAGS -c "{}" -o "$WORK/$(basename "{}" .cpp).o"' || { echo "BUILD ERROR (library)"; exit 2; }
$CXX $FLAGS "$HERE/demo.cpp" "$WORK"/*.o -lpthread -o "$WORK/demo" || { echo "BUILD ERROR (demo)"; exit 2; }
cd "$WORK" && ./demo
rc=$?
if [ $rc -ne 0 ]; then echo "FAIL (exit code $rc)"; exit 1; fi
echo "PASS"
exit 0
