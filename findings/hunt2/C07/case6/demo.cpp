// C07 case 6 (unsure if inside the wording, see README): white space other
// than the blank. splitString() separates words at ' ' only, readArgumentFile()
// hands each line to it as read by getline(). So
//  - a tabulator between an argument and its value (in a string, a file line
//    or the environment variable) does not separate them: "-i<TAB>1" is the
//    single word "-i\t1",
//  - an argument file with DOS/Windows line ends (CR LF) delivers the CR as
//    last character of the last word of each line.
// The same words on argv (the shell splits at blanks, tabs and newlines) are
// evaluated without a problem.
//
// Uses only the public API: Handler, addArgument(), addArgumentFile(),
// checkEnvVarArgs(), evalArgumentString(), evalArguments().

#include <cstdlib>
#include <fstream>
#include <iostream>
#include <string>
#include <unistd.h>

#include "celma/prog_args.hpp"
#include "celma/prog_args/eval_argument_string.hpp"

using namespace celma::prog_args;

static int  failures = 0;

static void report( const std::string& what, bool ok, const std::string& got)
{
   std::cout << (ok ? "  ok    " : "  WRONG ") << what << " -> " << got << std::endl;
   if (!ok)
      ++failures;
}

static std::string printable( const std::string& s)
{
   std::string  r;
   for (char c : s)
   {
      if (c == '\r') r += "\\r";
      else if (c == '\t') r += "\\t";
      else r += c;
   } // end for
   return r;
}

enum class How { argv, string, file, env };

static std::string eval( How how, const std::string& text)
{
   const std::string  argfile = "case6.args";

   Handler      ah( 0);
   int          num = 0;
   std::string  name;
   bool         flag = false;

   ah.addArgumentFile( "argfile");
   ah.addArgument( "i,int", DEST_VAR( num), "number");
   ah.addArgument( "s,str", DEST_VAR( name), "name");
   ah.addArgument( "f,flag", DEST_VAR( flag), "flag");

   std::string  got;
   try
   {
      switch (how)
      {
      case How::argv:
         {
            // the words as the shell would deliver them
            char  a0[] = "programname", a1[] = "-i", a2[] = "1", a3[] = "-s",
                  a4[] = "x", a5[] = "-f";
            char*  argv[] = { a0, a1, a2, a3, a4, a5, nullptr };
            ah.evalArguments( 6, argv);
         }
         break;
      case How::string:
         evalArgumentString( ah, text, nullptr);
         break;
      case How::file:
         {
            std::ofstream  f( argfile, std::ios::binary);
            f << text;
         }
         evalArgumentString( ah, "--argfile " + argfile, nullptr);
         break;
      case How::env:
         ::setenv( "CASE6ARGS", text.c_str(), 1);
         ah.checkEnvVarArgs( "CASE6ARGS");
         evalArgumentString( ah, "", nullptr);
         break;
      } // end switch
      got = std::to_string( num) + "/" + printable( name) + "/" + (flag ? "true" : "false");
   } catch (const std::exception& e)
   {
      got = std::string( "exception: ") + printable( e.what());
   }

   ::unlink( argfile.c_str());
   ::unsetenv( "CASE6ARGS");
   return got;
}

int main()
{
   const std::string  expected( "1/x/true");
   std::string        got;

   got = eval( How::argv, "");
   report( "argv: -i 1 -s x -f (reference)", got == expected, got);

   got = eval( How::string, "-i 1 -s x -f");
   report( "string with blanks (reference)", got == expected, got);

   got = eval( How::file, "# unix\n\n-i 1\n-s x\n-f\n");
   report( "file, unix line ends (reference)", got == expected, got);

   got = eval( How::string, "-i\t1\t-s\tx\t-f");
   report( "string, words separated by tabs", got == expected, got);

   got = eval( How::string, "-f -s\tx");
   report( "string '-f -s<TAB>x' (silently wrong value)", got == "0/x/true", got);

   got = eval( How::env, "-i\t1 -s x -f");
   report( "environment, tab between -i and 1", got == expected, got);

   got = eval( How::file, "-i\t1\n-s\tx\n-f\n");
   report( "file, tab between argument and value", got == expected, got);

   got = eval( How::file, "# dos\r\n\r\n-i 1\r\n-s x\r\n-f\r\n");
   report( "file, DOS line ends", got == expected, got);

   got = eval( How::file, "-s x\r\n");
   report( "file '-s x<CR><LF>' (silently wrong value)", got == "0/x/false", got);

   if (failures != 0)
   {
      std::cout << "FAIL: " << failures << " delivery/deliveries with tabs or CR LF "
         "differ from the same words on argv" << std::endl;
      return 1;
   }
   return 0;
}
