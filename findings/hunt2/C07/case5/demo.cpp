// C07 case 5 (borderline, see README): an entry of a key-value container
// (std::map) that came from an argument file / the environment variable cannot
// be overridden on the real command line - the new value for the same key is
// silently dropped, no error, the value of the file wins.
//
// Uses only the public API: Handler, addArgument(), addArgumentFile(),
// checkEnvVarArgs(), evalArgumentString().

#include <cstdlib>
#include <fstream>
#include <iostream>
#include <map>
#include <string>
#include <unistd.h>

#include "celma/prog_args.hpp"
#include "celma/prog_args/eval_argument_string.hpp"

using namespace celma::prog_args;

static int  failures = 0;

static void report( const std::string& what, bool ok, const std::string& got)
{
   std::cout << (ok ? "  ok    " : "  WRONG ") << what << " -> " << got << std::endl;
   if (!ok)
      ++failures;
}

static std::string eval( const std::string& file_line, const std::string& env,
   const std::string& cmd_line)
{
   const std::string  argfile = "case5.args";
   std::string        cmd( cmd_line);

   Handler                               ah( 0);
   std::map< std::string, std::string>   defines;

   ah.addArgumentFile( "argfile");
   ah.addArgument( "D,define", DEST_VAR( defines), "key,value");

   if (!file_line.empty())
   {
      std::ofstream  f( argfile);
      f << "# defines\n\n" << file_line << "\n";
      cmd = "--argfile " + argfile + " " + cmd;
   } // end if

   if (!env.empty())
   {
      ::setenv( "CASE5ARGS", env.c_str(), 1);
      ah.checkEnvVarArgs( "CASE5ARGS");
   } // end if

   std::string  got;
   try
   {
      evalArgumentString( ah, cmd, nullptr);
      for (auto const& d : defines)
         got += d.first + "=" + d.second + " ";
   } catch (const std::exception& e)
   {
      got = std::string( "exception: ") + e.what();
   }

   ::unlink( argfile.c_str());
   ::unsetenv( "CASE5ARGS");
   return got;
}

int main()
{
   std::string  got;

   got = eval( "", "", "-D host,beta");
   report( "command line '-D host,beta' (reference)", got == "host=beta ", got);

   got = eval( "-D host,alpha;port,80", "", "");
   report( "file '-D host,alpha;port,80' (reference)",
      got == "host=alpha port=80 ", got);

   got = eval( "-D host,alpha;port,80", "", "-D host,beta");
   report( "file '-D host,alpha;port,80', command line '-D host,beta'",
      got == "host=beta port=80 ", got);

   got = eval( "", "-D host,alpha;port,80", "-D host,beta");
   report( "environment '-D host,alpha;port,80', command line '-D host,beta'",
      got == "host=beta port=80 ", got);

   if (failures != 0)
   {
      std::cout << "FAIL: " << failures << " map entry/entries from a source were "
         "not overridden by the command line (silently)" << std::endl;
      return 1;
   }
   return 0;
}
