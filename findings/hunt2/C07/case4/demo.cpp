// C07 case 4: a container argument with a cardinality (at most / exactly N
// values). The values of an argument file / the environment variable are not
// counted for the cardinality (so that they can be overridden) - but the
// container is not cleared when the value from the real command line arrives.
// Result: a destination that holds more values than the cardinality allows,
// i.e. neither "the same as if the words had been given on the command line"
// (that is an error: too many values) nor "overridden" (that would be the
// values of the command line only).
//
// Uses only the public API: Handler, addArgument(), setCardinality(),
// cardinality_max(), cardinality_exact(), addArgumentFile(), checkEnvVarArgs(),
// evalArgumentString().

#include <cstdlib>
#include <fstream>
#include <iostream>
#include <string>
#include <vector>
#include <unistd.h>

#include "celma/prog_args.hpp"
#include "celma/prog_args/eval_argument_string.hpp"

using namespace celma::prog_args;

static int  failures = 0;

static void report( const std::string& what, bool ok, const std::string& got)
{
   std::cout << (ok ? "  ok    " : "  WRONG ") << what << " -> " << got << std::endl;
   if (!ok)
      ++failures;
}

enum class Card { max3, exact3 };

static std::string eval( Card card, const std::string& file_line,
   const std::string& env, const std::string& cmd_line)
{
   const std::string  argfile = "case4.args";
   std::string        cmd( cmd_line);

   Handler             ah( 0);
   std::vector< int>   ports;

   ah.addArgumentFile( "argfile");
   ah.addArgument( "p,ports", DEST_VAR( ports), "ports")
      ->setCardinality( (card == Card::max3) ? cardinality_max( 3)
                                             : cardinality_exact( 3));

   if (!file_line.empty())
   {
      std::ofstream  f( argfile);
      f << "# ports\n\n" << file_line << "\n";
      cmd = "--argfile " + argfile + " " + cmd;
   } // end if

   if (!env.empty())
   {
      ::setenv( "CASE4ARGS", env.c_str(), 1);
      ah.checkEnvVarArgs( "CASE4ARGS");
   } // end if

   std::string  got;
   try
   {
      evalArgumentString( ah, cmd, nullptr);
      for (auto p : ports)
         got += std::to_string( p) + " ";
   } catch (const std::exception& e)
   {
      got = std::string( "exception: ") + e.what();
   }

   ::unlink( argfile.c_str());
   ::unsetenv( "CASE4ARGS");
   return got;
}

int main()
{
   std::string  got;

   got = eval( Card::max3, "", "", "-p 4,5,6");
   report( "max 3: command line '-p 4,5,6' (reference)", got == "4 5 6 ", got);

   got = eval( Card::max3, "", "", "-p 1,2,3 -p 4,5,6");
   report( "max 3: command line '-p 1,2,3 -p 4,5,6' is an error (reference)",
      got == "exception: too many values", got);

   got = eval( Card::max3, "-p 1,2,3", "", "");
   report( "max 3: file '-p 1,2,3' (reference)", got == "1 2 3 ", got);

   // now the override: the only results that the property allows are the
   // values of the command line (overridden) - a maintainer might also argue
   // for the error of the all-argv case; 6 values in a container that accepts
   // at most 3 is neither
   got = eval( Card::max3, "-p 1,2,3", "", "-p 4,5,6");
   report( "max 3: file '-p 1,2,3', command line '-p 4,5,6'",
      (got == "4 5 6 ") || (got == "exception: too many values"), got);

   got = eval( Card::max3, "", "-p 1,2,3", "-p 4,5,6");
   report( "max 3: environment '-p 1,2,3', command line '-p 4,5,6'",
      (got == "4 5 6 ") || (got == "exception: too many values"), got);

   got = eval( Card::exact3, "-p 1,2,3", "", "-p 4,5,6");
   report( "exactly 3: file '-p 1,2,3', command line '-p 4,5,6'",
      (got == "4 5 6 ") || (got == "exception: too many values"), got);

   got = eval( Card::max3, "-p 1,2,3", "-p 4,5,6", "-p 7,8,9");
   report( "max 3: environment '-p 4,5,6', then file '-p 1,2,3', then command line '-p 7,8,9'",
      (got == "7 8 9 ") || (got == "exception: too many values"), got);

   // informational, not counted: the other side of the same coin. On argv
   // '-p 1,2 -p 3' is accepted (3 values), with the first part in the file the
   // evaluation throws although the container holds exactly 3 values.
   got = eval( Card::exact3, "", "", "-p 1,2 -p 3");
   std::cout << "  info  exactly 3: command line '-p 1,2 -p 3' -> " << got << std::endl;
   got = eval( Card::exact3, "-p 1,2", "", "-p 3");
   std::cout << "  info  exactly 3: file '-p 1,2', command line '-p 3' -> " << got
      << std::endl;

   if (failures != 0)
   {
      std::cout << "FAIL: " << failures << " container(s) hold more values than "
         "their cardinality allows after an override" << std::endl;
      return 1;
   }
   return 0;
}
