// exhaustive model check of ReadBuffer<N>: all get-length sequences x chunk policies
#include "celma/common/read_buffer.hpp"
#include <cstdio>
#include <cstdlib>
#include <vector>
#include <random>
using namespace celma::common;

static unsigned char srcByte(size_t i) { return (unsigned char)((i * 131u + 7u) & 0xff); }

template <size_t N, typename P> struct Src : ReadBuffer<N, P> {
  size_t pos = 0; int mode = 0; std::mt19937 rng{1}; size_t calls = 0, bytes = 0;
  std::vector<size_t> script; size_t si = 0;
  size_t readData(unsigned char* d, size_t len) override {
    if (len == 0) { printf("FAIL readData called with len 0 (N=%zu)\n", N); exit(1); }
    size_t n;
    switch (mode) {
      case 0: n = 1; break;
      case 1: n = len; break;
      case 2: n = 1 + rng() % len; break;
      case 3: n = (calls % 2) ? len : 1; break;
      case 4: n = (len > 1) ? len - 1 : 1; break;
      default: n = script.empty() ? 1 : script[si++ % script.size()]; if (n > len) n = len; if (n == 0) n = 1; break;
    }
    // heap copy exactly sized, so ASan catches caller overrun
    for (size_t i = 0; i < n; ++i) d[i] = srcByte(pos + i);
    pos += n; ++calls; bytes += n;
    return n;
  }
};

template <size_t N, typename P> long runSeq(const std::vector<size_t>& lens, int mode, const std::vector<size_t>& script) {
  Src<N, P> rb; rb.mode = mode; rb.script = script;
  size_t consumed = 0; size_t okGets = 0, okBytes = 0;
  for (size_t l : lens) {
    // exact-size heap dest => ASan catches overrun
    unsigned char* dest = new unsigned char[l ? l : 1];
    bool threw = false;
    try { rb.get(dest, l); } catch (const std::runtime_error&) { threw = true; }
    if (l > N) { if (!threw) { printf("FAIL oversize not refused N=%zu l=%zu\n", N, l); exit(1);} }
    else {
      if (threw) { printf("FAIL threw N=%zu l=%zu\n", N, l); exit(1);} 
      for (size_t i = 0; i < l; ++i) if (dest[i] != srcByte(consumed + i)) {
        printf("FAIL data mismatch N=%zu mode=%d at %zu\n", N, mode, consumed + i); exit(1); }
      consumed += l; if (l) { ++okGets; okBytes += l; }
    }
    delete[] dest;
  }
  if (rb.pos < consumed || rb.pos - consumed > N) { printf("FAIL readahead N=%zu\n", N); exit(1);} 
  if (std::is_same<P, ReadCountPolicy>::value) {
    if (rb.numSourceReads() != rb.calls || rb.bytesReadFromSource() != rb.bytes || rb.numBufferReads() != okGets || rb.bytesReadFromBuffer() != okBytes) {
      printf("FAIL stats N=%zu\n", N); exit(1);} }
  return 1;
}

template <size_t N> long exhaust(size_t depth) {
  long cnt = 0;
  std::vector<size_t> lens(depth, 0);
  std::vector<std::vector<size_t>> scripts = {{}, {2}, {3,1}, {1,2,3}, {N,1,1}, {2,N}};
  while (true) {
    for (int mode = 0; mode < 5; ++mode) { cnt += runSeq<N, ReadCountPolicy>(lens, mode, {}); }
    for (auto& s : scripts) cnt += runSeq<N, EmptyReadPolicy>(lens, 5, s);
    size_t i = 0;
    while (i < depth && ++lens[i] > N + 1) { lens[i] = 0; ++i; }
    if (i == depth) break;
  }
  return cnt;
}
int main() {
  long c = 0;
  c += exhaust<1>(8); c += exhaust<2>(7); c += exhaust<3>(6); c += exhaust<4>(6); c += exhaust<5>(5); c += exhaust<6>(5); c+= exhaust<7>(4); c += exhaust<8>(4);
  // random long runs on larger buffers
  std::mt19937 rng(42);
  for (int it = 0; it < 20000; ++it) {
    std::vector<size_t> lens; for (int k = 0; k < 60; ++k) lens.push_back(rng() % 19);
    c += runSeq<16, ReadCountPolicy>(lens, it % 5, {}); c += runSeq<17, ReadCountPolicy>(lens, 5, {rng()%17+1, rng()%17+1, rng()%17+1});
  }
  printf("OK %ld runs\n", c);
}
