#include "celma/common/read_buffer.hpp"
#include "celma/common/write_buffer.hpp"
#include <cstdio>
#include <cstdint>
#include <string>
using namespace celma::common;
struct R0 : ReadBuffer<0> { size_t readData(unsigned char*, size_t) override { printf("FAIL readData called on N=0\n"); exit(1); } };
struct W0 : WriteBuffer<0, WriteCountPolicy> { mutable std::string out; void writeData(const unsigned char* const d, size_t l) const override { out.append((const char*)d, l);} };
struct R4 : ReadBuffer<4> { size_t p=0; size_t readData(unsigned char* d, size_t l) override { for (size_t i=0;i<l;++i) d[i]=(unsigned char)(p+i); p+=l; return l; } };
struct W4 : WriteBuffer<4> { mutable std::string out; void writeData(const unsigned char* const d, size_t l) const override { out.append((const char*)d, l);} };
int main() {
  R0 r0; char c; r0.get(&c, 0); bool t=false; try { r0.get(&c, 1);} catch (std::runtime_error&) { t=true;} if(!t){printf("FAIL\n");return 1;}
  W0 w0; w0.append("abc", 3); w0.append("", 0); w0.flush(); if (w0.out != "abc" || w0.numFlushCalled()!=1) { printf("FAIL w0\n"); return 1; }
  R4 r4; t=false; try { r4.get(&c, SIZE_MAX);} catch (std::runtime_error&) { t=true;} if(!t){printf("FAIL\n");return 1;}
  t=false; try { r4.get((char*)nullptr, 1);} catch (std::runtime_error&) { t=true;} if(!t){printf("FAIL\n");return 1;}
  r4.get((char*)nullptr, 0);
  // wide types: len is bytes
  uint32_t v; r4.get(&v, sizeof v); unsigned char b[4]; memcpy(b,&v,4); if (b[0]!=0||b[3]!=3){printf("FAIL v\n");return 1;}
  void* vp = b; r4.get(vp, 4); if (b[0]!=4){printf("FAIL void\n");return 1;}
  W4 w4; t=false; try { w4.append((const char*)nullptr, 1);} catch (std::runtime_error&) { t=true;} if(!t){printf("FAIL\n");return 1;}
  w4.append((const char*)nullptr, 0);
  uint16_t x = 0x4142; w4.append(&x, 2); const void* cv = "zz"; w4.append(cv, 2); w4.append("q",1); w4.flush();
  if (w4.out.size()!=5 || w4.out.substr(2)!="zzq"){printf("FAIL w4 %s\n", w4.out.c_str());return 1;}
  printf("OK\n");
}
