#include "celma/common/write_buffer.hpp"
#include <cstdio>
#include <cstdlib>
#include <vector>
#include <random>
using namespace celma::common;
static unsigned char srcByte(size_t i) { return (unsigned char)((i * 131u + 7u) & 0xff); }
template <size_t N, typename P> struct Sink : WriteBuffer<N, P> {
  mutable std::vector<unsigned char> out; mutable size_t calls = 0; mutable std::vector<size_t> sizes;
  void writeData(const unsigned char* const d, size_t len) const override {
    if (len == 0) { printf("FAIL writeData len 0\n"); exit(1);} 
    out.insert(out.end(), d, d + len); ++calls; sizes.push_back(len);
  }
};
// lens value N+2 encodes "flush"
template <size_t N, typename P> long run(const std::vector<size_t>& ops) {
  Sink<N, P> wb; size_t appended = 0, nApp = 0;
  for (size_t op : ops) {
    if (op == N + 2) { wb.flush(); if (wb.out.size() != appended || wb.buffered() != 0) { printf("FAIL flush N=%zu\n", N); exit(1);} continue; }
    unsigned char* src = new unsigned char[op ? op : 1];
    for (size_t i = 0; i < op; ++i) src[i] = srcByte(appended + i);
    size_t before = wb.out.size();
    wb.append(src, op);
    delete[] src;
    appended += op; if (op) ++nApp;
    if (wb.out.size() + wb.buffered() != appended) { printf("FAIL accounting N=%zu\n", N); exit(1);} 
    if (wb.buffered() > N) { printf("FAIL buffered>N\n"); exit(1);} 
    if (op >= N && op > 0 && wb.buffered() != 0) { printf("FAIL passthrough left data N=%zu\n", N); exit(1);} 
    (void) before;
  }
  wb.flush();
  if (wb.out.size() != appended) { printf("FAIL final N=%zu\n", N); exit(1);} 
  for (size_t i = 0; i < appended; ++i) if (wb.out[i] != srcByte(i)) { printf("FAIL data N=%zu at %zu\n", N, i); exit(1);} 
  if (std::is_same<P, WriteCountPolicy>::value) {
    if (wb.numAppendCalled() != nApp || wb.bytesAppended() != appended || wb.numFlushCalled() != wb.calls || wb.bytesFlushed() != appended) { printf("FAIL stats N=%zu\n", N); exit(1);} }
  return 1;
}
template <size_t N> long exhaust(size_t depth) {
  long c = 0; std::vector<size_t> ops(depth, 0);
  while (true) {
    c += run<N, WriteCountPolicy>(ops); c += run<N, EmptyWritePolicy>(ops);
    size_t i = 0; while (i < depth && ++ops[i] > N + 2) { ops[i] = 0; ++i; }
    if (i == depth) break;
  }
  return c;
}
int main() {
  long c = 0;
  c += exhaust<1>(8); c += exhaust<2>(7); c += exhaust<3>(7); c += exhaust<4>(6); c += exhaust<5>(6); c += exhaust<6>(5); c += exhaust<8>(5);
  std::mt19937 rng(3);
  for (int it = 0; it < 20000; ++it) { std::vector<size_t> ops; for (int k = 0; k < 80; ++k) ops.push_back(rng() % 19); c += run<16, WriteCountPolicy>(ops); }
  printf("OK %ld runs\n", c);
}
