// exceptions thrown by readData()/writeData() at random points, retry afterwards; zero-byte deliveries
#include "celma/common/read_buffer.hpp"
#include "celma/common/write_buffer.hpp"
#include <cstdio>
#include <cstdlib>
#include <vector>
#include <random>
using namespace celma::common;
static unsigned char srcByte(size_t i) { return (unsigned char)((i * 131u + 7u) & 0xff); }
struct Boom {};
template <size_t N> struct Src : ReadBuffer<N> {
  size_t pos = 0; std::mt19937 rng; 
  size_t readData(unsigned char* d, size_t len) override {
    if (len == 0) { printf("FAIL len0\n"); exit(1);} 
    unsigned r = rng() % 10;
    if (r == 0) throw Boom();
    if (r == 1) return 0;   // nothing available right now
    size_t n = 1 + rng() % len;
    for (size_t i = 0; i < n; ++i) d[i] = srcByte(pos + i);
    pos += n; return n;
  }
};
template <size_t N> struct Sink : WriteBuffer<N> {
  mutable std::vector<unsigned char> out; mutable std::mt19937 rng;
  void writeData(const unsigned char* const d, size_t len) const override {
    if (rng() % 4 == 0) throw Boom();
    out.insert(out.end(), d, d + len);
  }
};
template <size_t N> void rd(unsigned seed) {
  Src<N> rb; rb.rng.seed(seed); std::mt19937 rng(seed * 7 + 1); size_t consumed = 0;
  for (int k = 0; k < 200; ++k) {
    size_t l = rng() % (N + 1);
    unsigned char* dest = new unsigned char[l ? l : 1];
    for (;;) { try { rb.get(dest, l); break; } catch (Boom&) {} }
    for (size_t i = 0; i < l; ++i) if (dest[i] != srcByte(consumed + i)) { printf("FAIL read mismatch N=%zu seed=%u\n", N, seed); exit(1);} 
    consumed += l; delete[] dest;
  }
}
template <size_t N> void wr(unsigned seed) {
  Sink<N> wb; wb.rng.seed(seed); std::mt19937 rng(seed * 13 + 5); size_t appended = 0;
  for (int k = 0; k < 200; ++k) {
    size_t l = rng() % (N + 3);
    if (rng() % 7 == 0) { for (;;) { try { wb.flush(); break; } catch (Boom&) {} } if (wb.out.size() != appended) { printf("FAIL flush\n"); exit(1);} continue; }
    unsigned char* src = new unsigned char[l ? l : 1];
    for (size_t i = 0; i < l; ++i) src[i] = srcByte(appended + i);
    for (;;) { try { wb.append(src, l); break; } catch (Boom&) {} }
    appended += l; delete[] src;
    if (wb.out.size() + wb.buffered() != appended) { printf("FAIL accounting N=%zu seed=%u\n", N, seed); exit(1);} 
  }
  for (;;) { try { wb.flush(); break; } catch (Boom&) {} }
  if (wb.out.size() != appended) { printf("FAIL final\n"); exit(1);} 
  for (size_t i = 0; i < appended; ++i) if (wb.out[i] != srcByte(i)) { printf("FAIL write data N=%zu seed=%u\n", N, seed); exit(1);} 
}
int main() {
  for (unsigned s = 1; s < 3000; ++s) { rd<1>(s); rd<2>(s); rd<3>(s); rd<5>(s); rd<8>(s); rd<16>(s); wr<1>(s); wr<2>(s); wr<3>(s); wr<5>(s); wr<8>(s); wr<16>(s); }
  printf("OK\n");
}
