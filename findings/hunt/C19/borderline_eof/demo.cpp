// BORDERLINE (not a violation of C19 as worded): a source that reports "no more data"
// by returning 0 (like read(2) at end of file) makes ReadBuffer::get() spin for ever.
#include "celma/common/read_buffer.hpp"
#include <csignal>
#include <cstdio>
#include <cstdlib>
#include <unistd.h>
struct Src : celma::common::ReadBuffer<8> {
  size_t left = 10;
  size_t readData(unsigned char* d, size_t len) override {
    size_t n = len < left ? len : left;      // 0 at end of data, as read(2) does
    for (size_t i = 0; i < n; ++i) d[i] = 'x';
    left -= n; return n;
  }
};
int main() {
  signal(SIGALRM, [](int) { const char m[] = "OBSERVED: get() still spinning after 2 s (source returned 0 = end of data)\n"; (void)!write(1, m, sizeof m - 1); _exit(3); });
  alarm(2);
  Src rb; char buf[4];
  rb.get(buf, 4); rb.get(buf, 4);
  rb.get(buf, 4);       // only 2 bytes left in the source
  puts("returned"); return 0;
}
