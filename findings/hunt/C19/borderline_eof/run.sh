#!/bin/sh
# borderline observation, see README.md; exits 3 when the endless loop shows
SRC=${1:-/tmp/mut/H19}
D=$(dirname "$0")
clang++ -std=c++17 -g -O1 -fsanitize=address,undefined -I"$SRC/src" "$D/demo.cpp" -o "$D/demo" || exit 2
"$D/demo"
