// Property C04, case 2: bit positions >= 2^64 / 1.5 (this includes "-1", which
// boost::lexical_cast< size_t> happily converts to 18446744073709551615) for a
// destination of type std::vector< bool> make the library compute the new
// size of the vector with an out-of-range double -> size_t conversion and then
// write far outside of the vector.
//
// Uses only the public API: Handler, DEST_VAR, evalArguments().

#include <iostream>
#include <string>
#include <vector>
#include "celma/prog_args.hpp"


using celma::prog_args::Handler;


int main( int argc, char* argv[])
{

   std::vector< std::string>  words = { "demo", "--flags=-1" };

   if (argc > 1)
   {
      words.resize( 1);
      for (int i = 1; i < argc; ++i)
         words.push_back( argv[ i]);
   } // end if

   std::vector< char*>  av;
   for (auto & w : words)
      av.push_back( w.data());
   av.push_back( nullptr);

   {
      Handler              ah( 0);
      std::vector< bool>   flags;

      ah.addArgument( "f,flags", DEST_VAR( flags), "positions of the flags to set");

      try
      {
         ah.evalArguments( static_cast< int>( av.size() - 1), av.data());
         std::cout << "normal return, size of vector = " << flags.size()
            << std::endl;
      } catch (const std::exception& e)
      {
         std::cout << "std::exception: " << e.what() << std::endl;
      } // end try
   } // end scope: vector is destroyed, a corrupted heap shows here

   // both outcomes above are fine for property C04
   std::cout << "OK (evaluation returned or threw)" << std::endl;
   return 0;
}
