#!/bin/bash
# usage: run.sh <source root>
# exits non-zero and prints FAIL when the violation shows
#
# Two builds:
#  1. g++ (or $CXX) with -fsanitize=address,undefined
#  2. the same compiler with plain -O2, no sanitizer: the process dies from a
#     signal (SIGSEGV or SIGABRT from glibc's heap check)
# With clang++ the conversion happens to yield 2^63, the resize() then throws
# std::length_error; there only UBSan (float-cast-overflow) shows the defect.
SRC=${1:?usage: run.sh <source root>}
HERE=$(cd "$(dirname "$0")" && pwd)
CXX=${CXX:-g++}

result=0

run_demo()
{
   exe=$1; shift
   for arg in "$@"; do
      echo "=== $(basename $exe) $arg"
      ASAN_OPTIONS=detect_leaks=0 "$exe" "$arg" > "$HERE/out.txt" 2>&1
      rc=$?
      grep -E "ERROR: AddressSanitizer|^(READ|WRITE) of size|#[0-2] |runtime error|double free|corrupt|normal return|std::exception|^OK" "$HERE/out.txt" | cut -c1-200 | head -7
      if [ $rc -ne 0 ] || ! grep -q "^OK" "$HERE/out.txt"; then
         echo "--> exit code $rc: evaluation neither returned nor threw a std::exception"
         result=1
      elif grep -q "is outside the range of representable values" "$HERE/out.txt"; then
         echo "--> size of the vector computed with an out-of-range double -> size_t conversion (undefined)"
         result=1
      fi
   done
}

FLAGS="-g -O1 -fsanitize=address,undefined -fno-sanitize=vptr -fno-omit-frame-pointer"
LIB=$("$HERE/../buildlib.sh" "$SRC" "$CXX" $FLAGS) || { echo "build of library failed"; exit 2; }
$CXX -std=c++17 -w $FLAGS -I"$SRC/src" "$HERE/demo.cpp" "$LIB" -lpthread -o "$HERE/demo_san" || { echo "build of demo failed"; exit 2; }
run_demo "$HERE/demo_san" "--flags=-1" "--flags=3,12297829382473034411"

FLAGS="-g -O2"
LIB=$("$HERE/../buildlib.sh" "$SRC" "$CXX" $FLAGS) || { echo "build of library failed"; exit 2; }
$CXX -std=c++17 -w $FLAGS -I"$SRC/src" "$HERE/demo.cpp" "$LIB" -lpthread -o "$HERE/demo_plain" || { echo "build of demo failed"; exit 2; }
run_demo "$HERE/demo_plain" "--flags=-1" "--flags=3,12297829382473034411"

if [ $result -ne 0 ]; then
   echo "FAIL: invalid memory access for huge / negative bit position with std::vector<bool> destination"
else
   echo "PASS"
fi
exit $result
