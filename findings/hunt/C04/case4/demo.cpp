// Property C04, case 4: a range value with an increment of 0, e.g. "1-5[0]",
// for a destination created with DEST_RANGE() / DEST_RANGE_BITSET() makes the
// evaluation loop forever (std::set, std::bitset) or until the memory is
// exhausted (std::vector): the evaluation does not terminate.
//
// Uses only the public API: Handler, DEST_RANGE, DEST_RANGE_BITSET,
// evalArguments().

#include <bitset>
#include <iostream>
#include <set>
#include <string>
#include <vector>
#include "celma/prog_args.hpp"


using celma::prog_args::Handler;


int main( int argc, char* argv[])
{

   std::vector< std::string>  words = { "demo", "--set", "1-5[0]" };

   if (argc > 1)
   {
      words.resize( 1);
      for (int i = 1; i < argc; ++i)
         words.push_back( argv[ i]);
   } // end if

   std::vector< char*>  av;
   for (auto & w : words)
      av.push_back( w.data());
   av.push_back( nullptr);

   Handler             ah( 0);
   std::set< int>      value_set;
   std::bitset< 100>   value_bits;

   ah.addArgument( "s,set",  DEST_RANGE( value_set, int, std::set), "set of values");
   ah.addArgument( "b,bits", DEST_RANGE_BITSET( value_bits, 100), "bits to set");

   try
   {
      ah.evalArguments( static_cast< int>( av.size() - 1), av.data());
      std::cout << "normal return, " << value_set.size() << " values in set, "
         << value_bits.count() << " bits set" << std::endl;
   } catch (const std::exception& e)
   {
      std::cout << "std::exception: " << e.what() << std::endl;
   } // end try

   // both outcomes above are fine for property C04
   std::cout << "OK (evaluation returned or threw)" << std::endl;
   return 0;
}
