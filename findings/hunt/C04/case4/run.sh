#!/bin/bash
# usage: run.sh <source root>
# exits non-zero and prints FAIL when the violation shows
SRC=${1:?usage: run.sh <source root>}
HERE=$(cd "$(dirname "$0")" && pwd)
CXX=${CXX:-clang++}
FLAGS="-g -O1 -fsanitize=address,undefined -fno-omit-frame-pointer"
LIMIT=${LIMIT:-10}

LIB=$("$HERE/../buildlib.sh" "$SRC" "$CXX" $FLAGS) || { echo "build of library failed"; exit 2; }
$CXX -std=c++17 -w $FLAGS -I"$SRC/src" "$HERE/demo.cpp" "$LIB" -lpthread -o "$HERE/demo" || { echo "build of demo failed"; exit 2; }

result=0

echo "=== reference: demo --set 1-9[2]{5} --bits 10-20[5]"
ASAN_OPTIONS=detect_leaks=0 "$HERE/demo" --set '1-9[2]{5}' --bits '10-20[5]' 2>&1 | grep -E "normal return|std::exception|^OK"

run_limited()
{
   echo "=== demo $*   (limit: $LIMIT seconds)"
   ASAN_OPTIONS=detect_leaks=0 timeout -s KILL $LIMIT "$HERE/demo" "$@" > "$HERE/out.txt" 2>&1
   rc=$?
   grep -E "ERROR: AddressSanitizer|normal return|std::exception|^OK" "$HERE/out.txt" | cut -c1-200 | head -5
   if [ $rc -eq 137 ]; then
      echo "--> still running after $LIMIT seconds, killed: evaluation does not terminate"
      result=1
   elif [ $rc -ne 0 ] || ! grep -q "^OK" "$HERE/out.txt"; then
      echo "--> exit code $rc: evaluation neither returned nor threw a std::exception"
      result=1
   fi
}

run_limited --set '1-5[0]'
run_limited --bits '3,10-20[0]'
run_limited '--set=1-9{2-8[0]}'

if [ $result -ne 0 ]; then
   echo "FAIL: range string with increment 0 is accepted and never ends"
else
   echo "PASS"
fi
exit $result
