// Property C04, case 5: combination of destination types.
// A "disjoint" value constraint between a container destination (DEST_VAR on a
// std::vector< int>) and a range destination that fills the same type of
// container (DEST_RANGE( ..., int, std::vector)) is accepted by the library
// (the type check compares the *names* of the destination types, both are
// "std::vector<int>"), but when the constraint is evaluated at the end of
// evalArguments() the object that handles the range argument
// (TypedArgRange< int, std::vector< int>>) is static_cast'ed to
// TypedArg< ContainerAdapter< std::vector< int>>> and a member is read that
// lies behind the end of the object: heap-buffer-overflow, then a wild pointer
// is dereferenced.
//
// Happens for every argument vector that uses both arguments.
//
// Uses only the public API: Handler, DEST_VAR, DEST_RANGE, disjoint(),
// addConstraint(), evalArguments().

#include <iostream>
#include <string>
#include <vector>
#include "celma/prog_args.hpp"


using celma::prog_args::Handler;


int main( int argc, char* argv[])
{

   std::vector< std::string>  words = { "demo", "-l", "1,2,3", "-r", "5-7" };

   if (argc > 1)
   {
      words.resize( 1);
      for (int i = 1; i < argc; ++i)
         words.push_back( argv[ i]);
   } // end if

   std::vector< char*>  av;
   for (auto & w : words)
      av.push_back( w.data());
   av.push_back( nullptr);

   Handler             ah( 0);
   std::vector< int>   left;
   std::vector< int>   right;

   try
   {
      ah.addArgument( "l,left",  DEST_VAR( left), "list of values");
      ah.addArgument( "r,right", DEST_RANGE( right, int, std::vector),
         "range(s) of values");
      ah.addConstraint( celma::prog_args::disjoint( "left;right"));
   } catch (const std::exception& e)
   {
      // fine too: the library refuses the combination
      std::cout << "setup refused: " << e.what() << std::endl;
      std::cout << "OK (combination refused)" << std::endl;
      return 0;
   } // end try

   try
   {
      ah.evalArguments( static_cast< int>( av.size() - 1), av.data());
      std::cout << "normal return, left " << left.size() << " values, right "
         << right.size() << " values" << std::endl;
   } catch (const std::exception& e)
   {
      std::cout << "std::exception: " << e.what() << std::endl;
   } // end try

   // both outcomes above are fine for property C04
   std::cout << "OK (evaluation returned or threw)" << std::endl;
   return 0;
}
