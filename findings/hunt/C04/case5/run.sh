#!/bin/bash
# usage: run.sh <source root>
# exits non-zero and prints FAIL when the violation shows
SRC=${1:?usage: run.sh <source root>}
HERE=$(cd "$(dirname "$0")" && pwd)
CXX=${CXX:-clang++}
FLAGS="-g -O1 -fsanitize=address,undefined -fno-omit-frame-pointer"

LIB=$("$HERE/../buildlib.sh" "$SRC" "$CXX" $FLAGS) || { echo "build of library failed"; exit 2; }
$CXX -std=c++17 -w $FLAGS -I"$SRC/src" "$HERE/demo.cpp" "$LIB" -lpthread -o "$HERE/demo" || { echo "build of demo failed"; exit 2; }

result=0

echo "=== reference: demo -l 1,2,3   (only one of the two arguments used)"
ASAN_OPTIONS=detect_leaks=0 "$HERE/demo" -l 1,2,3 2>&1 | grep -E "normal return|std::exception|setup refused|^OK"

for args in "-l 1,2,3 -r 5-7" "-r 1-3 -l 3"; do
   echo "=== demo $args"
   ASAN_OPTIONS=detect_leaks=0 "$HERE/demo" $args > "$HERE/out.txt" 2>&1
   rc=$?
   grep -E "runtime error|ERROR: AddressSanitizer|^(READ|WRITE) of size|#[0-2] |is located|normal return|std::exception|setup refused|^OK" "$HERE/out.txt" | cut -c1-200 | head -8
   if [ $rc -ne 0 ] || ! grep -q "^OK" "$HERE/out.txt"; then
      echo "--> exit code $rc: evaluation neither returned nor threw a std::exception"
      result=1
   elif grep -q "runtime error: .*does not point to an object of type" "$HERE/out.txt"; then
      echo "--> object used through a pointer of an unrelated type"
      result=1
   fi
done

if [ $result -ne 0 ]; then
   echo "FAIL: 'disjoint' constraint between container destination and range destination reads outside of the argument object"
else
   echo "PASS"
fi
exit $result
