#!/bin/bash
# Shared helper of the caseN/run.sh scripts.
#
# usage: buildlib.sh <source root> <compiler> <flags ...>
#
# Compiles the library sources that the prog_args module needs (prog_args,
# common, format, appl, container) from <source root>/src/library with the given
# compiler and flags into a static archive and prints the path of the archive on
# stdout. The shared library of the project itself cannot be linked (a generated
# header is missing), therefore the .cpp files are compiled directly.
#
# The result is cached in hunt/.cache/<key>; the key is built from source root,
# compiler and flags, and the archive is rebuilt when any file below
# <source root>/src is newer than the archive. At most 4 compile jobs run in
# parallel.

set -u

SRC=$(cd "$1" && pwd) || exit 2
CXX=$2
shift 2
FLAGS="$*"

HUNT=$(cd "$(dirname "$0")" && pwd)
KEY=$(echo "$SRC $CXX $FLAGS" | md5sum | cut -c1-12)
OUT=$HUNT/.cache/$KEY
LIB=$OUT/libcelma.a

mkdir -p "$OUT" || exit 2

if [ -f "$LIB" ] && [ -z "$(find "$SRC/src/celma" "$SRC/src/library" -type f -newer "$LIB" 2>/dev/null | head -1)" ]; then
   echo "$LIB"
   exit 0
fi

find "$OUT" -name '*.o' -delete
[ -f "$LIB" ] && mv "$LIB" "$LIB.old"

FILES=$(find "$SRC/src/library/prog_args" "$SRC/src/library/common" \
             "$SRC/src/library/format" "$SRC/src/library/appl" \
             "$SRC/src/library/container" -name '*.cpp' \
        | grep -v /test | grep -v print_version_info)

export CXX FLAGS SRC OUT
echo "$FILES" | xargs -P4 -I{} sh -c '
   obj=$OUT/$(echo {} | md5sum | cut -c1-8)_$(basename {} .cpp).o
   $CXX -std=c++17 -w -c $FLAGS -I$SRC/src {} -o $obj || echo "compile error: {}" >&2
' >&2

ar rcs "$LIB" "$OUT"/*.o >&2 || exit 2
echo "$LIB"
