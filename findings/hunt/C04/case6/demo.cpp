// Property C04, case 6: a long value (here 100'000 characters, which fits into
// a single word of a real command line: MAX_ARG_STRLEN is 131072 on Linux; from
// an argument file or an environment variable there is no limit at all) for an
// argument with a pattern() check kills the process with SIGSEGV: the check
// hands the value unchecked to std::regex_match(), whose libstdc++
// implementation recurses once per matched character and runs out of stack.
//
// Uses only the public API: Handler, DEST_VAR, addCheck( pattern( ...)),
// evalArguments().

#include <cstdlib>
#include <iostream>
#include <string>
#include <vector>
#include "celma/prog_args.hpp"


using celma::prog_args::Handler;


int main( int argc, char* argv[])
{

   const size_t  len = (argc > 1) ? ::strtoul( argv[ 1], nullptr, 10) : 100000;

   std::vector< std::string>  words = { "demo", "--name=" + std::string( len, 'a') };
   std::vector< char*>        av;

   for (auto & w : words)
      av.push_back( w.data());
   av.push_back( nullptr);

   Handler      ah( 0);
   std::string  name;

   ah.addArgument( "n,name", DEST_VAR( name), "name, lowercase letters only")
      ->addCheck( celma::prog_args::pattern( "^[a-z]+$"));

   try
   {
      ah.evalArguments( static_cast< int>( av.size() - 1), av.data());
      std::cout << "normal return, length of name = " << name.length() << std::endl;
   } catch (const std::exception& e)
   {
      std::cout << "std::exception: " << e.what() << std::endl;
   } // end try

   // both outcomes above are fine for property C04
   std::cout << "OK (evaluation returned or threw)" << std::endl;
   return 0;
}
