#!/bin/bash
# usage: run.sh <source root>
# exits non-zero and prints FAIL when the violation shows
#
# Built with plain -O2 (no sanitizer): the point is the stack consumption of
# the regular build, the instrumentation would only make the frames bigger.
SRC=${1:?usage: run.sh <source root>}
HERE=$(cd "$(dirname "$0")" && pwd)
CXX=${CXX:-g++}
FLAGS="-g -O2"

LIB=$("$HERE/../buildlib.sh" "$SRC" "$CXX" $FLAGS) || { echo "build of library failed"; exit 2; }
$CXX -std=c++17 -w $FLAGS -I"$SRC/src" "$HERE/demo.cpp" "$LIB" -lpthread -o "$HERE/demo" || { echo "build of demo failed"; exit 2; }

result=0
echo "stack limit: $(ulimit -s) kB"
for len in 100 100000 130000; do
   echo "=== demo $len   (value of $len characters for an argument with pattern check)"
   "$HERE/demo" $len > "$HERE/out.txt" 2>&1
   rc=$?
   grep -E "normal return|std::exception|^OK" "$HERE/out.txt" | cut -c1-200
   if [ $rc -ne 0 ] || ! grep -q "^OK" "$HERE/out.txt"; then
      echo "--> exit code $rc (139 = SIGSEGV): evaluation neither returned nor threw a std::exception"
      result=1
   fi
done

if [ $result -ne 0 ]; then
   echo "FAIL: long value for an argument with pattern check exhausts the stack"
else
   echo "PASS"
fi
exit $result
