#!/bin/bash
# usage: run.sh <source root>
# exits non-zero and prints FAIL when the violation shows
SRC=${1:?usage: run.sh <source root>}
HERE=$(cd "$(dirname "$0")" && pwd)
CXX=${CXX:-clang++}
FLAGS="-g -O1 -fsanitize=address,undefined -fno-omit-frame-pointer"

LIB=$("$HERE/../buildlib.sh" "$SRC" "$CXX" $FLAGS) || { echo "build of library failed"; exit 2; }
$CXX -std=c++17 -w $FLAGS -I"$SRC/src" "$HERE/demo.cpp" "$LIB" -lpthread -o "$HERE/demo" || { echo "build of demo failed"; exit 2; }

result=0
for arg in "--bits=-1" "-b-1" "--bits=3,18446744073709551615"; do
   echo "=== demo $arg"
   ASAN_OPTIONS=detect_leaks=0 "$HERE/demo" "$arg" > "$HERE/out.txt" 2>&1
   rc=$?
   grep -E "ERROR: AddressSanitizer|^(READ|WRITE) of size|#[0-3] |normal return|std::exception|^OK" "$HERE/out.txt" | cut -c1-200 | head -7
   if [ $rc -ne 0 ] || ! grep -q "^OK" "$HERE/out.txt"; then
      echo "--> exit code $rc: evaluation neither returned nor threw a std::exception"
      result=1
   fi
done

if [ $result -ne 0 ]; then
   echo "FAIL: invalid memory access for bit position -1 / SIZE_MAX with DynamicBitset destination"
else
   echo "PASS"
fi
exit $result
