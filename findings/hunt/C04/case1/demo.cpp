// Property C04, case 1: a bit position of -1 (or 18446744073709551615) for a
// destination of type celma::container::DynamicBitset makes the library write
// outside of the storage of the bitset.
//
// Uses only the public API: Handler, DEST_VAR, evalArguments().

#include <iostream>
#include <string>
#include <vector>
#include "celma/container/dynamic_bitset.hpp"
#include "celma/prog_args.hpp"


using celma::prog_args::Handler;


int main( int argc, char* argv[])
{

   // the word(s) to evaluate can be given on the command line of the demo,
   // default is the natural "negative position"
   std::vector< std::string>  words = { "demo", "--bits=-1" };

   if (argc > 1)
   {
      words.resize( 1);
      for (int i = 1; i < argc; ++i)
         words.push_back( argv[ i]);
   } // end if

   std::vector< char*>  av;
   for (auto & w : words)
      av.push_back( w.data());
   av.push_back( nullptr);

   Handler                         ah( 0);
   celma::container::DynamicBitset  bits( 10);

   ah.addArgument( "b,bits", DEST_VAR( bits), "positions of the bits to set");

   try
   {
      ah.evalArguments( static_cast< int>( av.size() - 1), av.data());
      std::cout << "normal return, size of bitset = " << bits.size() << std::endl;
   } catch (const std::exception& e)
   {
      std::cout << "std::exception: " << e.what() << std::endl;
   } // end try

   // both outcomes above are fine for property C04
   std::cout << "OK (evaluation returned or threw)" << std::endl;
   return 0;
}
