#include <iostream>
#include <vector>
#include "celma/prog_args.hpp"
using namespace celma::prog_args;
int main(int argc, char* argv[])
{
   Handler ah(0);
   std::vector<int> v1, v2;
   ah.addArgument("l,left",  DEST_VAR(v1), "values");
   ah.addArgument("r,right", DEST_RANGE(v2, int, std::vector), "range of values");
   ah.addConstraint(disjoint("left;right"));
   try {
      ah.evalArguments(argc, argv);
      std::cout << "ok " << v1.size() << " " << v2.size() << std::endl;
   } catch (const std::exception& e) {
      std::cout << "exception: " << e.what() << std::endl;
   }
   return 0;
}
