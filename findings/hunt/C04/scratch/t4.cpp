#include <iostream>
#include <vector>
#include <cstring>
#include "celma/prog_args.hpp"
using namespace celma::prog_args;
int main(int argc, char* argv[])
{
   Handler ah(0);
   std::string name;
   ah.addArgument("n,name", DEST_VAR(name), "name")->addCheck(pattern("^[a-z]+$"));
   std::string big(atoi(argv[1]), 'a');
   std::string a = "--name=" + big;
   char* av[] = { argv[0], a.data(), nullptr };
   try {
      ah.evalArguments(2, av);
      std::cout << "ok len=" << name.size() << std::endl;
   } catch (const std::exception& e) {
      std::cout << "exception: " << e.what() << std::endl;
   }
   return 0;
}
