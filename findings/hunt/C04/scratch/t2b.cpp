#include <iostream>
#include "celma/prog_args.hpp"
using namespace celma::prog_args;
int main(int argc, char* argv[])
{
   Handler ah(0);
   std::string cmd;
   ah.addArgument("c,cmd", DEST_VAR(cmd), "command")->setValueMode(Handler::ValueMode::command);
   try {
      ah.evalArguments(argc, argv);
      std::cout << "ok cmd='" << cmd << "'" << std::endl;
   } catch (const std::exception& e) {
      std::cout << "exception: " << e.what() << std::endl;
   }
   return 0;
}
