#include <iostream>
#include <sstream>
#include <thread>
#include <vector>
#include <map>
#include <tuple>
#include "celma/prog_args.hpp"
#include "celma/appl/arg_string_2_array.hpp"
using namespace celma::prog_args;
static void work(int id)
{
   for (int n = 0; n < 200; ++n) {
      std::ostringstream o, e;
      Handler ah(o, e, Handler::hfHelpShort | Handler::hfHelpLong | Handler::hfUsageCont | Handler::hfEnvVarArgs | Handler::hfReadProgArg | Handler::hfListArgVar | Handler::hfHelpArg);
      ah.checkEnvVarArgs("T6ENV");
      int i = 0; std::string s; std::vector<int> v; std::map<int,std::string> m; std::tuple<int,int> t; std::vector<int> r; bool f=false;
      ah.addArgument("i,int", DEST_VAR(i), "int")->addCheck(range(0, 100));
      ah.addArgument("s", DEST_VAR(s), "str")->addFormat(lowercase());
      ah.addArgument("v", DEST_VAR(v), "vec")->setListSep(id ? ';' : ',');
      ah.addArgument("m", DEST_VAR(m), "map");
      ah.addArgument("t", DEST_VAR(t), "tup");
      ah.addArgument("r", DEST_RANGE(r, int, std::vector), "rng");
      ah.addArgument("f", DEST_VAR(f), "flag");
      ah.addArgumentFile("argfile");
      auto as = celma::appl::make_arg_array(id ? "-i 5 -s AbC -v 1;2;3 -m 1,a;2,b -t 3,4 -r 1-9[2] --argfile /tmp/mut/H04/hunt/scratch/t6.args -h --help-arg=i --list-arg-vars"
                                               : "-i 7 -s XyZ -v 4,5,6 -m 3,c -t 5,6 -r 2-20{4-6} --argfile /tmp/mut/H04/hunt/scratch/t6.args -h --list-arg-vars", "prog");
      try { ah.evalArguments(as.mArgC, as.mpArgV); } catch (const std::exception& ex) { static thread_local int cnt = 0; if (cnt++ == 0) std::cerr << "exc " << id << ": " << ex.what() << std::endl; }
   }
}
int main()
{
   setenv("T6ENV", "-f", 1);
   { FILE* f = fopen("/tmp/mut/H04/hunt/scratch/t6.args", "w"); fputs("-v 9\n", f); fclose(f); }
   std::thread a(work, 0), b(work, 1);
   a.join(); b.join();
   std::cout << "done" << std::endl;
}
