#include <iostream>
#include <fstream>
#include <set>
#include "celma/prog_args.hpp"
using namespace celma::prog_args;
int main(int argc, char* argv[])
{
   Handler ah(0);
   std::set<int> sr;
   ah.addArgument("s", DEST_RANGE(sr, int, std::set), "range");
   ah.addArgumentFile("argfile");
   try {
      ah.evalArguments(argc, argv);
      std::cout << "ok sr=" << sr.size() << std::endl;
   } catch (const std::exception& e) {
      std::cout << "exception: " << e.what() << std::endl;
   }
   return 0;
}
