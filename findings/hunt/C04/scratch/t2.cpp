#include <iostream>
#include <vector>
#include <cstring>
#include "celma/prog_args.hpp"
using namespace celma::prog_args;
int main(int argc, char* argv[])
{
   // copy argv into exactly-sized heap array (no terminating nullptr)
   char** av = new char*[argc];
   for (int i = 0; i < argc; ++i) { av[i] = new char[strlen(argv[i]) + 1]; strcpy(av[i], argv[i]); }
   Handler ah(0);
   std::string cmd;
   bool flag = false;
   ah.addArgument("c,cmd", DEST_VAR(cmd), "command")->setValueMode(Handler::ValueMode::command);
   ah.addArgument("f", DEST_VAR(flag), "flag");
   try {
      ah.evalArguments(argc, av);
      std::cout << "ok cmd='" << cmd << "'" << std::endl;
   } catch (const std::exception& e) {
      std::cout << "exception: " << e.what() << std::endl;
   }
   return 0;
}
