#include <iostream>
#include <vector>
#include "celma/prog_args.hpp"
#include "celma/container/dynamic_bitset.hpp"
using namespace celma::prog_args;
int main(int argc, char* argv[])
{
   Handler ah(0);
   celma::container::DynamicBitset dbs(10);
   std::vector<bool> vb;
   ah.addArgument("b,bits", DEST_VAR(dbs), "bits");
   ah.addArgument("v,vbits", DEST_VAR(vb), "vbits");
   try {
      ah.evalArguments(argc, argv);
      std::cout << "ok size " << dbs.size() << " vb " << vb.size() << std::endl;
   } catch (const std::exception& e) {
      std::cout << "exception: " << e.what() << std::endl;
   }
   return 0;
}
