// random / grammar-aware fuzzing of Handler::evalArguments
#include <iostream>
#include <sstream>
#include <fstream>
#include <random>
#include <vector>
#include <set>
#include <map>
#include <list>
#include <deque>
#include <array>
#include <tuple>
#include <bitset>
#include <optional>
#include <cstring>
#include <unistd.h>
#include "celma/prog_args.hpp"
#include "celma/container/dynamic_bitset.hpp"
using namespace celma::prog_args;
static std::mt19937_64 rng;
static const char* toks[] = { "-", "--", "---", "-a", "-b", "-i", "--int", "--int=", "--int=5", "-i5", "-ai", "-ia", "--str", "-s", "--str=x y", "=", "==", "-=", "--=", "--=x",
  "(", ")", "!", "-!", "-(", "--(", "!!", "1", "2,3", "4,5,6", "7,8,9,10", "a", "abc", ",", ",,", "1,", ",1", "-1", "--vec", "-v", "--arr", "--tup", "-t", "--map", "-m", "k,v", "k,v;l,w", "{k,v}",
  "--set", "--lst", "--opt", "--obool", "-o", "--lvl", "-l", "-lll", "-l3", "--lvl=2", "--bs", "--bs=3", "--bs=99", "-B", "--sub", "-g", "-x", "--xx", "--cmd", "-c", "--endvalues", "--help", "-h",
  "--help-arg", "--help-arg=i", "--help-arg=sub/x", "--help-arg-full=vec", "--help-arg=/", "--list-arg-vars", "--print-hidden", "--help-short", "--help-long", "--print-deprecated", "--argfile", "-f", "/tmp/mut/H04/hunt/scratch/fz.args", "/nonexistent", "/tmp",
  "--rng", "-r", "1-5", "1-9[2]", "1-9{3,4}", "3,5-7", "1-", "-5", "[", "]", "{", "}", "--flt", "[3", "]7", "2-4+!3", "!", "!5", "+", "1+", "--pair", "-p", "--se", "--val", "--dep", "--rep", "--man", "--in", "--i", "--s", "--v", "--h", "--he", "", " ", "\t", "\xff\xfe", "--\xff", "-\xff", "--int=\xff", "a=b", "--a=b=c", "--,", "--a,b", "--a,bc", "--i,int", "-,", "--int,", "----", "-----x", "-a-", "-a-b", "-a-b=c", "-a--", "-i-1", "-i=1", "--int=-1", "--vec=1,2", "--vec=", "--arr=1,2,3,4,5", "--tup=1,a", "--tup=1,a,3", "--tup=1", "--map=a,b", "--map=", "--bs=-1", "--opt=x", "--lvl=x", "--lvl=-2147483648", "99999999999999999999", "--int=99999999999999999999", "0x10", "1e5", "+1", " 1", "1 "};
static std::string randword() {
  int r = rng() % 100;
  if (r < 80) return toks[rng() % (sizeof(toks)/sizeof(toks[0]))];
  if (r < 90) { // mutate a token
    std::string s = toks[rng() % (sizeof(toks)/sizeof(toks[0]))];
    int n = rng() % 3 + 1;
    for (int i = 0; i < n; ++i) {
      static const char cs[] = "-=()!,;{}[] ab1\\\"'+\xff";
      char c = cs[rng() % (sizeof(cs)-1)];
      size_t pos = s.empty() ? 0 : rng() % (s.size()+1);
      if (rng() % 2 || s.empty()) s.insert(pos, 1, c); else s[pos % s.size()] = c;
    }
    return s;
  }
  std::string s; int n = rng() % 8;
  for (int i = 0; i < n; ++i) { char c = (char)(rng() % 255 + 1); s.push_back(c); }
  return s;
}
struct Null : std::streambuf { int overflow(int c) override { return c; } };
static void cb(bool) {}
static void cbv(const std::string&, bool) {}
int main(int argc, char* argv[])
{
  unsigned long seed = argc > 1 ? strtoul(argv[1], 0, 10) : 1;
  long iters = argc > 2 ? atol(argv[2]) : 1000;
  bool verbose = argc > 3;
  Null nb; std::ostream nul(&nb);
  for (long it = 0; it < iters; ++it) {
    rng.seed(seed * 1000003ULL + it);
    int flags = (int)(rng() & 0x3ffff) | Handler::hfUsageCont;
    flags &= ~(Handler::hfListArgGroups | Handler::hfInGroup);
    if (rng() % 4) flags &= ~(Handler::hfHelpShort|Handler::hfHelpLong|Handler::hfListArgVar|Handler::hfHelpArg|Handler::hfHelpArgFull|Handler::hfUsageShort|Handler::hfUsageLong);
    // words
    std::vector<std::string> words; words.push_back(rng()%5 ? "prog" : randword());
    int nw = rng() % 8;
    for (int i = 0; i < nw; ++i) words.push_back(randword());
    // sources
    { std::ofstream f("/tmp/mut/H04/hunt/scratch/fz.args"); int nl = rng()%3; for (int l = 0; l < nl; ++l) { int n = rng()%4; for (int i = 0; i < n; ++i) f << randword() << ' '; if (l+1<nl || rng()%2) f << '\n'; } }
    { std::string ev; int n = rng()%4; for (int i = 0; i < n; ++i) ev += randword() + " "; setenv("FZENV", ev.c_str(), 1); }
    if (verbose) { std::cerr << "it " << it << " flags " << std::hex << flags << std::dec << ":"; for (auto& w : words) std::cerr << " [" << w << "]"; std::cerr << std::endl; }
    try {
      Handler ah(nul, nul, flags);
      Handler sub(ah, 0);
      bool a=false,b=false; int i=0; std::string s, cmd; std::vector<int> vec; int arr[3]={0,0,0}; std::array<int,3> sarr{};
      std::tuple<int,std::string> tup; std::map<std::string,std::string> mp; std::set<int> st; std::list<std::string> lst;
      std::optional<int> opt; std::optional<bool> obool; LevelCounter lvl; std::bitset<10> bs; std::vector<bool> vb(20);
      int x=0; std::string xx; std::vector<int> rngv; celma::common::ValueFilter<int> flt; int p1=0; std::string p2; int se1=0,se2=0; int val=0; int dep=0, rep=0; int man=0; std::vector<std::string> pos;
      if (flags & Handler::hfEnvVarArgs) ah.checkEnvVarArgs("FZENV");
      ah.addArgument("a", DEST_VAR(a), "a"); ah.addArgument("b", DEST_VAR(b), "b");
      ah.addArgument("i,int", DEST_VAR(i), "int");
      ah.addArgument("s,str", DEST_VAR(s), "str")->addFormat(uppercase());
      auto v = ah.addArgument("v,vec", DEST_VAR(vec), "vec"); if (rng()%2) v->setTakesMultiValue(); if (rng()%2) v->setUniqueData(rng()%2); if (rng()%2) v->setSortData(); if (rng()%2) v->setCardinality(cardinality_max(3));
      auto ar = ah.addArgument("arr", DEST_VAR(arr), "arr"); if (rng()%2) ar->setTakesMultiValue(); if (rng()%2) ar->setUniqueData();
      ah.addArgument("sarr", DEST_VAR(sarr), "sarr")->setSortData();
      auto tu = ah.addArgument("t,tup", DEST_VAR(tup), "tup"); if (rng()%2) tu->setTakesMultiValue(); if (rng()%3==0) tu->setCardinality();
      auto m = ah.addArgument("m,map", DEST_VAR(mp), "map"); if (rng()%2) m->setPairFormat(rng()%2 ? "," : ",{}"); if (rng()%2) m->setTakesMultiValue();
      ah.addArgument("set", DEST_VAR(st), "set"); ah.addArgument("lst", DEST_VAR(lst), "lst")->setListSep(rng()%2?',':'-');
      ah.addArgument("opt", DEST_VAR(opt), "opt"); ah.addArgument("o,obool", DEST_VAR(obool), "obool");
      auto lv = ah.addArgument("l,lvl", DEST_VAR(lvl), "lvl"); if (rng()%2) lv->setAllowMixIncSet();
      auto bsa = ah.addArgument("B,bs", DEST_VAR(bs), "bs"); if (rng()%2) bsa->setTakesMultiValue();
      ah.addArgument("vb", DEST_VAR(vb), "vb");
      sub.addArgument("x", DEST_VAR(x), "x"); sub.addArgument("xx", DEST_VAR(xx), "xx");
      ah.addArgument("g,sub", sub, "sub");
      if (rng()%2) ah.addArgument("c,cmd", DEST_VAR(cmd), "cmd")->setValueMode(Handler::ValueMode::command);
      ah.addArgumentFile("f,argfile");
      ah.addArgument("r,rng", DEST_RANGE(rngv, int, std::vector), "rng");
      ah.addArgument("flt", DEST_VAR(flt), "flt");
      ah.addArgument("p,pair", DEST_PAIR(p1, p2, std::string("P")), "pair");
      ah.addArgument("se", DEST_START_END(se1, se2), "se");
      ah.addArgument("val", DEST_VAR_VALUE(val, 42), "val");
      ah.addArgument("dep", DEST_VAR(dep), "dep")->setIsDeprecated(); ah.addArgument("rep", DEST_VAR(rep), "rep")->setReplacedBy("--int");
      if (rng()%4==0) ah.addArgument("man", DEST_VAR(man), "man")->setIsMandatory();
      ah.addArgument("in", DEST_VAR(man), "in")->setIsHidden();
      if (rng()%2) ah.addArgument("cb", DEST_FUNCTION(cb), "cb"); 
      if (rng()%2) ah.addArgument("cbv", DEST_FUNCTION_VALUE(cbv), "cbv")->setValueMode(Handler::ValueMode::optional);
      if (rng()%2) { auto pa = ah.addArgument("-", DEST_VAR(pos), "positional"); if (rng()%2) pa->setTakesMultiValue(); }
      if (rng()%2) ah.addBracketHandler([](){}, [](){});
      if (rng()%3==0) ah.addConstraint(any_of("a;b"));
      if (rng()%3==0) ah.addConstraint(one_of("i;s"));
      if (rng()%3==0) ah.addConstraint(all_of("opt;o"));
      if (rng()%3==0) ah.addConstraint(differ("i;val"));
      if (rng()%3==0) ah.getArgHandler("a")->addConstraint(requiresArg("b"));
      if (rng()%3==0) ah.getArgHandler("o")->addConstraint(excludes("l"));
      // exact-size heap argv (no terminating nullptr) so that ASan sees argv[argc]
      int ac = (int)words.size(); if (rng()%20==0) ac = 0;
      char** av = new char*[ac + 1]; av[ac] = nullptr;
      for (int k = 0; k < ac; ++k) { av[k] = new char[words[k].size()+1]; strcpy(av[k], words[k].c_str()); }
      int reps = rng()%3==0 ? 2 : 1;
      for (int r = 0; r < reps; ++r) {
        try { ah.evalArguments(ac, av); } catch (const std::exception&) {}
      }
      for (int k = 0; k < ac; ++k) delete[] av[k]; delete[] av;
    } catch (const std::exception& e) { if (verbose) std::cerr << "setup exc " << e.what() << std::endl; }
  }
  std::cout << "done" << std::endl;
  return 0;
}
