import sys
d = int(sys.argv[1])
# level i: range (i+1)-(2d+10 - i) 
s = ""
for i in range(d):
    s += "%d-%d{" % (i+1, 2*d+10-i)
s += "%d" % (d+2)
s += "}" * d
sys.stdout.write(s)
