#include <iostream>
#include <vector>
#include <set>
#include <cstring>
#include "celma/prog_args.hpp"
using namespace celma::prog_args;
int main(int argc, char* argv[])
{
   Handler ah(0);
   std::vector<int> vr;
   std::set<int> sr;
   ah.addArgument("r", DEST_RANGE(vr, int, std::vector), "range");
   ah.addArgument("s", DEST_RANGE(sr, int, std::set), "range");
   try {
      ah.evalArguments(argc, argv);
      std::cout << "ok vr=" << vr.size() << " sr=" << sr.size() << std::endl;
   } catch (const std::exception& e) {
      std::cout << "exception: " << e.what() << std::endl;
   }
   return 0;
}
