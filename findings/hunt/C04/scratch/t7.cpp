#include <iostream>
#include <vector>
#include "celma/prog_args.hpp"
using namespace celma::prog_args;
int main(int argc, char* argv[])
{
   Handler ah(0);
   std::vector<bool> vb(1);
   ah.addArgument("v,vbits", DEST_VAR(vb), "vbits");
   try {
      ah.evalArguments(argc, argv);
      std::cout << "ok size " << vb.size() << std::endl;
   } catch (const std::exception& e) {
      std::cout << "exception: " << e.what() << std::endl;
   }
   return 0;
}
