#!/bin/bash
# usage: run.sh <source root>
# exits non-zero and prints FAIL when the violation shows
#
# Built with plain -O2 (no sanitizer): the point is the stack consumption of
# the regular build. Runs with a stack limit of 1 MB (ulimit -s 1024), which is
# what e.g. a thread of a Java VM, or a thread on macOS (512 kB) / musl (128 kB)
# gets; with the default 8 MB 18000 levels (225 kB of text, e.g. a line in an
# argument file) are needed and the process needs 7.8 GB of memory before it
# dies with SIGSEGV (tried), that is why the small stack is used here.
SRC=${1:?usage: run.sh <source root>}
HERE=$(cd "$(dirname "$0")" && pwd)
CXX=${CXX:-g++}
FLAGS="-g -O2"

LIB=$("$HERE/../buildlib.sh" "$SRC" "$CXX" $FLAGS) || { echo "build of library failed"; exit 2; }
$CXX -std=c++17 -w $FLAGS -I"$SRC/src" "$HERE/demo.cpp" "$LIB" -lpthread -o "$HERE/demo" || { echo "build of demo failed"; exit 2; }

result=0
for depth in 10 3000; do
   echo "=== (ulimit -s 1024; demo $depth)"
   ( ulimit -s 1024; "$HERE/demo" $depth > "$HERE/out.txt" 2>&1 )
   rc=$?
   grep -E "^depth|normal return|std::exception|^OK" "$HERE/out.txt" | cut -c1-200
   if [ $rc -ne 0 ] || ! grep -q "^OK" "$HERE/out.txt"; then
      echo "--> exit code $rc (139 = SIGSEGV): evaluation neither returned nor threw a std::exception"
      result=1
   fi
done

if [ $result -ne 0 ]; then
   echo "FAIL: nesting depth of exclude expressions in a range string is not limited, stack exhausted"
else
   echo "PASS"
fi
exit $result
