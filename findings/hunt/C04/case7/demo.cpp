// Property C04, case 7: exclude expressions in range strings may be nested
// ("1-20{3-17{5-15{ ...}}}"); every level is evaluated by a recursive call
// (RangeStringIterator::createRanger() constructs a RangeStringIterator for
// the exclude expression, whose constructor calls createRanger() ...), and
// the depth is not limited. The recursion happens before the values of the
// inner ranges are validated.
// A range value with some thousand levels (4 to 10 characters per level)
// exhausts the stack: 2000 levels = 20 kB of text with a stack of 1 MB,
// 18000 levels = 225 kB of text (possible in an argument file or environment
// variable) with the default stack of 8 MB.
//
// Uses only the public API: Handler, DEST_RANGE, evalArguments().

#include <cstdlib>
#include <iostream>
#include <set>
#include <string>
#include <vector>
#include "celma/prog_args.hpp"


using celma::prog_args::Handler;


int main( int argc, char* argv[])
{

   const int  depth = (argc > 1) ? ::atoi( argv[ 1]) : 3000;

   // level i: range (i + 1) - (2 * depth + 10 - i), each range lies within the
   // range of the level above, i.e. the expression is completely valid
   std::string  range;
   for (int i = 0; i < depth; ++i)
      range.append( std::to_string( i + 1)).append( "-")
         .append( std::to_string( 2 * depth + 10 - i)).append( "{");
   range.append( std::to_string( depth + 2));
   range.append( depth, '}');

   std::vector< std::string>  words = { "demo", "--values", range };
   std::vector< char*>        av;

   for (auto & w : words)
      av.push_back( w.data());
   av.push_back( nullptr);

   Handler          ah( 0);
   std::set< int>   values;

   ah.addArgument( "v,values", DEST_RANGE( values, int, std::set), "values");

   std::cout << "depth " << depth << ", length of range string "
      << range.length() << std::endl;

   try
   {
      ah.evalArguments( static_cast< int>( av.size() - 1), av.data());
      std::cout << "normal return, " << values.size() << " values" << std::endl;
   } catch (const std::exception& e)
   {
      std::cout << "std::exception: " << e.what() << std::endl;
   } // end try

   // both outcomes above are fine for property C04
   std::cout << "OK (evaluation returned or threw)" << std::endl;
   return 0;
}
