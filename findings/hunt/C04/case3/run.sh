#!/bin/bash
# usage: run.sh <source root>
# exits non-zero and prints FAIL when the violation shows
SRC=${1:?usage: run.sh <source root>}
HERE=$(cd "$(dirname "$0")" && pwd)
CXX=${CXX:-clang++}
FLAGS="-g -O1 -fsanitize=address,undefined -fno-omit-frame-pointer"

LIB=$("$HERE/../buildlib.sh" "$SRC" "$CXX" $FLAGS) || { echo "build of library failed"; exit 2; }
$CXX -std=c++17 -w $FLAGS -I"$SRC/src" "$HERE/demo.cpp" "$LIB" -lpthread -o "$HERE/demo" || { echo "build of demo failed"; exit 2; }

result=0

echo "=== reference: demo -c ls -l   (command argument followed by words)"
ASAN_OPTIONS=detect_leaks=0 "$HERE/demo" -c ls -l 2>&1 | grep -E "normal return|std::exception|^OK"

echo "=== informational: demo -v -c NULLTERM   (argv[argc] == NULL like in main())"
ASAN_OPTIONS=detect_leaks=0 "$HERE/demo" -v -c NULLTERM 2>&1 | grep -E "ERROR: AddressSanitizer|normal return|std::exception|^OK" | cut -c1-200

for args in "-c" "-v -c"; do
   echo "=== demo $args   (command argument is the last word, argv has exactly argc elements)"
   ASAN_OPTIONS=detect_leaks=0 "$HERE/demo" $args > "$HERE/out.txt" 2>&1
   rc=$?
   grep -E "ERROR: AddressSanitizer|^(READ|WRITE) of size|#[0-2] |is located|normal return|std::exception|^OK" "$HERE/out.txt" | cut -c1-200 | head -7
   if [ $rc -ne 0 ] || ! grep -q "^OK" "$HERE/out.txt"; then
      echo "--> exit code $rc: evaluation neither returned nor threw a std::exception"
      result=1
   fi
done

if [ $result -ne 0 ]; then
   echo "FAIL: argsAsString() reads argv[argc] when an argument with value mode 'command' is the last word"
else
   echo "PASS"
fi
exit $result
