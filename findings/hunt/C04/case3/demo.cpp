// Property C04, case 3: an argument with value mode "command" (takes the rest
// of the command line as its value) that is the LAST word of the argument
// vector makes ArgListIterator::argsAsString() read argv[ argc], i.e. one
// element behind the argument vector.
//
// The argument vector is passed as (argc, argv) with exactly argc elements, as
// the interface of Handler::evalArguments() describes it ("Number of arguments",
// "List of argument strings"); the vector is allocated on the heap so that the
// sanitizer sees the bounds.
//
// Uses only the public API: Handler, DEST_VAR, setValueMode(), evalArguments().

#include <cstring>
#include <iostream>
#include <string>
#include <vector>
#include "celma/prog_args.hpp"


using celma::prog_args::Handler;


int main( int argc, char* argv[])
{

   std::vector< std::string>  words = { "demo", "-v", "-c" };
   bool                       null_terminated = false;

   if (argc > 1)
   {
      words.resize( 1);
      for (int i = 1; i < argc; ++i)
      {
         if (::strcmp( argv[ i], "NULLTERM") == 0)
            null_terminated = true;
         else
            words.push_back( argv[ i]);
      } // end for
   } // end if

   // exactly argc elements (plus a terminating NULL pointer only on request,
   // like the argv of main() has it)
   const int  my_argc = static_cast< int>( words.size());
   char**     my_argv = new char*[ my_argc + (null_terminated ? 1 : 0)];

   for (int i = 0; i < my_argc; ++i)
      my_argv[ i] = words[ i].data();
   if (null_terminated)
      my_argv[ my_argc] = nullptr;

   Handler      ah( 0);
   std::string  command;
   bool         verbose = false;

   ah.addArgument( "v", DEST_VAR( verbose), "verbose");
   ah.addArgument( "c,command", DEST_VAR( command), "command to execute")
      ->setValueMode( Handler::ValueMode::command);

   try
   {
      ah.evalArguments( my_argc, my_argv);
      std::cout << "normal return, command = '" << command << "'" << std::endl;
   } catch (const std::exception& e)
   {
      std::cout << "std::exception: " << e.what() << std::endl;
   } // end try

   delete [] my_argv;

   // both outcomes above are fine for property C04
   std::cout << "OK (evaluation returned or threw)" << std::endl;
   return 0;
}
