#include <cstdlib>
#include <fstream>
#include <iostream>
#include <tuple>
#include <array>
#include <vector>
#include "celma/prog_args.hpp"
#include "celma/prog_args/eval_argument_string.hpp"
using celma::prog_args::Handler;
using celma::prog_args::evalArgumentString;

static void writeFile(const std::string& fn, const std::string& content) { std::ofstream f(fn); f << content; }

template<typename F> void run(const char* name, F f) {
  try { f(); std::cout << name << ": ok\n"; }
  catch (const std::exception& e) { std::cout << name << ": EXC " << e.what() << "\n"; }
}

int main() {
  // 1. tuple override
  run("tuple file+cmd", []{
    Handler ah(0); std::tuple<int,int> t{0,0};
    ah.addArgument("t", DEST_VAR(t), "tuple"); ah.addArgumentFile("arg-file");
    writeFile("f1.txt", "-t 1,2\n");
    evalArgumentString(ah, "--arg-file f1.txt -t 3,4");
    std::cout << std::get<0>(t) << "," << std::get<1>(t) << "\n";
  });
  run("array file+cmd", []{
    Handler ah(0); std::array<int,2> t{0,0};
    ah.addArgument("t", DEST_VAR(t), "arr"); ah.addArgumentFile("arg-file");
    writeFile("f1.txt", "-t 1,2\n");
    evalArgumentString(ah, "--arg-file f1.txt -t 3,4");
    std::cout << t[0] << "," << t[1] << "\n";
  });
  run("levelcounter file+cmd", []{
    Handler ah(0); celma::prog_args::LevelCounter lc;
    ah.addArgument("v", DEST_VAR(lc), "lc"); ah.addArgumentFile("arg-file");
    writeFile("f1.txt", "-v 3\n");
    evalArgumentString(ah, "--arg-file f1.txt -v 5");
    std::cout << lc.value() << "\n";
  });
  run("int file+cmd", []{
    Handler ah(0); int i=0;
    ah.addArgument("i", DEST_VAR(i), "i"); ah.addArgumentFile("arg-file");
    writeFile("f1.txt", "-i 3\n");
    evalArgumentString(ah, "--arg-file f1.txt -i 5");
    std::cout << i << "\n";
  });
  run("ctrl first on line", []{
    Handler ah(0); bool f=true; bool v=false;
    ah.addArgument("f", DEST_VAR(f), "f")->allowsInversion(); ah.addArgument("v", DEST_VAR(v), "v"); ah.addArgumentFile("arg-file");
    writeFile("f1.txt", "-v\n! -f\n");
    evalArgumentString(ah, "--arg-file f1.txt");
    std::cout << f << v << "\n";
  });
  run("ctrl cmd line", []{
    Handler ah(0); bool f=true; bool v=false;
    ah.addArgument("f", DEST_VAR(f), "f")->allowsInversion(); ah.addArgument("v", DEST_VAR(v), "v");
    evalArgumentString(ah, "-v ! -f");
    std::cout << f << v << "\n";
  });
  run("ctrl cmd line first", []{
    Handler ah(0); bool f=true; bool v=false;
    ah.addArgument("f", DEST_VAR(f), "f")->allowsInversion(); ah.addArgument("v", DEST_VAR(v), "v");
    evalArgumentString(ah, "! -f");
    std::cout << f << v << "\n";
  });
  run("subgroup file+cmd", []{
    Handler ah(0); Handler sub(ah, 0); int a=0;
    sub.addArgument("a", DEST_VAR(a), "a");
    ah.addArgument("g", sub, "grp"); ah.addArgumentFile("arg-file");
    writeFile("f1.txt", "-g -a 5\n");
    evalArgumentString(ah, "--arg-file f1.txt -g -a 6");
    std::cout << a << "\n";
  });
  run("subgroup env+cmd", []{
    Handler ah(0); Handler sub(ah, 0); int a=0;
    sub.addArgument("a", DEST_VAR(a), "a");
    ah.addArgument("g", sub, "grp"); ah.checkEnvVarArgs("MYENV");
    setenv("MYENV", "-g -a 5", 1);
    evalArgumentString(ah, "-g -a 6");
    std::cout << a << "\n";
  });
  return 0;
}
