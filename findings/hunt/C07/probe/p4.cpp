#include <cstdlib>
#include <fstream>
#include <iostream>
#include <optional>
#include "celma/prog_args.hpp"
#include "celma/prog_args/eval_argument_string.hpp"
using celma::prog_args::Handler;
using celma::prog_args::evalArgumentString;
static void writeFile(const std::string& fn, const std::string& content) { std::ofstream f(fn); f << content; }
template<typename F> void run(const char* name, F f) {
  try { f(); std::cout << name << ": ok\n"; }
  catch (const std::exception& e) { std::cout << name << ": EXC " << e.what() << "\n"; }
}
int main() {
  run("one_of override", [&]{ Handler ah(0); int a=0,b=0;
    ah.addArgument("a", DEST_VAR(a), "a"); ah.addArgument("b", DEST_VAR(b), "b"); ah.addArgumentFile("arg-file");
    ah.addConstraint(celma::prog_args::one_of("a;b"));
    writeFile("f4.txt", "-a 1\n");
    evalArgumentString(ah, "--arg-file f4.txt -a 2"); std::cout << a << b << "\n"; });
  run("any_of override", [&]{ Handler ah(0); int a=0,b=0;
    ah.addArgument("a", DEST_VAR(a), "a"); ah.addArgument("b", DEST_VAR(b), "b"); ah.addArgumentFile("arg-file");
    ah.addConstraint(celma::prog_args::any_of("a;b"));
    writeFile("f4.txt", "-a 1\n");
    evalArgumentString(ah, "--arg-file f4.txt -a 2"); std::cout << a << b << "\n"; });
  run("pos/opt/str/flag override", [&]{ Handler ah(0); std::string pos, s; std::optional<int> oi; bool f=false; int i=0;
    ah.addArgument("-", DEST_VAR(pos), "a"); ah.addArgument("s", DEST_VAR(s), "b"); ah.addArgument("o", DEST_VAR(oi), "b");ah.addArgument("f", DEST_VAR(f), "b");
    ah.addArgument("i,int", DEST_VAR(i), "b"); ah.addArgumentFile("arg-file");
    writeFile("f4.txt", "p1\n-s s1 -o 1\n-f\n--int=1");
    setenv("P4ENV", "p2 -s s2 -o 2 -f --int=2", 1); ah.checkEnvVarArgs("P4ENV");
    evalArgumentString(ah, "--arg-file f4.txt p3 -s s3 -o 3 -fi3"); std::cout << pos << s << *oi << f << i << "\n"; });
  run("start-end", [&]{ Handler ah(0); int st=0,en=0;
    ah.addArgument("s", DEST_VAR(st), "a"); ah.addArgumentFile("arg-file");
    evalArgumentString(ah, "-s 7"); std::cout << st << en << "\n"; });
  run("dashdash cmd", [&]{ Handler ah(0); std::string pos; bool v=false;
    ah.addArgument("-", DEST_VAR(pos), "a"); ah.addArgument("v", DEST_VAR(v), "a");ah.addArgumentFile("arg-file");
    evalArgumentString(ah, "-v -- -x"); std::cout << pos << v << "\n"; });
  run("dashdash file", [&]{ Handler ah(0); std::string pos; bool v=false;
    ah.addArgument("-", DEST_VAR(pos), "a"); ah.addArgument("v", DEST_VAR(v), "a");ah.addArgumentFile("arg-file");
    writeFile("f4.txt", "-v --\n-x\n");
    evalArgumentString(ah, "--arg-file f4.txt"); std::cout << pos << v << "\n"; });
  run("dashdash file2", [&]{ Handler ah(0); std::string pos; bool v=false;
    ah.addArgument("-", DEST_VAR(pos), "a"); ah.addArgument("v", DEST_VAR(v), "a");ah.addArgumentFile("arg-file");
    writeFile("f4.txt", "-v\n-- -x\n");
    evalArgumentString(ah, "--arg-file f4.txt"); std::cout << pos << v << "\n"; });
}
