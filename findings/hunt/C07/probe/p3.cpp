#include <cstdlib>
#include <fstream>
#include <iostream>
#include "celma/prog_args.hpp"
#include "celma/prog_args/groups.hpp"
#include "celma/prog_args/eval_argument_string.hpp"
using celma::prog_args::Handler;
using celma::prog_args::Groups;
using celma::prog_args::evalArgumentString;
static void writeFile(const std::string& fn, const std::string& content) { std::ofstream f(fn); f << content; }
template<typename F> void run(const char* name, F f) {
  try { f(); std::cout << name << ": ok\n"; }
  catch (const std::exception& e) { std::cout << name << ": EXC " << e.what() << "\n"; }
}
int main() {
  run("groups cmd", [&]{
    Groups::instance().removeAllArgHandler(); int a=0,b=0;
    auto ha = Groups::instance().getArgHandler("A"); auto hb = Groups::instance().getArgHandler("B");
    ha->addArgument("a", DEST_VAR(a), "a"); ha->addArgumentFile("arg-file");
    hb->addArgument("b", DEST_VAR(b), "b");
    evalArgumentString("-a 1 -b 2"); std::cout << a << b << "\n";
    Groups::instance().removeAllArgHandler();
  });
  run("groups file", [&]{
    Groups::instance().removeAllArgHandler(); int a=0,b=0;
    auto ha = Groups::instance().getArgHandler("A"); auto hb = Groups::instance().getArgHandler("B");
    ha->addArgument("a", DEST_VAR(a), "a"); ha->addArgumentFile("arg-file");
    hb->addArgument("b", DEST_VAR(b), "b");
    writeFile("f3.txt", "-a 1\n-b 2\n");
    evalArgumentString("--arg-file f3.txt"); std::cout << a << b << "\n";
    Groups::instance().removeAllArgHandler();
  });
  run("groups file own + override", [&]{
    Groups::instance().removeAllArgHandler(); int a=0,b=0;
    auto ha = Groups::instance().getArgHandler("A"); auto hb = Groups::instance().getArgHandler("B");
    ha->addArgument("a", DEST_VAR(a), "a"); ha->addArgumentFile("arg-file");
    hb->addArgument("b", DEST_VAR(b), "b");
    writeFile("f3.txt", "-a 1\n");
    evalArgumentString("--arg-file f3.txt -a 3 -b 2"); std::cout << a << b << "\n";
    Groups::instance().removeAllArgHandler();
  });
}
