#include <iostream>
#include <random>
#include <vector>
#include <string>
#include "celma/appl/arg_string_2_array.hpp"
using namespace std;
int main(int argc, char** argv) {
  mt19937 rng(argc > 1 ? atoi(argv[1]) : 1); int bad = 0;
  const string special = " \"'\\";
  for (int it = 0; it < 200000; ++it) {
    int nw = rng() % 6; vector<string> words;
    for (int w = 0; w < nw; ++w) { int len = rng() % 6 + 1; string s; for (int i = 0; i < len; ++i) { if (rng()%2) s += special[rng()%4]; else s += char(32 + rng() % 95); } words.push_back(s); }
    string joined;
    for (auto& w : words) {
      string e; size_t i = 0;
      while (i < w.size()) { // mixed: segments in different styles
        size_t seg = rng() % 3 + 1; int style = rng() % 3; string part = w.substr(i, seg); i += part.size();
        if (style == 0) { for (char c : part) { if (special.find(c) != string::npos) e += '\\'; e += c; } }
        else { char q = style == 1 ? '"' : '\''; e += q; for (char c : part) { if (c == q || c == '\\') e += '\\'; e += c; } e += q; }
      }
      int sp = rng() % 3 + 1; if (!joined.empty() || rng()%4==0) joined += string(sp, ' ');
      joined += e;
    }
    if (rng()%4==0) joined += "  ";
    {
      celma::appl::ArgString2Array a(joined, nullptr);
      bool ok = a.mArgC == (int) words.size() + 1 && a.mpArgV[a.mArgC] == nullptr;
      for (int i = 0; ok && i < (int) words.size(); ++i) ok = words[i] == a.mpArgV[i + 1];
      if (!ok && ++bad < 10) { cout << "BAD <" << joined << "> argc=" << a.mArgC << "\n"; }
      celma::appl::ArgString2Array b(joined);
      ok = b.mArgC == (int) words.size() && b.mpArgV[b.mArgC] == nullptr;
      for (int i = 0; ok && i < (int) words.size(); ++i) ok = words[i] == b.mpArgV[i];
      if (!ok && ++bad < 10) { cout << "BAD2 <" << joined << "> argc=" << b.mArgC << "\n"; }
      auto c = celma::appl::make_arg_array(joined, "p"); auto d = std::move(c);
      if (d.mArgC != (int) words.size() + 1) ++bad;
    }
  }
  cout << "bad=" << bad << "\n";
}
