// differential fuzz: same abstract command line via argv / file lines / env
#include <cstdlib>
#include <fstream>
#include <iostream>
#include <sstream>
#include <random>
#include <vector>
#include <optional>
#include "celma/prog_args.hpp"
#include "celma/prog_args/eval_argument_string.hpp"
using celma::prog_args::Handler;
using celma::prog_args::evalArgumentString;
using std::string; using std::vector;

struct State {
  int i = 0; string s; bool f = false; bool g = false; vector<int> v; vector<string> mv; string pos; std::optional<int> oi; celma::prog_args::LevelCounter opt; string log;
  int suba = 0; bool subb = false;
  string str() const { std::ostringstream o; o << "i=" << i << " s=[" << s << "] f=" << f << " g=" << g << " v=";
    for (auto x: v) o << x << ","; o << " mv="; for (auto& x: mv) o << "[" << x << "]"; o << " pos=[" << pos << "] oi=" << (oi? *oi : -999) << " opt=" << opt.value() << " log=" << log << " suba=" << suba << " subb=" << subb; return o.str(); }
};

static string escape(const string& w, std::mt19937& rng) {
  // escape one word for splitString(): three styles
  int style = rng() % 3; string r;
  bool special = false; for (char c: w) if (c==' '||c=='"'||c=='\''||c=='\\') special = true;
  if (!special && style != 2) return w;
  if (style == 0) { for (char c: w) { if (c==' '||c=='"'||c=='\''||c=='\\') r += '\\'; r += c; } return r; }
  char q = style == 1 ? '"' : '\'';
  r += q; for (char c: w) { if (c==q || c=='\\') r += '\\'; r += c; } r += q; return r;
}

static string runOnce(int mode, const vector<vector<string>>& chunks, std::mt19937& rng, string& delivered) {
  // mode 0: all argv; 1: all in file (one chunk per line); 2: all in env; 3: first k chunks file, rest argv; 4: first k env rest argv
  State st; string result;
  try {
    Handler ah(Handler::hfEndValues); Handler sub(ah, 0);
    auto cb = [&st](const string& val, bool inv){ st.log += (inv?"!":"") + val + ";"; };
    ah.addArgument("i,int", DEST_VAR(st.i), "i");
    ah.addArgument("s,str", DEST_VAR(st.s), "s");
    ah.addArgument("f,flag", DEST_VAR(st.f), "f");
    ah.addArgument("g", DEST_VAR(st.g), "g");
    ah.addArgument("v,vec", DEST_VAR(st.v), "v");
    ah.addArgument("m,multi", DEST_VAR(st.mv), "mv")->setTakesMultiValue();
    ah.addArgument("-", DEST_VAR(st.pos), "pos");
    ah.addArgument("o,optint", DEST_VAR(st.oi), "oi");
    ah.addArgument("p", DEST_VAR(st.opt), "opt");
    ah.addArgument("c,call", DEST_LAMBDA_VALUE(cb), "c")->allowsInversion()->setCardinality();
    ah.addBracketHandler([&st]{ st.log += "(;"; }, [&st]{ st.log += ");"; });
    sub.addArgument("a", DEST_VAR(st.suba), "a"); sub.addArgument("b", DEST_VAR(st.subb), "b");
    ah.addArgument("G,group", sub, "grp");
    ah.addArgumentFile("arg-file");
    ah.checkEnvVarArgs("FZENV");
    unsetenv("FZENV");
    size_t k = 0;
    if (mode == 1 || mode == 2) k = chunks.size();
    if (mode == 3 || mode == 4) k = chunks.empty() ? 0 : rng() % (chunks.size() + 1);
    string pre, post; std::ostringstream d;
    bool file = (mode == 1 || mode == 3);
    for (size_t c = 0; c < chunks.size(); ++c) {
      string line; for (auto& w: chunks[c]) { if (!line.empty()) line += ' '; line += escape(w, rng); }
      if (c < k) { pre += line; pre += file ? "\n" : " "; if (file && rng()%3==0) pre += (rng()%2 ? "\n" : "# comment -i 99\n"); }
      else { post += line + " "; }
    }
    string cmd;
    if (k > 0 || mode == 1 || mode == 2) {
      if (file) { std::ofstream f("fz_args.txt"); f << pre; f.close(); cmd = "--arg-file fz_args.txt " + post; }
      else { if (!pre.empty()) setenv("FZENV", pre.c_str(), 1); cmd = post; }
    } else cmd = post;
    d << "mode=" << mode << " pre=<" << pre << "> cmd=<" << cmd << ">"; delivered = d.str();
    evalArgumentString(ah, cmd);
    result = "OK " + st.str();
  } catch (const std::exception& e) { result = string("EXC ") + e.what(); }
  return result;
}

int main(int argc, char** argv) {
  unsigned seed = argc > 1 ? atoi(argv[1]) : 1; int n = argc > 2 ? atoi(argv[2]) : 2000;
  std::mt19937 rng(seed);
  vector<string> vals = {"1","42","-7","abc","hello world","it's","say \"hi\"","back\\slash","a,b","7,8","--x","x=y","!","(", "#h", " lead", "'", "\"","\\"};
  vector<string> ints = {"1","42","7","0","13"};
  int bad = 0;
  for (int it = 0; it < n; ++it) {
    vector<vector<string>> chunks; int nc = rng() % 5 + 1;
    bool usedF=false, usedG=false, usedP=false, usedI=false, usedS=false, usedO=false, usedPos=false, usedC=false, usedSubA=false;
    for (int c = 0; c < nc; ++c) {
      vector<string> ch; int t = rng() % 16; if (getenv("NOCTRL") && (t==11||t==12)) t = 6;
      auto sv = [&]{ return vals[rng()%vals.size()]; }; auto iv = [&]{ return ints[rng()%ints.size()]; };
      switch (t) {
        case 0: if (usedI) continue; usedI=true; ch = {"-i", iv()}; break;
        case 1: if (usedI) continue; usedI=true; ch = {"--int=" + iv()}; break;
        case 2: if (usedS) continue; usedS=true; { string v = sv(); if (v[0]=='-'||v=="!"||v=="("||v==")") v = "x"+v; ch = {"-s", v}; } break;
        case 3: if (usedS) continue; usedS=true; ch = {"--str=" + sv()}; break;
        case 4: if (usedF) continue; usedF=true; ch = {"-f"}; break;
        case 5: if (usedF||usedG) continue; usedF=usedG=true; ch = {"-fg"}; break;
        case 6: ch = {"-v", iv() + "," + iv()}; break;
        case 7: ch = {"-m", "a" + sv(), "b" + sv(), "--endvalues"}; break;
        case 8: if (usedPos||usedP) continue; usedPos=true; ch = {"p" + sv()}; break;
        case 9: if (usedO) continue; usedO=true; ch = {"--opt", iv()}; break;
        case 10: usedP=true; ch = {"-p"}; break;
        case 11: if (usedC) continue; usedC=true; ch = {"!", "-c", iv()}; break;
        case 12: if (usedG) continue; usedG=true; ch = {"(", "-g", ")"}; break;
        case 13: if (usedSubA) continue; usedSubA=true; ch = {"-G", "-a", iv(), "-b"}; break;
        case 14: if (usedI) continue; usedI=true; ch = {"-i" + iv()}; break;
        case 15: if (usedC) continue; usedC=true; ch = {"-c", iv()}; break;
      }
      chunks.push_back(ch);
    }
    string d0, d; string ref = runOnce(0, chunks, rng, d0); if (it < 0) std::cout << d0 << " -> " << ref << "\n";
    for (int mode = 1; mode <= 4; ++mode) {
      string r = runOnce(mode, chunks, rng, d);
      if (r != ref) { ++bad; if (bad <= 40) std::cout << "DIFF seed=" << seed << " it=" << it << "\n  ref: " << d0 << "\n    -> " << ref << "\n  alt: " << d << "\n    -> " << r << "\n"; }
    }
  }
  std::cout << "bad=" << bad << "\n";
}
