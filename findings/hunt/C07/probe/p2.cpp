#include <cstdlib>
#include <fstream>
#include <iostream>
#include "celma/prog_args.hpp"
#include "celma/prog_args/eval_argument_string.hpp"
using celma::prog_args::Handler;
using celma::prog_args::evalArgumentString;
static void writeFile(const std::string& fn, const std::string& content) { std::ofstream f(fn); f << content; }
template<typename F> void run(const char* name, F f) {
  try { f(); std::cout << name << ": ok\n"; }
  catch (const std::exception& e) { std::cout << name << ": EXC " << e.what() << "\n"; }
}
int main() {
  auto setup = [](Handler& ah, std::string& log, bool& v) { auto cb = [&log](const std::string& val, bool inv){ log += (inv?"!":"") + val + ";"; };
    ah.addArgument("c", DEST_LAMBDA_VALUE(cb), "c")->allowsInversion();
    ah.addArgument("v", DEST_VAR(v), "v");
    ah.addBracketHandler([&log]{ log += "(;"; }, [&log]{ log += ");"; });
    ah.addArgumentFile("arg-file");
  };
  run("cmd", [&]{ Handler ah(0); std::string log; bool v=false; setup(ah,log,v);
    evalArgumentString(ah, "-v ! -c 1 ( -c 2 )"); std::cout << log << "\n"; });
  run("cmd first !", [&]{ Handler ah(0); std::string log; bool v=false; setup(ah,log,v);
    evalArgumentString(ah, "! -c 1"); std::cout << log << "\n"; });
  run("cmd first (", [&]{ Handler ah(0); std::string log; bool v=false; setup(ah,log,v);
    evalArgumentString(ah, "( -c 1 )"); std::cout << log << "\n"; });
  run("file", [&]{ Handler ah(0); std::string log; bool v=false; setup(ah,log,v);
    writeFile("f2.txt", "-v\n! -c 1\n( -c 2 )\n");
    evalArgumentString(ah, "--arg-file f2.txt"); std::cout << log << "\n"; });
  run("file2", [&]{ Handler ah(0); std::string log; bool v=false; setup(ah,log,v);
    writeFile("f2.txt", "-v !\n-c 1 (\n-c 2 )\n");
    evalArgumentString(ah, "--arg-file f2.txt"); std::cout << log << "\n"; });
}
