#include <cstdlib>
#include <fstream>
#include <iostream>
#include "celma/prog_args.hpp"
#include "celma/prog_args/eval_argument_string.hpp"
using celma::prog_args::Handler;
using celma::prog_args::evalArgumentString;
static void writeFile(const std::string& fn, const std::string& content) { std::ofstream f(fn); f << content; }
template<typename F> void run(const char* name, F f) {
  try { f(); std::cout << name << ": ok\n"; }
  catch (const std::exception& e) { std::cout << name << ": EXC " << e.what() << "\n"; }
}
int main() {
  run("start-end cmd", [&]{ Handler ah(0); int st=0,en=0;
    ah.addArgument("s", DEST_START_END(st, en), "a"); ah.addArgument("e", DEST_VAR(en), "a"); ah.addArgumentFile("arg-file");
    evalArgumentString(ah, "-s 7"); std::cout << st << en << "\n"; });
  run("start-end file+cmd", [&]{ Handler ah(0); int st=0,en=0;
    ah.addArgument("s", DEST_START_END(st, en), "a"); ah.addArgument("e", DEST_VAR(en), "a"); ah.addArgumentFile("arg-file");
    writeFile("f5.txt", "-s 5\n");
    evalArgumentString(ah, "--arg-file f5.txt -s 7"); std::cout << st << en << "\n"; });
  run("c array file+cmd", [&]{ Handler ah(0); int arr[2] = {0,0};
    ah.addArgument("a", DEST_VAR(arr), "a"); ah.addArgumentFile("arg-file");
    writeFile("f5.txt", "-a 5,6\n");
    evalArgumentString(ah, "--arg-file f5.txt -a 7,8"); std::cout << arr[0] << arr[1] << "\n"; });
  run("tuple env+cmd partial", [&]{ Handler ah(0); std::tuple<int,std::string> t{0,""};
    ah.addArgument("t", DEST_VAR(t), "a"); ah.checkEnvVarArgs("P5");
    setenv("P5", "-t 1,one", 1);
    evalArgumentString(ah, "-t 2,two"); std::cout << std::get<0>(t) << std::get<1>(t) << "\n"; });
  run("tuple file twice", [&]{ Handler ah(0); std::tuple<int,std::string> t{0,""};
    ah.addArgument("t", DEST_VAR(t), "a"); ah.addArgumentFile("arg-file");
    writeFile("f5.txt", "-t 5,six\n");
    evalArgumentString(ah, "--arg-file f5.txt"); std::cout << std::get<0>(t) << std::get<1>(t) << "\n"; });
}
