#include <atomic>
#include <thread>
#include <fstream>
#include <iostream>
#include <vector>
#include <tuple>
#include "celma/prog_args.hpp"
#include "celma/prog_args/eval_argument_string.hpp"
using celma::prog_args::Handler; using celma::prog_args::evalArgumentString;
int main() {
  setenv("THENV", "-s 'hello world' -v 1,2,3", 1);
  std::vector<std::thread> ts; std::atomic<int> bad{0};
  for (int t = 0; t < 4; ++t) ts.emplace_back([t,&bad]{
    std::string fn = "th_" + std::to_string(t) + ".txt"; { std::ofstream f(fn); f << "# c\n-i " << t << "\n\n-m a b c\n"; }
    for (int k = 0; k < 300; ++k) {
      try { Handler ah(0); int i=-1; std::string s; std::vector<int> v; std::vector<std::string> m;
      ah.addArgument("i", DEST_VAR(i), "i"); ah.addArgument("s", DEST_VAR(s), "s"); ah.addArgument("v", DEST_VAR(v), "v");
      ah.addArgument("m", DEST_VAR(m), "m")->setTakesMultiValue(); ah.addArgumentFile("arg-file"); ah.checkEnvVarArgs("THENV");
      evalArgumentString(ah, "--arg-file " + fn + " -v 4");
      if (i != t || s != "hello world" || v.size() != 4 || m.size() != 3) ++bad; } catch (const std::exception& e) { ++bad; std::cerr << e.what() << "\n"; }
    }});
  for (auto& t: ts) t.join();
  std::cout << "bad=" << bad << "\n";
}
