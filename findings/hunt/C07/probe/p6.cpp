#include <cstdlib>
#include <fstream>
#include <iostream>
#include "celma/prog_args.hpp"
#include "celma/prog_args/eval_argument_string.hpp"
using celma::prog_args::Handler;
using celma::prog_args::evalArgumentString;
static void writeFile(const std::string& fn, const std::string& content) { std::ofstream f(fn); f << content; }
template<typename F> void run(const char* name, F f) {
  try { f(); std::cout << name << ": ok\n"; }
  catch (const std::exception& e) { std::cout << name << ": EXC " << e.what() << "\n"; }
}
struct Fx { Handler ah{0}; Handler sub{ah, 0}; std::string log; int a=0; bool b=false;
  Fx() { auto cb = [this](const std::string& val, bool inv){ log += (inv?"!":"") + val + ";"; };
    ah.addArgument("c", DEST_LAMBDA_VALUE(cb), "c")->allowsInversion()->setCardinality();
    sub.addArgument("a", DEST_VAR(a), "a"); sub.addArgument("b", DEST_VAR(b), "b");
    ah.addArgument("G", sub, "grp"); ah.addArgumentFile("arg-file");
    ah.addBracketHandler([this]{ log += "(;"; }, [this]{ log += ");"; }); } };
int main() {
  run("cmd", [&]{ Fx x; evalArgumentString(x.ah, "-G -b ! -c 1"); std::cout << x.log << "\n"; });
  run("file", [&]{ Fx x; writeFile("f6.txt", "-G -b\n! -c 1\n"); evalArgumentString(x.ah, "--arg-file f6.txt"); std::cout << x.log << "\n"; });
  run("cmd2", [&]{ Fx x; evalArgumentString(x.ah, "-G -b ! -c 1 -G -a 5"); std::cout << x.log << x.a << "\n"; });
  run("cmd3 bracket", [&]{ Fx x; evalArgumentString(x.ah, "-G -b ( -c 1 )"); std::cout << x.log << x.a << "\n"; });
}
