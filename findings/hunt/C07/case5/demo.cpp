// C07 case 5: with a handler constraint one_of() / any_of() the value of an
// argument that was given in an argument file or the environment variable
// cannot be overridden by the *same* argument on the command line.

#include <cstdlib>
#include <fstream>
#include <iostream>
#include <string>

#include "celma/prog_args.hpp"
#include "celma/prog_args/eval_argument_string.hpp"

using celma::prog_args::Handler;
using celma::prog_args::evalArgumentString;

namespace {

enum class Constr { none, oneOf, anyOf };

std::string eval( Constr constraint, const std::string& file_content,
   const std::string& env, const std::string& cmd_line)
{
   try
   {
      Handler      ah( 0);
      std::string  host;
      std::string  socket;

      ah.addArgument( "H,host", DEST_VAR( host), "host to connect to");
      ah.addArgument( "S,socket", DEST_VAR( socket), "socket to connect to");
      ah.addArgumentFile( "arg-file");
      ah.checkEnvVarArgs( "C07_CASE5");
      if (constraint == Constr::oneOf)
         ah.addConstraint( celma::prog_args::one_of( "H;S"));
      else if (constraint == Constr::anyOf)
         ah.addConstraint( celma::prog_args::any_of( "H;S"));

      ::unsetenv( "C07_CASE5");
      if (!env.empty())
         ::setenv( "C07_CASE5", env.c_str(), 1);

      std::string  cmd( cmd_line);
      if (!file_content.empty())
      {
         std::ofstream  f( "case5_args.txt");
         f << file_content;
         f.close();
         cmd = "--arg-file case5_args.txt " + cmd;
      } // end if

      evalArgumentString( ah, cmd);
      return "host=" + host + " socket=" + socket;
   } catch (const std::exception& e)
   {
      return std::string( "exception: ") + e.what();
   } // end try
}

int  failures = 0;

void expect( const char* what, const std::string& expected,
   const std::string& got)
{
   const bool  ok = expected == got;
   std::cout << (ok ? "  ok    " : "  WRONG ") << what << ": " << got;
   if (!ok)
      std::cout << "   (expected: " << expected << ")";
   std::cout << std::endl;
   if (!ok)
      ++failures;
}

} // namespace


int main()
{
   // controls
   expect( "no constraint: file '-H alpha', argv '-H beta'",
      "host=beta socket=",
      eval( Constr::none, "# default\n-H alpha\n", "", "-H beta"));
   expect( "one_of: file '-H alpha' only", "host=alpha socket=",
      eval( Constr::oneOf, "# default\n-H alpha\n", "", ""));
   expect( "one_of: file '-H alpha', argv '-S /tmp/s' (really two of them)",
      "exception: Argument '-S,--socket' cannot be used since '-H,--host' was already used",
      eval( Constr::oneOf, "-H alpha\n", "", "-S /tmp/s"));

   // the violation: the *same* argument again
   expect( "one_of: file '-H alpha', argv '-H beta'", "host=beta socket=",
      eval( Constr::oneOf, "# default\n-H alpha\n", "", "-H beta"));
   expect( "one_of: env '-H alpha', argv '--host beta'", "host=beta socket=",
      eval( Constr::oneOf, "", "-H alpha", "--host beta"));
   expect( "any_of: file '-H alpha', argv '-H beta'", "host=beta socket=",
      eval( Constr::anyOf, "# default\n-H alpha\n", "", "-H beta"));

   return (failures == 0) ? 0 : 1;
}
