// Adjacent defect, probably OUTSIDE the wording of C07 (it is the argv side
// that is wrong): a control character that follows the arguments of a
// sub-group on the same command line / file line is swallowed by the
// sub-group handler:  -g -b ! -c 1
//   - '!' sets mInverted of the SUB-GROUP handler and is "consumed",
//   - -c (main handler) is called NOT inverted,
//   - the next argument of the sub-group fails: "does not support invertion".
// Delivered through a file with a line break after '-g -b' the '!' reaches the
// main handler (once case 1 is repaired), i.e. argv and file differ.

#include <fstream>
#include <iostream>
#include <string>

#include "celma/prog_args.hpp"
#include "celma/prog_args/eval_argument_string.hpp"

using celma::prog_args::Handler;
using celma::prog_args::evalArgumentString;

namespace {

std::string eval( const std::string& file_content, const std::string& cmd_line)
{
   std::string  calls;
   int          a = 0;
   bool         b = false;
   try
   {
      Handler  ah( 0);
      Handler  sub( ah, 0);
      auto     cb = [&calls]( const std::string& val, bool inverted)
      {
         calls += (inverted ? "!" : "") + val + ";";
      };

      ah.addArgument( "c", DEST_LAMBDA_VALUE( cb), "callable")
         ->allowsInversion()->setCardinality();
      sub.addArgument( "a", DEST_VAR( a), "a");
      sub.addArgument( "b", DEST_VAR( b), "b");
      ah.addArgument( "g", sub, "sub-group");
      ah.addArgumentFile( "arg-file");

      std::string  cmd( cmd_line);
      if (!file_content.empty())
      {
         std::ofstream  f( "adj_args.txt");
         f << file_content;
         f.close();
         cmd = "--arg-file adj_args.txt " + cmd;
      } // end if

      evalArgumentString( ah, cmd);
      return "calls=" + calls + " g.a=" + std::to_string( a);
   } catch (const std::exception& e)
   {
      return "calls=" + calls + " exception: " + e.what();
   } // end try
}

int  failures = 0;

void expect( const char* what, const std::string& expected,
   const std::string& got)
{
   const bool  ok = expected == got;
   std::cout << (ok ? "  ok    " : "  WRONG ") << what << ": " << got;
   if (!ok)
      std::cout << "   (expected: " << expected << ")";
   std::cout << std::endl;
   if (!ok)
      ++failures;
}

} // namespace


int main()
{
   expect( "argv '-g -b ! -c 1'", "calls=!1; g.a=0", eval( "", "-g -b ! -c 1"));
   expect( "argv '-g -b ! -c 1 -g -a 5'", "calls=!1; g.a=5",
      eval( "", "-g -b ! -c 1 -g -a 5"));
   expect( "file lines '-g -b !' / '-c 1'", "calls=!1; g.a=0",
      eval( "-g -b !\n-c 1\n", ""));
   return (failures == 0) ? 0 : 1;
}
