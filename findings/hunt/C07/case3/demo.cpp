// C07 case 3: a tuple destination that got its values from an argument file or
// the environment variable cannot be overridden: the next value - from the
// command line, from the other source or from a second line of the file -
// ends in std::out_of_range( "index exceeds number of elements in tuple").

#include <cstdlib>
#include <array>
#include <fstream>
#include <iostream>
#include <string>
#include <tuple>

#include "celma/prog_args.hpp"
#include "celma/prog_args/eval_argument_string.hpp"

using celma::prog_args::Handler;
using celma::prog_args::evalArgumentString;

namespace {

std::string eval( bool multi_value, const std::string& file_content,
   const std::string& env, const std::string& cmd_line)
{
   try
   {
      Handler                        ah( 0);
      std::tuple< int, std::string>  size_unit{ 0, "-"};
      int                            port = 0;

      auto  arg = ah.addArgument( "t", DEST_VAR( size_unit), "size and unit");
      if (multi_value)
         arg->setTakesMultiValue();
      ah.addArgument( "p", DEST_VAR( port), "port");
      ah.addArgumentFile( "arg-file");
      ah.checkEnvVarArgs( "C07_CASE3");

      ::unsetenv( "C07_CASE3");
      if (!env.empty())
         ::setenv( "C07_CASE3", env.c_str(), 1);

      std::string  cmd( cmd_line);
      if (!file_content.empty())
      {
         std::ofstream  f( "case3_args.txt");
         f << file_content;
         f.close();
         cmd = "--arg-file case3_args.txt " + cmd;
      } // end if

      evalArgumentString( ah, cmd);
      return "t=<" + std::to_string( std::get< 0>( size_unit)) + ","
         + std::get< 1>( size_unit) + "> p=" + std::to_string( port);
   } catch (const std::exception& e)
   {
      return std::string( "exception: ") + e.what();
   } // end try
}

/// Not counted, for information only: fixed size array.
std::string evalArray( const std::string& file_content,
   const std::string& cmd_line)
{
   try
   {
      Handler               ah( 0);
      std::array< int, 2>   arr{ 0, 0};

      ah.addArgument( "a", DEST_VAR( arr), "array");
      ah.addArgumentFile( "arg-file");

      std::ofstream  f( "case3_args.txt");
      f << file_content;
      f.close();

      evalArgumentString( ah, "--arg-file case3_args.txt " + cmd_line);
      return "a=" + std::to_string( arr[ 0]) + "," + std::to_string( arr[ 1]);
   } catch (const std::exception& e)
   {
      return std::string( "exception: ") + e.what();
   } // end try
}

int  failures = 0;

void expect( const char* what, const std::string& expected,
   const std::string& got)
{
   const bool  ok = expected == got;
   std::cout << (ok ? "  ok    " : "  WRONG ") << what << ": " << got;
   if (!ok)
      std::cout << "   (expected: " << expected << ")";
   std::cout << std::endl;
   if (!ok)
      ++failures;
}

} // namespace


int main()
{
   // controls
   expect( "argv '-t 2,MB' only", "t=<2,MB> p=0", eval( false, "", "", "-t 2,MB"));
   expect( "file '-t 1,kB' only", "t=<1,kB> p=0",
      eval( false, "# default\n-t 1,kB\n", "", ""));
   expect( "int: file '-p 1', env '-p 2', argv '-p 3'", "t=<0,-> p=3",
      eval( false, "-p 1\n", "-p 2", "-p 3"));

   // the violation
   expect( "file '-t 1,kB', argv '-t 2,MB'", "t=<2,MB> p=0",
      eval( false, "# default\n-t 1,kB\n", "", "-t 2,MB"));
   expect( "env '-t 1,kB', argv '-t 2,MB'", "t=<2,MB> p=0",
      eval( false, "", "-t 1,kB", "-t 2,MB"));
   expect( "env '-t 1,kB', then file '-t 2,MB'", "t=<2,MB> p=0",
      eval( false, "-t 2,MB\n", "-t 1,kB", ""));
   expect( "file with two lines '-t 1,kB' / '-t 2,MB'", "t=<2,MB> p=0",
      eval( false, "-t 1,kB\n\n-t 2,MB\n", "", ""));
   expect( "separate values: file '-t 1 kB', argv '-t 2 MB'", "t=<2,MB> p=0",
      eval( true, "-t 1 kB\n", "", "-t 2 MB"));

   std::cout << "for information (not counted, see README):" << std::endl
      << "  std::array< int, 2>: file '-a 1,2', argv '-a 3,4': "
      << evalArray( "-a 1,2\n", "-a 3,4") << std::endl;

   return (failures == 0) ? 0 : 1;
}
