#!/bin/sh
# usage: run.sh [<source root>]
#   <source root> is the directory that contains celma/ and library/ (the
#   'src' directory of the checkout); the checkout directory itself is accepted
#   too. Default: the checkout this script lives in.
# Builds the needed library sources together with demo.cpp (ASan + UBSan) and
# runs the demo. Exit code 0 + "PASS" = property holds, 1 + "FAIL" = violated.
HERE=$(cd "$(dirname "$0")" && pwd)
ROOT=${1:-$HERE/../..}
ROOT=$(cd "$ROOT" && pwd) || exit 2
[ -d "$ROOT/src/celma" ] && ROOT="$ROOT/src"
if [ ! -d "$ROOT/celma" ] || [ ! -d "$ROOT/library" ]; then
   echo "source root '$ROOT' does not contain celma/ and library/" >&2
   exit 2
fi
CXX=${CXX:-clang++}
FLAGS="-std=c++17 -g -O1 -w -fsanitize=address,undefined -fno-sanitize-recover=undefined -I$ROOT"
WORK=$(mktemp -d) || exit 2
trap 'rm -rf "$WORK"' EXIT
cd "$WORK" || exit 2
find "$ROOT/library/prog_args" "$ROOT/library/common" "$ROOT/library/format" \
     "$ROOT/library/appl" -name '*.cpp' \
   | grep -v /test | grep -v print_version_info > srcs.txt
export CXX FLAGS
xargs -P4 -I{} sh -c '$CXX $FLAGS -c "{}" -o "$(echo "{}" | md5sum | cut -c1-10).o"' < srcs.txt \
   || { echo "building the library sources failed" >&2; exit 2; }
$CXX $FLAGS "$HERE/demo.cpp" ./*.o -lpthread -o demo \
   || { echo "building demo.cpp failed" >&2; exit 2; }
./demo
RC=$?
if [ $RC -eq 0 ]; then
   echo "PASS"
   exit 0
fi
echo "FAIL (demo exit code $RC)"
exit 1
