// C07 case 6: argument groups (Groups singleton, evalArgumentString() without
// handler). On the command line the arguments of all handlers of the group can
// be used. In an argument file only the arguments of the one handler that owns
// the argument-file argument are known; environment variable and program
// arguments file are never looked at.

#include <cstdlib>
#include <fstream>
#include <iostream>
#include <string>

#include "celma/prog_args.hpp"
#include "celma/prog_args/groups.hpp"
#include "celma/prog_args/eval_argument_string.hpp"

using celma::prog_args::Groups;
using celma::prog_args::Handler;
using celma::prog_args::evalArgumentString;

namespace {

std::string eval( const std::string& file_content, const std::string& env,
   const std::string& cmd_line)
{
   std::string  result;
   try
   {
      int  in_port = 0;
      int  out_port = 0;

      Groups::instance().removeAllArgHandler();

      auto  input = Groups::instance().getArgHandler( "input",
         Handler::hfEnvVarArgs);
      auto  output = Groups::instance().getArgHandler( "output");

      input->addArgument( "i", DEST_VAR( in_port), "input port");
      input->addArgumentFile( "arg-file");
      input->checkEnvVarArgs( "C07_CASE6");
      output->addArgument( "o", DEST_VAR( out_port), "output port");

      ::unsetenv( "C07_CASE6");
      if (!env.empty())
         ::setenv( "C07_CASE6", env.c_str(), 1);

      std::string  cmd( cmd_line);
      if (!file_content.empty())
      {
         std::ofstream  f( "case6_args.txt");
         f << file_content;
         f.close();
         cmd = "--arg-file case6_args.txt " + cmd;
      } // end if

      evalArgumentString( cmd);
      result = "i=" + std::to_string( in_port) + " o="
         + std::to_string( out_port);
   } catch (const std::exception& e)
   {
      result = std::string( "exception: ") + e.what();
   } // end try
   Groups::instance().removeAllArgHandler();
   return result;
}

int  failures = 0;

void expect( const char* what, const std::string& expected,
   const std::string& got)
{
   const bool  ok = expected == got;
   std::cout << (ok ? "  ok    " : "  WRONG ") << what << ": " << got;
   if (!ok)
      std::cout << "   (expected: " << expected << ")";
   std::cout << std::endl;
   if (!ok)
      ++failures;
}

} // namespace


int main()
{
   // controls
   expect( "argv '-i 1 -o 2'", "i=1 o=2", eval( "", "", "-i 1 -o 2"));
   expect( "file '-i 1', argv '-o 2'", "i=1 o=2", eval( "-i 1\n", "", "-o 2"));
   expect( "file '-i 1', argv '-i 3 -o 2' (override)", "i=3 o=2",
      eval( "-i 1\n", "", "-i 3 -o 2"));

   // the violation
   expect( "file lines '-i 1' / '-o 2'", "i=1 o=2",
      eval( "# both\n-i 1\n\n-o 2\n", "", ""));
   expect( "file '-o 2', argv '-i 1'", "i=1 o=2", eval( "-o 2\n", "", "-i 1"));
   expect( "env '-i 1', argv '-o 2'", "i=1 o=2", eval( "", "-i 1", "-o 2"));

   return (failures == 0) ? 0 : 1;
}
