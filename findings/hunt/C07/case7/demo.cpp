// C07 case 7: DEST_START_END( start, end): "the same value is assigned to the
// second variable too if it has not been assigned a value yet". When the
// default comes from an argument file / the environment variable and is
// overridden on the command line, only the first variable is overridden, the
// second one keeps the value from the file.

#include <cstdlib>
#include <fstream>
#include <iostream>
#include <string>

#include "celma/prog_args.hpp"
#include "celma/prog_args/eval_argument_string.hpp"

using celma::prog_args::Handler;
using celma::prog_args::evalArgumentString;

namespace {

std::string eval( const std::string& file_content, const std::string& env,
   const std::string& cmd_line)
{
   try
   {
      Handler  ah( 0);
      int      start = 0;
      int      end = 0;

      ah.addArgument( "s,start", DEST_START_END( start, end), "start (and end)");
      ah.addArgument( "e,end", DEST_VAR( end), "end");
      ah.addArgumentFile( "arg-file");
      ah.checkEnvVarArgs( "C07_CASE7");

      ::unsetenv( "C07_CASE7");
      if (!env.empty())
         ::setenv( "C07_CASE7", env.c_str(), 1);

      std::string  cmd( cmd_line);
      if (!file_content.empty())
      {
         std::ofstream  f( "case7_args.txt");
         f << file_content;
         f.close();
         cmd = "--arg-file case7_args.txt " + cmd;
      } // end if

      evalArgumentString( ah, cmd);
      return "start=" + std::to_string( start) + " end=" + std::to_string( end);
   } catch (const std::exception& e)
   {
      return std::string( "exception: ") + e.what();
   } // end try
}

int  failures = 0;

void expect( const char* what, const std::string& expected,
   const std::string& got)
{
   const bool  ok = expected == got;
   std::cout << (ok ? "  ok    " : "  WRONG ") << what << ": " << got;
   if (!ok)
      std::cout << "   (expected: " << expected << ")";
   std::cout << std::endl;
   if (!ok)
      ++failures;
}

} // namespace


int main()
{
   // controls
   expect( "argv '-s 7'", "start=7 end=7", eval( "", "", "-s 7"));
   expect( "argv '-s 7 -e 9'", "start=7 end=9", eval( "", "", "-s 7 -e 9"));
   expect( "argv '-e 9 -s 7'", "start=7 end=9", eval( "", "", "-e 9 -s 7"));
   expect( "file '-s 5' only", "start=5 end=5", eval( "# default\n-s 5\n", "", ""));
   expect( "file '-s 5 -e 6', argv '-s 7' (end given explicitly)",
      "start=7 end=6", eval( "-s 5 -e 6\n", "", "-s 7"));

   // the violation: -s 5 as default, overridden by -s 7 -> as if only -s 7
   expect( "file '-s 5', argv '-s 7'", "start=7 end=7",
      eval( "# default\n-s 5\n", "", "-s 7"));
   expect( "env '-s 5', argv '-s 7'", "start=7 end=7", eval( "", "-s 5", "-s 7"));
   expect( "env '-s 5', then file '-s 6', argv '-s 7'", "start=7 end=7",
      eval( "-s 6\n", "-s 5", "-s 7"));

   return (failures == 0) ? 0 : 1;
}
