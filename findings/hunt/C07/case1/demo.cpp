// C07 case 1: a control character ('!', '(' or ')') that happens to be the
// first word of an argument-file line, of the environment variable or of the
// remaining real command line is taken as a *value*, not as control character.
//
// Abstract command line:   -v ! -c 1 ( -c 2 )
// reference: all words on argv; then the same words delivered through an
// argument file (one argument per line) and through the environment variable.

#include <cstdlib>
#include <fstream>
#include <iostream>
#include <string>

#include "celma/prog_args.hpp"
#include "celma/prog_args/eval_argument_string.hpp"

using celma::prog_args::Handler;
using celma::prog_args::evalArgumentString;

namespace {

struct Result
{
   bool         v = false;
   std::string  calls;      // log of the calls of -c: "[!]<value>;", brackets
   std::string  free_value; // positional argument (2nd scenario only)
   std::string  error;

   std::string str() const
   {
      if (!error.empty())
         return "exception: " + error;
      return std::string( "v=") + (v ? "1" : "0") + " calls=" + calls
         + " free=[" + free_value + "]";
   }
};

/// Sets up a handler, delivers \a file_content through an argument file (if
/// not empty), \a env through the environment variable (if not empty) and
/// \a cmd_line as real command line.
Result eval( bool with_positional, const std::string& file_content,
   const std::string& env, const std::string& cmd_line)
{
   Result  res;
   try
   {
      Handler  ah( 0);
      auto     cb = [&res]( const std::string& val, bool inverted)
      {
         res.calls += (inverted ? "!" : "") + val + ";";
      };

      ah.addArgument( "v", DEST_VAR( res.v), "flag");
      ah.addArgument( "c", DEST_LAMBDA_VALUE( cb), "callable")
         ->allowsInversion()->setCardinality();
      ah.addBracketHandler( [&res] { res.calls += "(;"; },
         [&res] { res.calls += ");"; });
      if (with_positional)
         ah.addArgument( "-", DEST_VAR( res.free_value), "free value");
      ah.addArgumentFile( "arg-file");
      ah.checkEnvVarArgs( "C07_CASE1");

      ::unsetenv( "C07_CASE1");
      if (!env.empty())
         ::setenv( "C07_CASE1", env.c_str(), 1);

      std::string  cmd( cmd_line);
      if (!file_content.empty())
      {
         std::ofstream  f( "case1_args.txt");
         f << file_content;
         f.close();
         cmd = "--arg-file case1_args.txt " + cmd;
      } // end if

      evalArgumentString( ah, cmd);
   } catch (const std::exception& e)
   {
      res.error = e.what();
   } // end try
   return res;
}

int  failures = 0;

void compare( const char* what, const Result& ref, const Result& other)
{
   const bool  same = ref.str() == other.str();
   std::cout << (same ? "  same      " : "  DIFFERENT ") << what << ": "
      << other.str() << std::endl;
   if (!same)
      ++failures;
}

} // namespace


int main()
{
   for (int with_positional = 0; with_positional < 2; ++with_positional)
   {
      std::cout << (with_positional ? "handler WITH a positional argument:"
         : "handler without positional argument:") << std::endl;

      auto const  ref = eval( with_positional, "", "", "-v ! -c 1 ( -c 2 )");
      std::cout << "  reference, all on argv: " << ref.str() << std::endl;

      compare( "file lines '-v' / '! -c 1' / '( -c 2 )'", ref,
         eval( with_positional,
            "# defaults\n-v\n\n! -c 1\n# brackets\n( -c 2 )\n", "", ""));
      compare( "file '-v', argv '! -c 1 ( -c 2 )'", ref,
         eval( with_positional, "-v\n", "", "! -c 1 ( -c 2 )"));
      compare( "env '-v', argv '! -c 1 ( -c 2 )'", ref,
         eval( with_positional, "", "-v", "! -c 1 ( -c 2 )"));
      compare( "file '-v', env '! -c 1', argv '( -c 2 )'", ref,
         eval( with_positional, "-v\n", "! -c 1", "( -c 2 )"));
      // control characters not in front: fine
      compare( "file lines '-v !' / '-c 1 (' / '-c 2 )' (control check)", ref,
         eval( with_positional, "-v !\n-c 1 (\n-c 2 )\n", "", ""));
   } // end for

   return (failures == 0) ? 0 : 1;
}
