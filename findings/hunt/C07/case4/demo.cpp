// C07 case 4: a LevelCounter (e.g. verbosity) whose value comes from an
// argument file or the environment variable cannot be overridden on the
// command line: "already have a value assigned to variable ...".

#include <cstdlib>
#include <fstream>
#include <iostream>
#include <string>

#include "celma/prog_args.hpp"
#include "celma/prog_args/eval_argument_string.hpp"

using celma::prog_args::Handler;
using celma::prog_args::LevelCounter;
using celma::prog_args::evalArgumentString;

namespace {

std::string eval( const std::string& file_content, const std::string& env,
   const std::string& cmd_line)
{
   try
   {
      Handler       ah( 0);
      LevelCounter  verbose;
      int           port = 0;

      ah.addArgument( "v", DEST_VAR( verbose), "verbose level");
      ah.addArgument( "p", DEST_VAR( port), "port");
      ah.addArgumentFile( "arg-file");
      ah.checkEnvVarArgs( "C07_CASE4");

      ::unsetenv( "C07_CASE4");
      if (!env.empty())
         ::setenv( "C07_CASE4", env.c_str(), 1);

      std::string  cmd( cmd_line);
      if (!file_content.empty())
      {
         std::ofstream  f( "case4_args.txt");
         f << file_content;
         f.close();
         cmd = "--arg-file case4_args.txt " + cmd;
      } // end if

      evalArgumentString( ah, cmd);
      return "v=" + std::to_string( verbose.value()) + " p="
         + std::to_string( port);
   } catch (const std::exception& e)
   {
      return std::string( "exception: ") + e.what();
   } // end try
}

int  failures = 0;

void expect( const char* what, const std::string& expected,
   const std::string& got)
{
   const bool  ok = expected == got;
   std::cout << (ok ? "  ok    " : "  WRONG ") << what << ": " << got;
   if (!ok)
      std::cout << "   (expected: " << expected << ")";
   std::cout << std::endl;
   if (!ok)
      ++failures;
}

} // namespace


int main()
{
   // controls
   expect( "argv '-v 5' only", "v=5 p=0", eval( "", "", "-v 5"));
   expect( "file '-v 3' only", "v=3 p=0", eval( "# default\n-v 3\n", "", ""));
   expect( "int: file '-p 1', argv '-p 2'", "v=0 p=2", eval( "-p 1\n", "", "-p 2"));
   // two values on the real command line are an error, this is intended
   expect( "argv '-v 3 -v 5' (intended error)",
      "exception: already have a value assigned to variable 'verbose'",
      eval( "", "", "-v 3 -v 5"));

   // the violation
   expect( "file '-v 3', argv '-v 5'", "v=5 p=0",
      eval( "# default\n-v 3\n", "", "-v 5"));
   expect( "env '-v 3', argv '-v 5'", "v=5 p=0", eval( "", "-v 3", "-v 5"));
   expect( "env '-v 3', then file '-v 4'", "v=4 p=0",
      eval( "-v 4\n", "-v 3", ""));
   expect( "file '-vv', argv '-v 5'", "v=5 p=0", eval( "-vv\n", "", "-v 5"));

   return (failures == 0) ? 0 : 1;
}
