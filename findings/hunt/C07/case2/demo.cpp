// C07 case 2: arguments of a sub-group that come from an argument file or the
// environment variable are counted for the cardinality, a later value on the
// real command line is rejected with "too many values" instead of overriding.

#include <cstdlib>
#include <fstream>
#include <iostream>
#include <string>

#include "celma/prog_args.hpp"
#include "celma/prog_args/eval_argument_string.hpp"

using celma::prog_args::Handler;
using celma::prog_args::evalArgumentString;

namespace {

/// Returns the values of the two destinations or the exception text.
/// -p is an argument of the main handler, -a one of the sub-group -g.
std::string eval( const std::string& file_content, const std::string& env,
   const std::string& cmd_line)
{
   try
   {
      Handler  ah( 0);
      Handler  sub( ah, 0);
      int      port = 0;
      int      sub_a = 0;

      ah.addArgument( "p", DEST_VAR( port), "port (main handler)");
      sub.addArgument( "a", DEST_VAR( sub_a), "a (sub-group)");
      ah.addArgument( "g", sub, "sub-group");
      ah.addArgumentFile( "arg-file");
      ah.checkEnvVarArgs( "C07_CASE2");

      ::unsetenv( "C07_CASE2");
      if (!env.empty())
         ::setenv( "C07_CASE2", env.c_str(), 1);

      std::string  cmd( cmd_line);
      if (!file_content.empty())
      {
         std::ofstream  f( "case2_args.txt");
         f << file_content;
         f.close();
         cmd = "--arg-file case2_args.txt " + cmd;
      } // end if

      evalArgumentString( ah, cmd);
      return "p=" + std::to_string( port) + " g.a=" + std::to_string( sub_a);
   } catch (const std::exception& e)
   {
      return std::string( "exception: ") + e.what();
   } // end try
}

int  failures = 0;

void expect( const char* what, const std::string& expected,
   const std::string& got)
{
   const bool  ok = expected == got;
   std::cout << (ok ? "  ok    " : "  WRONG ") << what << ": " << got;
   if (!ok)
      std::cout << "   (expected: " << expected << ")";
   std::cout << std::endl;
   if (!ok)
      ++failures;
}

} // namespace


int main()
{
   // control: argument of the main handler, default in file/env, override on argv
   expect( "main handler, file '-p 1', argv '-p 2'", "p=2 g.a=0",
      eval( "-p 1\n", "", "-p 2"));
   expect( "main handler, env '-p 1', argv '-p 2'", "p=2 g.a=0",
      eval( "", "-p 1", "-p 2"));
   // control: sub-group argument only from file / only from env: fine
   expect( "sub-group, file '-g -a 5' only", "p=0 g.a=5",
      eval( "# default\n-g -a 5\n", "", ""));
   // the violation: same thing for the argument of the sub-group
   expect( "sub-group, file '-g -a 5', argv '-g -a 6'", "p=0 g.a=6",
      eval( "# default\n-g -a 5\n", "", "-g -a 6"));
   expect( "sub-group, env '-g -a 5', argv '-g -a 6'", "p=0 g.a=6",
      eval( "", "-g -a 5", "-g -a 6"));
   // (the environment variable is evaluated first, --arg-file when it is met on
   // the command line)
   expect( "sub-group, env '-g -a 4', then file '-g -a 5'", "p=0 g.a=5",
      eval( "-g -a 5\n", "-g -a 4", ""));

   return (failures == 0) ? 0 : 1;
}
