// C09 case 1: a stand-alone Handler looks at the process-wide Groups singleton
// when it prints its usage.
//
// Thread A works with argument groups (its own handler, its own destination,
// its own output streams, its own command line).
// Thread B works with a plain, stand-alone Handler (own destination, own
// streams, own command line, '-h' on it, flag hfUsageCont).
//
// Expected (property C09): B gets exactly the same result as when it runs
// alone: its usage in ITS output stream, destination filled, returns normally.
//
// Observed: as soon as A has called Groups::evalArguments() once (the flag
// Groups::mEvaluating is set there and never reset), B's '-h' prints nothing
// into B's stream but prints the usage of A's groups into A's stream; and if
// the Groups singleton was created without hfUsageCont, B's '-h' terminates
// the whole process (::exit( EXIT_SUCCESS)) although B asked for
// hfUsageCont.
// With -DRACE the two threads run without ordering, so that ThreadSanitizer
// can report the unsynchronised accesses (Groups::mEvaluating, A's stream, the
// ArgumentDesc of A's handler).

#include <atomic>
#include <cstdio>
#include <future>
#include <iostream>
#include <sstream>
#include <string>
#include <thread>
#include <vector>
#include <sys/wait.h>
#include <unistd.h>

#include "celma/prog_args.hpp"
#include "celma/prog_args/eval_argument_string.hpp"
#include "celma/prog_args/groups.hpp"

using celma::prog_args::Groups;
using celma::prog_args::Handler;
using celma::prog_args::evalArgumentString;


/// What thread B does: completely self-contained.
/// @return  everything B can observe.
static std::string runB()
{
   std::ostringstream  out, err, res;
   std::vector< int>   vec_b;
   try
   {
      Handler  ah( out, err, Handler::hfHelpShort | Handler::hfUsageCont);
      ah.addArgument( "v", DEST_VAR( vec_b), "values of B")->setListSep( ';');
      evalArgumentString( ah, "-v 1;2;3 -h");
      res << "returned normally\n";
   } catch (const std::exception& e)
   {
      res << "exception: " << e.what() << "\n";
   } // end try
   res << "vec_b:";
   for (int v : vec_b)
      res << ' ' << v;
   res << "\nB-out: [" << out.str() << "]\nB-err: [" << err.str() << "]\n";
   return res.str();
} // runB


/// What thread A does: uses argument groups, everything else is its own.
static std::string runA( std::ostringstream& out, std::ostringstream& err,
   int groups_flags, std::vector< int>& vec_a)
{
   std::ostringstream  res;
   try
   {
      auto  ah = Groups::instance( out, err, groups_flags).getArgHandler( "group A");
      ah->addArgument( "a", DEST_VAR( vec_a), "values of A")->setListSep( '+');
      evalArgumentString( "-a 10+20");
      res << "returned normally\n";
   } catch (const std::exception& e)
   {
      res << "exception: " << e.what() << "\n";
   } // end try
   return res.str();
} // runA


static int ordered( int groups_flags, const std::string& b_alone)
{
   std::ostringstream  out_a, err_a;
   std::vector< int>   vec_a;
   std::promise< void> a_done;
   std::string         res_a, res_b, out_a_before;

   std::thread  ta( [&]()
   {
      res_a = runA( out_a, err_a, groups_flags, vec_a);
      out_a_before = out_a.str();
      a_done.set_value();
   });
   std::thread  tb( [&]()
   {
      a_done.get_future().wait();
      res_b = runB();
   });
   ta.join();
   tb.join();

   int  rc = 0;
   std::cout << "--- B next to A:\n" << res_b;
   if (res_b != b_alone)
   {
      std::cout << "FAIL: thread B does not observe what it observes when "
         "running alone\n";
      rc = 1;
   } // end if
   if (out_a.str() != out_a_before)
   {
      std::cout << "FAIL: output stream of thread A was written to by thread "
         "B's handler: [" << out_a.str().substr( out_a_before.size()) << "]\n";
      rc = 1;
   } // end if
   return rc;
} // ordered


int main( int argc, char* argv[])
{
   setvbuf( stdout, nullptr, _IONBF, 0);

#ifdef RACE
   // unordered variant for ThreadSanitizer
   {
      std::ostringstream  out_a, err_a;
      std::vector< int>   vec_a;
      std::atomic< int>   go{ 0};
      std::thread  ta( [&]()
      {
         ++go; while (go < 2) ;
         runA( out_a, err_a, Handler::hfUsageCont, vec_a);
         for (int i = 0; i < 200; ++i)
         {
            try { evalArgumentString( "-a 1+2"); } catch (...) { }
         } // end for
      });
      std::thread  tb( [&]()
      {
         ++go; while (go < 2) ;
         for (int i = 0; i < 200; ++i)
            runB();
      });
      ta.join();
      tb.join();
      return 0;
   }
#endif

   const std::string  b_alone = runB();
   std::cout << "--- B alone:\n" << b_alone;
   // B's '-h' created the Groups singleton as a side effect (see case 2):
   // remove it again so that thread A can create it with its own parameters
   Groups::reset();

   int  rc = 0;

   // part 1: Groups created with hfUsageCont
   rc |= ordered( Handler::hfUsageCont, b_alone);

   // part 2: Groups created without hfUsageCont: B's '-h' ends the process
   // although B's own handler has hfUsageCont. Run in a child process.
   Groups::reset();
   std::cout.flush();
   // use a pipe to find out if runB() returned in the child
   int  status = 0;
   int  fds[ 2];
   if (::pipe( fds) != 0)
      return 2;
   const pid_t  child2 = ::fork();
   if (child2 == 0)
   {
      ::close( fds[ 0]);
      std::ostringstream  out_a, err_a;
      std::vector< int>   vec_a;
      runA( out_a, err_a, 0, vec_a);
      std::thread  tb( [&]()
      {
         const std::string  res_b = runB();
         const char  c = (res_b == b_alone) ? 'S' : 'D';
         (void) !::write( fds[ 1], &c, 1);
      });
      tb.join();
      ::_exit( 0);
   } // end if
   ::close( fds[ 1]);
   char  c = 'X';
   const ssize_t  n = ::read( fds[ 0], &c, 1);
   ::waitpid( child2, &status, 0);
   if (n != 1)
   {
      std::cout << "FAIL: thread B's evalArguments() never returned: the "
         "process was ended (exit status " << WEXITSTATUS( status)
         << ") by '-h' on B's handler although B's handler has hfUsageCont\n";
      rc = 1;
   } else if (c != 'S')
   {
      std::cout << "FAIL: (child) B does not observe what it observes alone\n";
      rc = 1;
   } // end if

   std::cout << (rc ? "FAIL" : "PASS") << std::endl;
   return rc;
} // main
