#!/bin/bash
# usage: run.sh <source root (directory that contains src/)>
# exits non-zero and prints FAIL when the violation shows
ROOT="${1:-/tmp/mut/H09}"
HERE="$(cd "$(dirname "$0")" && pwd)"
BUILD="${BUILD_DIR:-$HERE/build}"
mkdir -p "$BUILD"

SRCS=$(find "$ROOT/src/library/prog_args" "$ROOT/src/library/common" "$ROOT/src/library/format" "$ROOT/src/library/appl" -name '*.cpp' | grep -v /test | grep -v print_version_info | grep -v project_)

build_lib() {   # $1 = name, $2.. = flags
   local name="$1"; shift
   mkdir -p "$BUILD/$name"
   local objs=()
   local n=0
   for s in $SRCS; do
      o="$BUILD/$name/$(echo "${s#$ROOT/src/library/}" | tr '/' '_').o"
      objs+=("$o")
      if [ ! -f "$o" ] || [ "$s" -nt "$o" ]; then
         clang++ -std=c++17 -g -O1 -w "$@" -I"$ROOT/src" -c "$s" -o "$o" &
         n=$((n+1))
         if [ $n -ge 4 ]; then wait -n; n=$((n-1)); fi
      fi
   done
   wait
   rm -f "$BUILD/$name/libcelma.a"
   ar rcs "$BUILD/$name/libcelma.a" "${objs[@]}" || exit 2
}

rc=0

# 1. deterministic (forced order), address + undefined sanitizer
build_lib asan -fsanitize=address,undefined
clang++ -std=c++17 -g -O1 -w -fsanitize=address,undefined -I"$ROOT/src" "$HERE/demo.cpp" "$BUILD/asan/libcelma.a" -lpthread -o "$BUILD/demo_asan" || exit 2
"$BUILD/demo_asan" > "$BUILD/asan.log" 2>&1
r=$?
cat "$BUILD/asan.log"
[ $r -ne 0 ] && rc=1
tail -1 "$BUILD/asan.log" | grep -q "^PASS$" || rc=1
tail -1 "$BUILD/asan.log" | grep -qE "^(PASS|FAIL)$" || echo "FAIL: demo did not run to its end"

# 2. unordered, ThreadSanitizer
build_lib tsan -fsanitize=thread
clang++ -std=c++17 -g -O1 -w -DRACE -fsanitize=thread -I"$ROOT/src" "$HERE/demo.cpp" "$BUILD/tsan/libcelma.a" -lpthread -o "$BUILD/demo_tsan" || exit 2
TSAN_OPTIONS="halt_on_error=0 exitcode=66" "$BUILD/demo_tsan" > "$BUILD/tsan.log" 2>&1
r=$?
grep -E "^SUMMARY" "$BUILD/tsan.log" | sort | uniq -c
# only races in the library's own state count (libstdc++'s ctype<char>::narrow
# cache is a known, benign libstdc++ race)
if grep -E "^SUMMARY" "$BUILD/tsan.log" | grep -v "ctype<char>::narrow" | grep -q "data race\|heap-use-after-free"; then
   echo "FAIL: ThreadSanitizer reports data races on state shared through the Groups singleton (full report: $BUILD/tsan.log)"
   rc=1
fi

if [ $rc -ne 0 ]; then echo "FAIL"; else echo "PASS"; fi
exit $rc
