#!/bin/bash
# usage: run.sh <source root (directory that contains src/)>
# exits non-zero and prints FAIL when the violation shows
ROOT="${1:-/tmp/mut/H09}"
HERE="$(cd "$(dirname "$0")" && pwd)"
BUILD="${BUILD_DIR:-$HERE/build}"
mkdir -p "$BUILD/asan"

SRCS=$(find "$ROOT/src/library/prog_args" "$ROOT/src/library/common" "$ROOT/src/library/format" "$ROOT/src/library/appl" -name '*.cpp' | grep -v /test | grep -v print_version_info | grep -v project_)

objs=()
n=0
for s in $SRCS; do
   o="$BUILD/asan/$(echo "${s#$ROOT/src/library/}" | tr '/' '_').o"
   objs+=("$o")
   if [ ! -f "$o" ] || [ "$s" -nt "$o" ]; then
      clang++ -std=c++17 -g -O1 -w -fsanitize=address,undefined -I"$ROOT/src" -c "$s" -o "$o" &
      n=$((n+1))
      if [ $n -ge 4 ]; then wait -n; n=$((n-1)); fi
   fi
done
wait
rm -f "$BUILD/asan/libcelma.a"
ar rcs "$BUILD/asan/libcelma.a" "${objs[@]}" || exit 2

clang++ -std=c++17 -g -O1 -w -fsanitize=address,undefined -I"$ROOT/src" "$HERE/demo.cpp" "$BUILD/asan/libcelma.a" -lpthread -o "$BUILD/demo_asan" || exit 2
"$BUILD/demo_asan" > "$BUILD/asan.log" 2>&1
r=$?
cat "$BUILD/asan.log"
rc=0
[ $r -ne 0 ] && rc=1
tail -1 "$BUILD/asan.log" | grep -q "^PASS$" || rc=1
if [ $rc -ne 0 ]; then echo "FAIL"; else echo "PASS"; fi
exit $rc
