// C09 case 2: '-h' on a stand-alone Handler creates the process-wide Groups
// singleton as a side effect - with default parameters.
//
// Thread A works with argument groups: it creates the Groups singleton with
// its own streams and hfUsageCont, gets its own handler, adds its own
// destination (list separator '+'), evaluates its own command line "-a 1+2 -h".
// Thread B works with a plain stand-alone Handler (own destination, list
// separator ';', own streams, own command line "-v 1;2;3 -h", hfUsageCont).
//
// Expected (property C09): in every interleaving A observes what it observes
// when it runs alone: usage in A's stream, evalArguments() returns, vec_a
// filled.
//
// Observed: in the interleaving where B's '-h' is handled before A's first
// call of Groups::instance( out_a, err_a, hfUsageCont), Handler::usage() of B
// has already created the singleton through Groups::instance() - with
// std::cout, std::cerr and flag set 0. Singleton::instance() then silently
// ignores A's parameters: A's usage is written to std::cout instead of A's
// stream, and because hfUsageCont got lost A's '-h' ends the whole process
// (::exit( EXIT_SUCCESS)) in the middle of A's evalArguments().
//
// Since the singleton is process-wide state, every run is done in a forked
// child; the child reports through a pipe what thread A observed.

#include <cstdio>
#include <future>
#include <iostream>
#include <sstream>
#include <string>
#include <thread>
#include <vector>
#include <sys/wait.h>
#include <unistd.h>

#include "celma/prog_args.hpp"
#include "celma/prog_args/eval_argument_string.hpp"
#include "celma/prog_args/groups.hpp"

using celma::prog_args::Groups;
using celma::prog_args::Handler;
using celma::prog_args::evalArgumentString;


static std::string runB()
{
   std::ostringstream  out, err, res;
   std::vector< int>   vec_b;
   try
   {
      Handler  ah( out, err, Handler::hfHelpShort | Handler::hfUsageCont);
      ah.addArgument( "v", DEST_VAR( vec_b), "values of B")->setListSep( ';');
      evalArgumentString( ah, "-v 1;2;3 -h");
      res << "returned normally\n";
   } catch (const std::exception& e)
   {
      res << "exception: " << e.what() << "\n";
   } // end try
   res << "vec_b:";
   for (int v : vec_b)
      res << ' ' << v;
   res << "\nB-out: [" << out.str() << "]\nB-err: [" << err.str() << "]\n";
   return res.str();
} // runB


static std::string runA()
{
   std::ostringstream  out, err, res;
   std::vector< int>   vec_a;
   try
   {
      auto  ah = Groups::instance( out, err, Handler::hfUsageCont)
         .getArgHandler( "group A", Handler::hfHelpShort);
      ah->addArgument( "a", DEST_VAR( vec_a), "values of A")->setListSep( '+');
      evalArgumentString( "-a 10+20 -h");
      res << "returned normally\n";
   } catch (const std::exception& e)
   {
      res << "exception: " << e.what() << "\n";
   } // end try
   res << "vec_a:";
   for (int v : vec_a)
      res << ' ' << v;
   res << "\nA-out: [" << out.str() << "]\nA-err: [" << err.str() << "]\n";
   return res.str();
} // runA


/// Runs thread A (and, if requested, thread B before it) in a child process.
/// @return  what thread A observed, empty string if A never got to its end.
static std::string inChild( bool with_b, int& exit_status)
{
   int  fds[ 2];
   if (::pipe( fds) != 0)
      ::_exit( 2);
   std::cout.flush();
   const pid_t  child = ::fork();
   if (child == 0)
   {
      ::close( fds[ 0]);
      std::promise< void>  b_done;
      std::thread  tb( [&]()
      {
         if (with_b)
            runB();
         b_done.set_value();
      });
      std::thread  ta( [&]()
      {
         b_done.get_future().wait();
         const std::string  res_a = runA();
         (void) !::write( fds[ 1], res_a.c_str(), res_a.size());
      });
      tb.join();
      ta.join();
      ::_exit( 0);
   } // end if
   ::close( fds[ 1]);
   std::string  result;
   char         buf[ 512];
   ssize_t      n;
   while ((n = ::read( fds[ 0], buf, sizeof( buf))) > 0)
      result.append( buf, n);
   ::close( fds[ 0]);
   int  status = 0;
   ::waitpid( child, &status, 0);
   exit_status = WIFEXITED( status) ? WEXITSTATUS( status) : -1;
   return result;
} // inChild


int main()
{
   setvbuf( stdout, nullptr, _IONBF, 0);

   int  st = 0;
   const std::string  a_alone = inChild( false, st);
   std::cout << "--- A alone:\n" << a_alone;

   std::cout << "--- (what follows up to the next '---' line was written to "
      "the standard output of the process)\n";
   const std::string  a_after_b = inChild( true, st);
   std::cout << "--- A, after B handled its '-h':\n" << a_after_b;

   int  rc = 0;
   if (a_after_b.empty())
   {
      std::cout << "FAIL: thread A's evalArguments() never returned: the "
         "process was ended with exit status " << st << " although A "
         "created the argument groups with hfUsageCont\n";
      rc = 1;
   } else if (a_after_b != a_alone)
   {
      std::cout << "FAIL: thread A does not observe what it observes when "
         "running alone\n";
      rc = 1;
   } // end if

   std::cout << (rc ? "FAIL" : "PASS") << std::endl;
   return rc;
} // main
