// broad stress test: many independent handlers in many threads
#include <atomic>
#include <array>
#include <bitset>
#include <deque>
#include <fstream>
#include <iostream>
#include <list>
#include <map>
#include <optional>
#include <set>
#include <sstream>
#include <thread>
#include <tuple>
#include <vector>
#include <unistd.h>

#include "celma/prog_args.hpp"
#include "celma/prog_args/eval_argument_string.hpp"
#include "celma/prog_args/value_handler.hpp"

using namespace celma::prog_args;
using celma::prog_args::Handler;

static const char seps[] = { ',', ';', ':', '+', '/', '.', '|', '#', '!', '%', '@', '_', '=', '~', '^', '&' };

template< typename C> std::string dumpc( const C& c)
{
   std::ostringstream oss;
   for (auto const& e : c) oss << e << "|";
   return oss.str();
}

// scenario 1: container destinations with different separators
static std::string scen1( int tid)
{
   std::ostringstream  out, err, res;
   try
   {
      Handler  ah( out, err, Handler::hfHelpShort | Handler::hfHelpLong | Handler::hfUsageCont
         | Handler::hfListArgVar | Handler::hfHelpArgFull | Handler::hfVerboseArgs);
      const char  sep = seps[ tid % 16];
      std::vector< int>          vi;
      std::set< std::string>     ss;
      std::list< double>         ld;
      std::map< int, std::string> mis;
      std::tuple< int, std::string, int> tup;
      std::bitset< 64>           bs;
      std::array< int, 5>        arr{};
      int                        ci[ 4] = {};
      std::vector< bool>         vb;
      std::string                name;
      int                        num = 0;
      std::optional< int>        oi;
      LevelCounter               lc;
      bool                       flag = false;

      ah.addArgument( "v,vec", DEST_VAR( vi), "vector")->setListSep( sep)
         ->addCheck( range( 0, 1000 + tid))->setSortData()->setUniqueData();
      ah.addArgument( "s,set", DEST_VAR( ss), "set")->setListSep( sep)
         ->addFormat( uppercase())->addCheck( minLength( 1));
      ah.addArgument( "l", DEST_VAR( ld), "list")->setListSep( sep)->setTakesMultiValue();
      ah.addArgument( "m", DEST_VAR( mis), "map")->setListSep( sep == '=' ? ';' : sep)->setPairFormat( "=");
      ah.addArgument( "t", DEST_VAR( tup), "tuple")->setListSep( sep);
      ah.addArgument( "b", DEST_VAR( bs), "bitset")->setListSep( sep);
      ah.addArgument( "a", DEST_VAR( arr), "array")->setListSep( sep);
      ah.addArgument( "c", DEST_VAR( ci), "c array")->setListSep( sep);
      ah.addArgument( "B", DEST_VAR( vb), "vec bool")->setListSep( sep);
      ah.addArgument( "n,name", DEST_VAR( name), "name")->addFormat( anycase( "Ullll"))
         ->addCheck( pattern( "^[A-Za-z]+" + std::to_string( tid) + "$"))
         ->addConstraint( requiresArg( "i"));
      ah.addArgument( "i,num", DEST_VAR( num), "num")->addCheck( lower( tid))->addCheck( upper( tid + 100))
         ->addConstraint( excludes( "o"));
      ah.addArgument( "o", DEST_VAR( oi), "opt");
      ah.addArgument( "L", DEST_VAR( lc), "level")->setPrintDefault( false);
      ah.addArgument( "f", DEST_VAR( flag), "flag");
      ah.addConstraint( any_of( "o;f"));
      ah.addConstraint( all_of( "a;c"));

      std::string  S( 1, sep);
      std::ostringstream  cmd;
      cmd << "-v " << (tid + 3) << S << "2" << S << "1" << S << "2"
          << " --set ab" << tid << S << "cd" << S << "ef"
          << " -l 1.5" << S << "2.5 3.5 4.5" << S << tid << ".25"
          << " -m 1=eins" << (sep == '=' ? ";" : S) << "2=zwei" << tid
          << " -t " << tid << S << "hello" << tid << S << "42"
          << " -b 1" << S << (tid + 2) << S << "33"
          << " -a 5" << S << "4" << S << tid
          << " -c 9" << S << tid << S << "7"
          << " -B 1" << S << "3" << S << (tid + 4)
          << " --name heLLO" << tid
          << " -i " << (tid + 50)
          << " -LLL -f --list-arg-vars --help-arg-full name -h";
      res << "cmd=" << cmd.str() << "\n";
      evalArgumentString( ah, cmd.str());
      res << dumpc( vi) << "\n" << dumpc( ss) << "\n" << dumpc( ld) << "\n";
      for (auto const& kv : mis) res << kv.first << "=>" << kv.second << "|";
      res << "\n" << std::get< 0>( tup) << "," << std::get< 1>( tup) << "," << std::get< 2>( tup) << "\n";
      res << bs.to_string() << "\n" << dumpc( arr) << "\n";
      for (int x : ci) res << x << "|";
      res << "\n";
      for (bool x : vb) res << x;
      res << "\n" << name << " " << num << " " << lc.value() << " " << flag << "\n";
      ah.printSummary( sumoptset_t( SummaryOptions::with_type) | SummaryOptions::with_key, res);
   } catch (const std::exception& e)
   {
      res << "EXC: " << e.what() << "\n";
   }
   res << "OUT:" << out.str() << "\nERR:" << err.str();
   return res.str();
}

// scenario 2: errors
static std::string scen2( int tid)
{
   std::ostringstream  out, err, res;
   for (int variant = 0; variant < 8; ++variant)
   {
      try
      {
         Handler  ah( out, err, Handler::hfHelpShort | Handler::hfUsageCont);
         const char  sep = seps[ (tid + variant) % 16];
         std::vector< int>  vi;
         std::string        name;
         int                num = 0, num2 = 0;
         std::vector< int>  v2;
         ah.addArgument( "v,vec", DEST_VAR( vi), "vector")->setListSep( sep)
            ->addCheck( range( 0, 10 + tid))->setCardinality( cardinality_max( 3));
         ah.addArgument( "w", DEST_VAR( v2), "vector2")->setListSep( sep);
         ah.addArgument( "n,name", DEST_VAR( name), "name")
            ->addCheck( values( "a" + std::to_string( tid) + ",b,c"))
            ->addConstraint( requiresArg( "i"));
         ah.addArgument( "i,num", DEST_VAR( num), "num")->setIsMandatory();
         ah.addArgument( "j", DEST_VAR( num2), "num2");
         ah.addConstraint( one_of( "v;n"));
         ah.addConstraint( differ( "i;j"));
         ah.addConstraint( disjoint( "v;w"));
         std::string  S( 1, sep);
         std::ostringstream  cmd;
         switch (variant)
         {
         case 0: cmd << "-v 1" << S << (11 + tid) << " -i 1"; break;  // range error
         case 1: cmd << "-v 1" << S << "2" << S << "3" << S << "4 -i 1"; break; // cardinality
         case 2: cmd << "-n a" << tid; break; // requires missing + mandatory
         case 3: cmd << "-n x" << tid << " -i 3"; break; // values
         case 4: cmd << "-v 1 -n b -i 3"; break; // one_of
         case 5: cmd << "-v 1 -i " << tid << " -j " << tid; break; // differ
         case 6: cmd << "-v 1" << S << tid + 2 << " -w 5" << S << tid + 2 << " -i 3"; break; // disjoint
         case 7: cmd << "-v 1 -i 3 --unknown" << tid; break;
         }
         evalArgumentString( ah, cmd.str());
         res << "OK " << variant << " " << dumpc( vi) << name << num << "\n";
      } catch (const std::exception& e)
      {
         res << "EXC " << variant << ": " << e.what() << "\n";
      }
   }
   res << "OUT:" << out.str() << "\nERR:" << err.str();
   return res.str();
}

// scenario 3: argument file, env var, sub groups, ranges, value filter, value handler
static std::string scen3( int tid)
{
   std::ostringstream  out, err, res;
   try
   {
      const std::string  fname = "/tmp/h09_stress_" + std::to_string( ::getpid()) + "_" + std::to_string( tid) + ".args";
      {
         std::ofstream  f( fname);
         f << "# comment\n-i " << tid << "\n--vec 1,2," << tid << "\n";
      }
      Handler  ah( out, err, Handler::hfHelpShort | Handler::hfUsageCont | Handler::hfEnvVarArgs);
      ah.checkEnvVarArgs( "H09_STRESS_ENV");
      Handler  sub1( ah, 0), sub2( ah, 0);
      int  num = 0;
      std::vector< int>  vi, rng;
      std::string  s1, s2;
      int  e = 0;
      celma::common::ValueFilter< int>  vf;
      ah.addArgumentFile( "F,file");
      ah.addArgument( "i", DEST_VAR( num), "num");
      ah.addArgument( "vec", DEST_VAR( vi), "vec");
      ah.addArgument( "e", DEST_VAR( e), "env");
      ah.addArgument( "r", DEST_RANGE( rng, int, std::vector), "range");
      ah.addArgument( "x", DEST_VAR( vf), "value filter");
      sub1.addArgument( "a", DEST_VAR( s1), "s1");
      sub2.addArgument( "b", DEST_VAR( s2), "s2");
      ah.addArgument( "g", sub1, "grp1");
      ah.addArgument( "k", sub2, "grp2");
      std::ostringstream  cmd;
      cmd << "-F " << fname << " -r 1-" << (tid + 3) << "," << (20 + tid) << "-30[2] -x " << tid << "-" << (tid + 5) << ",!" << (tid + 2)
          << " -g -a alpha" << tid << " -k -b beta" << tid << " -h";
      evalArgumentString( ah, cmd.str(), "prog");
      res << num << " " << e << " " << dumpc( vi) << " " << dumpc( rng) << " " << s1 << " " << s2 << " ";
      for (int i = 0; i < 30; ++i) res << vf.matches( i);
      res << "\n";
      ah.printSummary( res);
      ::unlink( fname.c_str());

      ValueHandler  vh( out, err, Handler::hfHelpShort | Handler::hfUsageCont);
      vh.addValueArgument< int>( "n", "number")->addCheck( range( tid, tid + 10));
      vh.addValueArgument< std::vector< std::string>>( "v", "vector")->setListSep( seps[ tid % 16]);
      std::ostringstream  cmd2;
      cmd2 << "-n " << (tid + 1) << " -v a" << seps[ tid % 16] << "b" << tid << " -h";
      evalArgumentString( vh, cmd2.str());
      int  n = 0;
      vh.getValue( n, "n");
      std::vector< std::string>  vs;
      vh.getValue( vs, "v");
      res << n << " " << dumpc( vs) << "\n";
   } catch (const std::exception& e)
   {
      res << "EXC: " << e.what() << "\n";
   }
   res << "OUT:" << out.str() << "\nERR:" << err.str();
   return res.str();
}

using scen_t = std::string (*)( int);
static scen_t  scens[] = { scen1, scen2, scen3 };

int main( int argc, char* argv[])
{
   const int  nthreads = (argc > 1) ? atoi( argv[ 1]) : 8;
   const int  rounds = (argc > 2) ? atoi( argv[ 2]) : 20;
   ::setenv( "H09_STRESS_ENV", "-e 77", 1);
   int  fails = 0;
   for (size_t s = 0; s < sizeof( scens) / sizeof( scens[ 0]); ++s)
   {
      std::vector< std::string>  ref( nthreads);
      // reference: with -DREF_FIRST computed sequentially first
#ifdef REF_FIRST
      for (int t = 0; t < nthreads; ++t) ref[ t] = scens[ s]( t);
      if (argc > 3) std::cout << ref[ 1] << std::endl;
#endif
      for (int r = 0; r < rounds; ++r)
      {
         std::vector< std::string>  got( nthreads);
         std::atomic< int>  ready{ 0};
         std::vector< std::thread>  th;
         for (int t = 0; t < nthreads; ++t)
            th.emplace_back( [&, t]()
            {
               ++ready;
               while (ready.load() < nthreads) ;
               got[ t] = scens[ s]( t);
            });
         for (auto& x : th) x.join();
#ifndef REF_FIRST
         if (r == 0)
         {
            // reference computed after first concurrent round
            for (int t = 0; t < nthreads; ++t) ref[ t] = scens[ s]( t);
         }
#endif
         for (int t = 0; t < nthreads; ++t)
            if (got[ t] != ref[ t])
            {
               ++fails;
               if (fails < 5)
                  std::cout << "MISMATCH scen " << s << " thread " << t << "\n--- got\n" << got[ t] << "\n--- ref\n" << ref[ t] << std::endl;
            }
      }
   }
   std::cout << (fails ? "FAIL" : "PASS") << " mismatches=" << fails << std::endl;
   return fails ? 1 : 0;
}
