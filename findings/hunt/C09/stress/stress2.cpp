// stress test 2: lesser used features of independent handlers in many threads
#include <atomic>
#include <deque>
#include <forward_list>
#include <fstream>
#include <iostream>
#include <list>
#include <map>
#include <optional>
#include <queue>
#include <set>
#include <sstream>
#include <stack>
#include <thread>
#include <unordered_map>
#include <unordered_set>
#include <vector>
#include <unistd.h>
#include <sys/stat.h>

#include "celma/prog_args.hpp"
#include "celma/prog_args/eval_argument_string.hpp"
#include "celma/prog_args/i_usage_text.hpp"
#include "celma/container/dynamic_bitset.hpp"

using namespace celma::prog_args;
using celma::prog_args::Handler;

static const char seps[] = { ',', ';', ':', '+', '/', '.', '|', '#', '!', '%', '@', '_', '=', '~', '^', '&' };
static std::string  g_dir;

template< typename C> std::string dumpc( const C& c)
{
   std::ostringstream oss;
   for (auto const& e : c) oss << e << "|";
   return oss.str();
}

class MyUsage : public IUsageText
{
public:
   MyUsage( Handler::UsagePos p, int tid): IUsageText( p), mTid( tid) { }
   void print( std::ostream& os) const override { os << "usage text of " << mTid; }
   int mTid;
};

static std::string scen1( int tid)
{
   std::ostringstream  out, err, res;
   try
   {
      MyUsage  t1( Handler::UsagePos::beforeArgs, tid), t2( Handler::UsagePos::afterArgs, tid);
      const std::string  home = g_dir + "/home" + std::to_string( tid);
      Handler  ah( out, err, Handler::hfHelpShort | Handler::hfHelpLong | Handler::hfUsageCont
         | Handler::hfHelpArg | Handler::hfArgHidden | Handler::hfArgDeprecated | Handler::hfUsageShort
         | Handler::hfUsageLong | Handler::hfEndValues | Handler::hfListArgVar, &t1, &t2);
      const char  sep = seps[ tid % 16];
      ah.setUsageLineLength( 60 + tid);
      std::deque< int>  dq;
      std::forward_list< std::string>  fl;
      std::multiset< int>  ms;
      std::unordered_set< int>  us;
      std::unordered_map< std::string, int>  um;
      std::stack< int>  st;
      std::queue< int>  qu;
      std::priority_queue< int>  pq;
      celma::container::DynamicBitset  db( 20);
      std::optional< bool>  ob;
      std::optional< std::string>  os;
      std::string  cmdstr, file, dir, hidden, depr, repl, mand;
      int  first = 0, pairval = 0, start = 0, end = 0, cnt = 0, opt = -1, val = 0;
      bool  inv = true;
      std::vector< int>  cba = { 9, 9, 9 };
      int  open_br = 0, close_br = 0;

      ah.addArgument( "d,deque", DEST_VAR( dq), "deque")->setListSep( sep)->setCardinality( cardinality_range( 1, 5));
      ah.addArgument( "F", DEST_VAR( fl), "fwd list")->setListSep( sep)->addFormat( lowercase());
      ah.addArgument( "M", DEST_VAR( ms), "multiset")->setListSep( sep)->setTakesMultiValue();
      ah.addArgument( "U", DEST_VAR( us), "unordered set")->setListSep( sep);
      ah.addArgument( "m", DEST_VAR( um), "unordered map")->setListSep( sep == '=' || sep == '{' ? ';' : sep)->setPairFormat( "={}");
      ah.addArgument( "S", DEST_VAR( st), "stack")->setListSep( sep);
      ah.addArgument( "Q", DEST_VAR( qu), "queue")->setListSep( sep);
      ah.addArgument( "P", DEST_VAR( pq), "prio queue")->setListSep( sep);
      ah.addArgument( "D", DEST_VAR( db), "dyn bitset")->setListSep( sep);
      ah.addArgument( "b", DEST_VAR( ob), "opt bool");
      ah.addArgument( "s", DEST_VAR( os), "opt string")->addCheck( maxLength( 10 + tid));
      std::string  file2, file3, file4, file5;
      ah.addArgument( "file", DEST_VAR( file), "file")->addCheck( isFile());
      ah.addArgument( "file2", DEST_VAR( file2), "file")->addCheck( fileSuffix( ".txt"));
      ah.addArgument( "file3", DEST_VAR( file3), "file")->addCheck( fileSize< std::greater>( 2));
      ah.addArgument( "file4", DEST_VAR( file4), "file")->addCheck( fileMod< std::less>( std::chrono::seconds( 3600)));
      ah.addArgument( "file5", DEST_VAR( file5), "file")->addCheck( isAbsolutePath());
      ah.addArgument( "dir", DEST_VAR( dir), "dir")->addCheck( isDirectory())->addCheck( parentDirectoryExists());
      ah.addArgument( "hidden", DEST_VAR( hidden), "hidden")->setIsHidden();
      ah.addArgument( "depr", DEST_VAR( depr), "deprecated")->setIsDeprecated();
      ah.addArgument( "repl", DEST_VAR( repl), "replaced")->setReplacedBy( "--mand");
      ah.addArgument( "mand", DEST_VAR( mand), "mandatory")->setIsMandatory();
      ah.addArgument( "p", DEST_PAIR( first, pairval, 100 + tid), "pair");
      ah.addArgument( "c", DEST_VAR( cnt), "count")
         ->addCheck( check_function( [tid]( const std::string& v) { return v.size() < 5u + tid; }, "my check"))
         ->addFormat( formatFunction( [tid]( std::string& v) { v += std::to_string( tid % 10); }, "my format"));
      std::vector< int>  ocl = { 1, 2};
      ah.addArgument( "o", DEST_VAR( ocl), "optional value")->setClearBeforeAssign()->setValueMode( Handler::ValueMode::optional);
      ah.addArgument( "v", DEST_VAR_VALUE( val, 4711 + tid), "value");
      std::string  invres;
      ah.addArgument( "i", DEST_LAMBDA_VALUE( ([&invres]( const std::string& v, bool inverted) { invres = v + (inverted ? "-inv" : "-norm"); })), "inverted")->allowsInversion();
      ah.addArgument( "C", DEST_VAR( cba), "clear b4 assign")->setListSep( sep)->setClearBeforeAssign();
      ah.addArgument( "-", DEST_VAR( cmdstr), "command")->setValueMode( Handler::ValueMode::command);
      ah.addBracketHandler( [&]() { ++open_br; }, [&]() { ++close_br; });

      std::string  S( 1, sep);
      const std::string  fname = g_dir + "/file" + std::to_string( tid) + ".txt";
      std::ostringstream  cmd;
      cmd << "-d 1" << S << tid << " --deque 7 -F Ab" << S << "cD" << tid
          << " -M 3" << S << "3 4 " << tid << " --endvalues"
          << " -U 5" << S << tid << " -m {a=1}" << (sep == '=' || sep == '{' ? ";" : S) << "{b" << tid << "=2}"
          << " -S 1" << S << "2 -Q 3" << S << "4 -P 5" << S << (tid + 1) << S << "2"
          << " -D 1" << S << (tid + 2) << " -b -s str" << tid
          << " --file " << fname << " --file2 " << fname << " --file3 " << fname << " --file4 " << fname << " --file5 " << fname << " --dir " << g_dir
          << " --hidden h" << tid << " --mand m" << tid
          << " -p " << tid << " -c 12 -o -v ! -i ival ( ) -C 4" << S << tid
          << " --help-arg d --print-hidden --print-deprecated --help-short -h --list-arg-vars"
          << " rest of " << tid << " --the -c ommand";
      res << "cmd=" << cmd.str() << "\n";
      evalArgumentString( ah, cmd.str());
      res << dumpc( dq) << "\n" << dumpc( fl) << "\n" << dumpc( ms) << "\n";
      std::set< int>  sus( us.begin(), us.end());
      res << dumpc( sus) << "\n";
      std::map< std::string, int>  sm( um.begin(), um.end());
      for (auto const& kv : sm) res << kv.first << "=>" << kv.second << "|";
      res << "\n" << st.size() << " " << qu.size() << " " << pq.top() << " " << db.count() << " "
          << ob.value_or( false) << " " << os.value_or( "-") << " " << file << " " << dir << " " << hidden
          << " " << mand << " " << first << " " << pairval << " " << cnt << " " << opt << " " << val << " "
          << invres << " " << dumpc( ocl) << dumpc( cba) << " " << open_br << close_br << " [" << cmdstr << "]\n";
      ah.printSummary( sumoptset_t( SummaryOptions::with_type) | SummaryOptions::with_key, res);
   } catch (const std::exception& e)
   {
      res << "EXC: " << e.what() << "\n";
   }
   res << "OUT:" << out.str() << "\nERR:" << err.str();
   return res.str();
}

// error paths of the lesser used features
static std::string scen2( int tid)
{
   std::ostringstream  out, err, res;
   for (int variant = 0; variant < 9; ++variant)
   {
      try
      {
         Handler  ah( out, err, Handler::hfHelpShort | Handler::hfUsageCont | Handler::hfHelpArgFull);
         const char  sep = seps[ (tid + variant) % 16];
         std::string  S( 1, sep);
         std::deque< int>  dq;
         std::string  file, depr, repl;
         int  arr[ 3] = {};
         std::tuple< int, int>  tup;
         std::set< int>  uniq;
         ah.addArgument( "d", DEST_VAR( dq), "deque")->setListSep( sep)->setCardinality( cardinality_exact( 2));
         ah.addArgument( "file", DEST_VAR( file), "file")->addCheck( isFile());
         ah.addArgument( "depr", DEST_VAR( depr), "deprecated")->setIsDeprecated();
         ah.addArgument( "repl", DEST_VAR( repl), "replaced")->setReplacedBy( "--new" + std::to_string( tid));
         ah.addArgument( "a", DEST_VAR( arr), "array")->setListSep( sep);
         ah.addArgument( "t", DEST_VAR( tup), "tuple")->setListSep( sep);
         ah.addArgument( "u", DEST_VAR( uniq), "unique")->setListSep( sep)->setUniqueData( true);
         std::ostringstream  cmd;
         switch (variant)
         {
         case 0: cmd << "-d 1" << S << "2" << S << tid; break;
         case 1: cmd << "--file /does/not/exist" << tid; break;
         case 2: cmd << "--depr x"; break;
         case 3: cmd << "--repl x"; break;
         case 4: cmd << "-a 1" << S << "2" << S << "3" << S << tid; break;
         case 5: cmd << "-t 1" << S << "x" << tid; break;
         case 6: cmd << "-u 1" << S << tid + 2 << S << "1"; break;
         case 7: cmd << "--help-arg-full nix" << tid; break;
         case 8: cmd << "-d"; break;
         }
         evalArgumentString( ah, cmd.str());
         res << "OK " << variant << "\n";
      } catch (const std::exception& e)
      {
         res << "EXC " << variant << ": " << e.what() << "\n";
      }
   }
   res << "OUT:" << out.str() << "\nERR:" << err.str();
   return res.str();
}

// program arguments file in $HOME/.progargs and environment variable named after the program
static std::string scen3( int tid)
{
   std::ostringstream  out, err, res;
   try
   {
      Handler  ah( out, err, Handler::hfHelpShort | Handler::hfUsageCont | Handler::hfReadProgArg | Handler::hfEnvVarArgs);
      int  a = 0, b = 0, c = 0;
      std::vector< int>  v;
      ah.addArgument( "a", DEST_VAR( a), "a");
      ah.addArgument( "b", DEST_VAR( b), "b");
      ah.addArgument( "c", DEST_VAR( c), "c");
      ah.addArgument( "v", DEST_VAR( v), "v")->setListSep( seps[ tid % 16] == '#' ? ',' : seps[ tid % 16])->setCardinality( cardinality_max( 2));
      const std::string  prog = "/some/path/prog" + std::to_string( tid);
      std::ostringstream  cmd;
      cmd << "-c " << tid << " -v 5";
      evalArgumentString( ah, cmd.str(), prog.c_str());
      res << a << " " << b << " " << c << " " << dumpc( v) << "\n";
   } catch (const std::exception& e)
   {
      res << "EXC: " << e.what() << "\n";
   }
   res << "OUT:" << out.str() << "\nERR:" << err.str();
   return res.str();
}

using scen_t = std::string (*)( int);
static scen_t  scens[] = { scen1, scen2, scen3 };

int main( int argc, char* argv[])
{
   const int  nthreads = (argc > 1) ? atoi( argv[ 1]) : 8;
   const int  rounds = (argc > 2) ? atoi( argv[ 2]) : 20;
   g_dir = "/tmp/h09_stress2_" + std::to_string( ::getpid());
   ::mkdir( g_dir.c_str(), 0755);
   ::mkdir( (g_dir + "/.progargs").c_str(), 0755);
   ::setenv( "HOME", g_dir.c_str(), 1);
   for (int t = 0; t < nthreads; ++t)
   {
      std::ofstream  f( g_dir + "/file" + std::to_string( t) + ".txt");
      f << "some content " << t << "\n";
      std::ofstream  pa( g_dir + "/.progargs/prog" + std::to_string( t) + ".pa");
      pa << "-a " << (t + 1000) << "\n-v " << t << (seps[ t % 16] == '#' ? ',' : seps[ t % 16]) << "2";
      ::setenv( ("PROG" + std::to_string( t)).c_str(), ("-b " + std::to_string( t + 2000)).c_str(), 1);
   }
   int  fails = 0;
   for (size_t s = 0; s < sizeof( scens) / sizeof( scens[ 0]); ++s)
   {
      std::vector< std::string>  ref( nthreads);
#ifdef REF_FIRST
      for (int t = 0; t < nthreads; ++t) ref[ t] = scens[ s]( t);
      if (argc > 3) std::cout << ref[ 1] << std::endl;
#endif
      for (int r = 0; r < rounds; ++r)
      {
         std::vector< std::string>  got( nthreads);
         std::atomic< int>  ready{ 0};
         std::vector< std::thread>  th;
         for (int t = 0; t < nthreads; ++t)
            th.emplace_back( [&, t]()
            {
               ++ready;
               while (ready.load() < nthreads) ;
               got[ t] = scens[ s]( t);
            });
         for (auto& x : th) x.join();
#ifndef REF_FIRST
         if (r == 0)
            for (int t = 0; t < nthreads; ++t) ref[ t] = scens[ s]( t);
#endif
         for (int t = 0; t < nthreads; ++t)
            if (got[ t] != ref[ t])
            {
               ++fails;
               if (fails < 5)
                  std::cout << "MISMATCH scen " << s << " thread " << t << "\n--- got\n" << got[ t] << "\n--- ref\n" << ref[ t] << std::endl;
            }
      }
   }
   std::string  rmcmd = "rm -rf " + g_dir;
   (void) !system( rmcmd.c_str());
   std::cout << (fails ? "FAIL" : "PASS") << " mismatches=" << fails << std::endl;
   return fails ? 1 : 0;
}
