#!/bin/bash
# builds the library with ThreadSanitizer (once) and the stress programs; usage: build.sh <source root>
ROOT="${1:-/tmp/mut/H09}"
HERE="$(cd "$(dirname "$0")" && pwd)"
B="$HERE/build"; mkdir -p "$B/obj"
SRCS=$(find "$ROOT/src/library/prog_args" "$ROOT/src/library/common" "$ROOT/src/library/format" "$ROOT/src/library/appl" "$ROOT/src/library/container" -name '*.cpp' | grep -v /test | grep -v print_version_info | grep -v project_ | grep -v properties)
objs=(); n=0
for s in $SRCS; do
   o="$B/obj/$(echo "${s#$ROOT/src/library/}" | tr '/' '_').o"; objs+=("$o")
   if [ ! -f "$o" ]; then
      clang++ -std=c++17 -g -O1 -w -fsanitize=thread -I"$ROOT/src" -c "$s" -o "$o" &
      n=$((n+1)); if [ $n -ge 4 ]; then wait -n; n=$((n-1)); fi
   fi
done
wait
rm -f "$B/libcelma.a"; ar rcs "$B/libcelma.a" "${objs[@]}"
for p in stress1 stress2 groups_setup; do
   clang++ -std=c++17 -g -O1 -w -fsanitize=thread -I"$ROOT/src" "$HERE/$p.cpp" "$B/libcelma.a" -lpthread -o "$B/$p" &
done
wait
echo "run e.g.: TSAN_OPTIONS=halt_on_error=0 $B/stress1 16 10 2>&1 | grep -E '^SUMMARY|PASS|FAIL' | sort | uniq -c"
