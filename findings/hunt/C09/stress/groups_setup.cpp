// borderline: every thread sets up its own handler through the Groups singleton
#include <atomic>
#include <sstream>
#include <thread>
#include <vector>
#include <iostream>
#include "celma/prog_args.hpp"
#include "celma/prog_args/groups.hpp"
using namespace celma::prog_args;
int main()
{
   std::ostringstream out, err;
   Groups::instance( out, err, Handler::hfUsageCont);
   const int N = 8;
   std::vector< std::vector< int>>  dest( N);
   std::atomic< int> ready{ 0};
   std::vector< std::thread> th;
   for (int t = 0; t < N; ++t)
      th.emplace_back( [&, t]()
      {
         ++ready; while (ready < N) ;
         auto ah = Groups::instance().getArgHandler( "group" + std::to_string( t));
         ah->addArgument( "v" + std::to_string( t), DEST_VAR( dest[ t]), "vec")->setListSep( ';');
      });
   for (auto& x : th) x.join();
   std::cout << "done" << std::endl;
}
