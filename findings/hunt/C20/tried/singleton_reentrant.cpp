// constructor of the singleton (indirectly) calls its own instance(): self-deadlock on the non-recursive mutex
#include "celma/common/singleton.hpp"
#include <cstdio>
class R: public celma::common::Singleton<R>
{
   friend class celma::common::Singleton<R>;
public:
   int v = 1;
protected:
   R() { if (recurse) { recurse = false; std::printf("ctor: calling instance()\n"); std::fflush(stdout); v = R::instance().v + 1; } }
public:
   static bool recurse;
};
bool R::recurse = true;
int main() { std::printf("%d\n", R::instance().v); }
