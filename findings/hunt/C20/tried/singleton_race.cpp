// N threads race for the first access (spin barrier), repeated with reset() in between.
// Also: throwing constructor on the first attempts, args forwarding.
#include "celma/common/singleton.hpp"
#include <atomic>
#include <thread>
#include <vector>
#include <cstdio>
#include <cstdlib>
#include <stdexcept>

static std::atomic<int> ctor_calls{0};
static std::atomic<int> throw_left{0};

class S: public celma::common::Singleton<S>
{
   friend class celma::common::Singleton<S>;
public:
   int value() const { return mValue; }
protected:
   explicit S(int v = 7): mValue(v)
   {
      if (throw_left.load() > 0 && throw_left.fetch_sub(1) > 0)
         throw std::runtime_error("no");
      ++ctor_calls;
      // make construction slow to widen the window
      for (volatile int i = 0; i < 20000; ++i) {}
      mValue2 = v;
   }
private:
   int mValue;
public:
   int mValue2 = -1;
};

int main()
{
   int bad = 0;
   for (int round = 0; round < 2000; ++round)
   {
      const int n = 2 + round % 15;
      ctor_calls = 0;
      throw_left = (round % 3 == 0) ? 2 : 0;
      std::atomic<int> ready{0};
      std::atomic<bool> go{false};
      std::vector<S*> got(n, nullptr);
      std::vector<int> exc(n, 0);
      std::vector<std::thread> th;
      for (int i = 0; i < n; ++i)
         th.emplace_back([&, i]{
            ++ready;
            while (!go.load(std::memory_order_acquire)) {}
            for (;;) {
               try {
                  S& s = (i % 2) ? S::instance(100 + i) : S::instance();
                  if (s.mValue2 != s.value()) { std::printf("saw half constructed\n"); std::abort(); }
                  got[i] = &s;
                  break;
               } catch (const std::runtime_error&) { ++exc[i]; }
            }
         });
      while (ready.load() != n) {}
      go.store(true, std::memory_order_release);
      for (auto& t : th) t.join();
      for (int i = 1; i < n; ++i) if (got[i] != got[0]) { ++bad; std::printf("round %d: different objects\n", round); }
      if (ctor_calls != 1) { ++bad; std::printf("round %d: %d ctor calls\n", round, ctor_calls.load()); }
      S::reset();
   }
   std::printf(bad ? "FAIL\n" : "ok\n");
   return bad != 0;
}
