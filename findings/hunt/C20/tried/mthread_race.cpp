#include "celma/common/managed_thread.hpp"
#include <atomic>
#include <cstdio>
#include <string>
#include <memory>

int main()
{
   int bad = 0;
   for (int round = 0; round < 20000; ++round)
   {
      std::atomic<int> stage{0};
      std::atomic<bool> release{false};
      {
         celma::common::ManagedThread mt([&](const std::string& s, int k){
            stage.store(1, std::memory_order_relaxed);
            while (!release.load(std::memory_order_relaxed)) {}
            stage.store(2, std::memory_order_relaxed);
         }, std::string("hello"), int(round));
         // query immediately: any answer allowed, no race
         (void) mt.isActive();
         while (stage.load(std::memory_order_relaxed) != 1) { (void) mt.isActive(); }
         if (!mt.isActive()) { ++bad; std::printf("round %d: started but not active\n", round); }
         release.store(true, std::memory_order_relaxed);
         if (round % 2) { mt.join(); if (mt.isActive()) { ++bad; std::printf("joined but active\n"); } }
         else { while (mt.isActive()) {} if (stage.load() != 2) { ++bad; std::printf("inactive before return\n"); } }
      }
   }
   std::printf(bad ? "FAIL\n" : "ok\n");
   return bad != 0;
}
