// thread function ends the thread with pthread_exit() (or is cancelled): function never "returns"
#include "celma/common/managed_thread.hpp"
#include <pthread.h>
#include <cstdio>
static void leave() { pthread_exit(nullptr); }
int main()
{
   celma::common::ManagedThread mt([]{ leave(); });
   mt.join();
   std::printf("joined, isActive() = %s\n", mt.isActive() ? "true" : "false");
   return mt.isActive() ? 1 : 0;
}
