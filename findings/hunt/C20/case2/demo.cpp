// ManagedThread: swap() (member inherited from std::thread, and std::swap via
// the std::thread overload) exchanges the thread handles of two ManagedThread
// objects, but each running thread keeps reporting into the flag of the object
// it was created in.  Afterwards an object that was joined, and whose thread
// function has returned, still says isActive() == true (and the other one says
// "inactive" while the thread it owns is running).
#include "celma/common/managed_thread.hpp"

#include <atomic>
#include <cstdio>
#include <thread>
#include <utility>

static std::atomic< bool>  stop_long{ false};
static std::atomic< bool>  stop_short{ false};
static std::atomic< bool>  short_returned{ false};

int main()
{
   int  failures = 0;

   celma::common::ManagedThread  long_runner( []()
      { while (!stop_long.load()) std::this_thread::yield(); });
   celma::common::ManagedThread  short_runner( []()
      { while (!stop_short.load()) std::this_thread::yield(); short_returned.store( true); });

   while (!long_runner.isActive() || !short_runner.isActive())
      std::this_thread::yield();

   const auto  id_long  = long_runner.get_id();
   const auto  id_short = short_runner.get_id();

   // compiles and picks std::swap( std::thread&, std::thread&); the same happens
   // with long_runner.swap( short_runner)
   std::swap( long_runner, short_runner);

   std::printf( "handles exchanged: %s\n",
      (long_runner.get_id() == id_short && short_runner.get_id() == id_long) ? "yes" : "no");

   // the object 'long_runner' now owns the short thread: let that one finish and
   // join it through this object
   stop_short.store( true);
   long_runner.join();

   std::printf( "object joined, its thread function returned: %s, isActive(): %s\n",
      short_returned.load() ? "yes" : "no", long_runner.isActive() ? "true" : "false");
   if (short_returned.load() && !long_runner.joinable() && long_runner.isActive())
   {
      std::printf( "FAIL: ManagedThread joined and function returned, but isActive() == true\n");
      ++failures;
   }

   // the object 'short_runner' owns the still running long thread, but:
   std::printf( "other object: joinable (thread running): %s, isActive(): %s\n",
      short_runner.joinable() ? "yes" : "no", short_runner.isActive() ? "true" : "false");
   if (short_runner.joinable() && !stop_long.load() && !short_runner.isActive())
   {
      std::printf( "FAIL: ManagedThread owns a thread whose function is running, but isActive() == false\n");
      ++failures;
   }

   stop_long.store( true);
   return failures ? 1 : 0;
}
