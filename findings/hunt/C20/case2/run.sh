#!/bin/sh
# usage: run.sh <source root>   (directory that contains src/)
ROOT="${1:-/tmp/mut/H20}"
HERE="$(cd "$(dirname "$0")" && pwd)"
OUT="$(mktemp -d)"
CXX="clang++ -std=c++17 -g -O1 -fsanitize=address,undefined -fno-omit-frame-pointer -I$ROOT/src"

# sanity: the header itself must be usable
printf '#include "celma/common/managed_thread.hpp"\nint main(){ celma::common::ManagedThread mt([](){}); mt.join(); return mt.isActive() ? 1 : 0; }\n' > "$OUT/sanity.cpp"
$CXX "$OUT/sanity.cpp" -lpthread -o "$OUT/sanity" > "$OUT/build.log" 2>&1 && "$OUT/sanity" \
   || { cat "$OUT/build.log"; echo "BUILD ERROR (sanity build)"; rm -rf "$OUT"; exit 2; }

if ! $CXX "$HERE/demo.cpp" -lpthread -o "$OUT/demo" > "$OUT/build.log" 2>&1; then
   echo "demo does not compile any more: swapping two ManagedThread objects is no longer offered -> ok"
   rm -rf "$OUT"
   exit 0
fi
"$OUT/demo"
rc=$?
rm -rf "$OUT"
[ $rc -eq 0 ] && echo "ok"
exit $rc
