#ifndef HUNT_STATISTIC_HPP
#define HUNT_STATISTIC_HPP

#include "celma/common/singleton.hpp"
#include <cstdio>

class Statistic: public celma::common::Singleton< Statistic>
{
   friend class celma::common::Singleton< Statistic>;
public:
   ~Statistic() override { std::printf( "Statistic object %p deleted\n", (void*) this); }
   void count() { ++mCalls; }
   int calls() const { return mCalls; }
protected:
   Statistic() { std::printf( "Statistic object %p created\n", (void*) this); }
private:
   int  mCalls = 0;
   char mPad[ 64] = {};
};

#endif
