// Translation unit that is linked first and does not use the singleton itself:
// its objects with static storage duration are constructed before the
// destructor of Singleton< Statistic>::mpObject gets registered (that happens in
// the start-up code of the translation units that use the singleton), hence
// they are destroyed after it.
#include "early.hpp"

std::atomic< bool>  stop_worker{ false};
ReportAtExit        report_at_exit;
JoinAtExit          join_at_exit;
