#!/bin/sh
# usage: run.sh <source root>   (directory that contains src/)
ROOT="${1:-/tmp/mut/H20}"
HERE="$(cd "$(dirname "$0")" && pwd)"
OUT="$(mktemp -d)"
# early.cpp must be linked first (its static objects are constructed first, destroyed last)
clang++ -std=c++17 -g -O1 -fsanitize=address,undefined -fno-omit-frame-pointer \
   -I"$ROOT/src" -I"$HERE" "$HERE/early.cpp" "$HERE/demo.cpp" -lpthread -o "$OUT/demo" \
   || { echo "BUILD ERROR"; rm -rf "$OUT"; exit 2; }
rc=0
for variant in static thread; do
   echo "--- variant: $variant"
   "$OUT/demo" $variant > "$OUT/log" 2>&1
   grep -E "^Statistic object|^at exit|ERROR: AddressSanitizer|(READ|WRITE) of size" "$OUT/log" | head -8
   if grep -q "heap-use-after-free" "$OUT/log"; then
      echo "FAIL: ($variant) Singleton::instance() handed out the already deleted object"
      rc=1
   fi
done
rm -rf "$OUT"
[ $rc -eq 0 ] && echo "ok"
exit $rc
