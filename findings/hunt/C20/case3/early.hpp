#ifndef HUNT_EARLY_HPP
#define HUNT_EARLY_HPP

#include <atomic>
#include <thread>

/// Variant A: an object with static storage duration that uses the singleton in
/// its destructor (e.g. writes a final report / log message).
struct ReportAtExit
{
   ~ReportAtExit();
   bool  enabled = false;
};

/// Variant B: owns a worker thread that is still running when main() returns and
/// joins it at exit (like a static ManagedThread would do).
struct JoinAtExit
{
   ~JoinAtExit();
   std::thread  th;
};

extern std::atomic< bool>  stop_worker;
extern ReportAtExit        report_at_exit;
extern JoinAtExit          join_at_exit;

#endif
