// Singleton: instance() after the static std::unique_ptr that owns the object has
// been destroyed at program exit.  The atomic pointer used for the check outside
// of the mutex (mpPublished) is not cleared when mpObject is destroyed, so
// instance() keeps handing out the address of the deleted object - to static
// destructors that run later (variant "static") and to every thread that is
// still running while main() returns (variant "thread").
#include "early.hpp"
#include "statistic.hpp"

#include <chrono>
#include <cstring>

ReportAtExit::~ReportAtExit()
{
   if (!enabled)
      return;
   Statistic&  s = Statistic::instance();
   std::printf( "at exit: instance() returned %p\n", (void*) &s);
   std::fflush( stdout);
   std::printf( "at exit: calls = %d\n", s.calls());   // reads freed memory
}

JoinAtExit::~JoinAtExit()
{
   if (th.joinable())
   {
      // the worker goes on using Statistic::instance() in the meantime
      std::this_thread::sleep_for( std::chrono::milliseconds( 200));
      stop_worker.store( true);
      th.join();
   }
}

int main( int argc, char* argv[])
{
   const bool  threaded = (argc > 1) && (std::strcmp( argv[ 1], "thread") == 0);

   Statistic::instance().count();

   if (threaded)
   {
      join_at_exit.th = std::thread( []()
         {
            while (!stop_worker.load())
            {
               Statistic::instance().count();
               std::this_thread::sleep_for( std::chrono::milliseconds( 1));
            }
         });
      std::this_thread::sleep_for( std::chrono::milliseconds( 50));
   } else
   {
      report_at_exit.enabled = true;
   }
   return 0;
}
