// ManagedThread: the thread keeps a raw pointer to the 'active' flag that lives
// inside the ManagedThread object, but the object gives its thread away through
// the publicly inherited std::thread interface (detach(), swap(), move-from via
// the std::thread base).  Then the destructor no longer waits for the thread,
// and the thread writes its "finished" into memory that is gone.
//
// Built once per variant (so that a repair that removes one of the operations
// from the interface does not hide the other variant):
//   -DVARIANT_DETACH : mt->detach()
//   -DVARIANT_MOVE   : std::thread taken = std::move( <std::thread base of *mt>)
//   neither          : sanity build, object destroyed normally (must pass)
#include "celma/common/managed_thread.hpp"

#include <atomic>
#include <chrono>
#include <cstdio>
#include <memory>
#include <thread>

static std::atomic< bool>  release_worker{ false};
static std::atomic< bool>  worker_done{ false};

static void worker()
{
   while (!release_worker.load())
      std::this_thread::sleep_for( std::chrono::milliseconds( 1));
   // returning from here makes the wrapper lambda store 'false' into the flag
}

int main()
{
   std::thread  taken;

   {
      auto  mt = std::make_unique< celma::common::ManagedThread>( worker);

      while (!mt->isActive())
         std::this_thread::yield();

#if defined( VARIANT_MOVE)
      std::thread&  base = *mt;             // implicit, the base class is public
      taken = std::move( base);
#elif defined( VARIANT_DETACH)
      mt->detach();                         // public member inherited from std::thread
#else
      release_worker.store( true);          // sanity build: normal use
#endif
      // destructor: in the two variants joinable() is false now -> no join, the
      // flag is freed while the thread function is still running
   }

   std::printf( "ManagedThread object destroyed, thread function still running\n");
   std::fflush( stdout);

   release_worker.store( true);
   if (taken.joinable())
      taken.join();
   else
      std::this_thread::sleep_for( std::chrono::milliseconds( 300));

   // only reached when built without AddressSanitizer
   std::printf( "thread wrote its 'inactive' into freed memory (no sanitizer to see it)\n");
   return 0;
}
