#!/bin/sh
# usage: run.sh <source root>   (directory that contains src/)
ROOT="${1:-/tmp/mut/H20}"
HERE="$(cd "$(dirname "$0")" && pwd)"
OUT="$(mktemp -d)"
CXX="clang++ -std=c++17 -g -O1 -fsanitize=address,undefined -fno-omit-frame-pointer -I$ROOT/src"

$CXX "$HERE/demo.cpp" -lpthread -o "$OUT/sanity" > "$OUT/build.log" 2>&1 \
   || { cat "$OUT/build.log"; echo "BUILD ERROR (sanity build)"; rm -rf "$OUT"; exit 2; }
"$OUT/sanity" > "$OUT/log.sanity" 2>&1 \
   || { cat "$OUT/log.sanity"; echo "FAIL: even the normal use (no detach/move) failed"; rm -rf "$OUT"; exit 1; }

rc=0
for variant in DETACH MOVE; do
   echo "--- variant: $variant"
   if ! $CXX -DVARIANT_$variant "$HERE/demo.cpp" -lpthread -o "$OUT/demo" > "$OUT/build.log" 2>&1; then
      echo "does not compile any more: the operation is no longer offered by ManagedThread -> ok"
      continue
   fi
   "$OUT/demo" > "$OUT/log" 2>&1
   grep -E "ManagedThread object destroyed|ERROR: AddressSanitizer|WRITE of size|managed_thread.hpp" "$OUT/log" | head -8
   if grep -q "AddressSanitizer" "$OUT/log"; then
      echo "FAIL: ($variant) the thread stored its 'inactive' flag into the freed ManagedThread object"
      rc=1
   fi
done
rm -rf "$OUT"
[ $rc -eq 0 ] && echo "ok"
exit $rc
