// C15 case 6: one failed write (here: file size limit of the process, same
// for a full disk) puts the log file stream into the fail state for good:
// all following messages are dropped silently - and counted as written -
// until the files happen to be rolled, although writing would work again.
#include <signal.h>
#include <sys/resource.h>
#include <unistd.h>
#include <fstream>
#include <iostream>
#include <sstream>
#include <string>
#include "celma/log/detail/log_msg.hpp"
#include "celma/log/filename/creator.hpp"
#include "celma/log/filename/definition.hpp"
#include "celma/log/files/counted.hpp"

namespace clfn = celma::log::filename;
namespace clf  = celma::log::files;

static std::string slurp( const std::string& f)
{
   std::ifstream  in( f);
   std::stringstream  s;
   s << in.rdbuf();
   return s.str();
}

int main( int argc, char* argv[])
{
   const std::string  dir( argc > 1 ? argv[ 1] : ".");
   const std::string  base( dir + "/log.");
   clfn::Definition   def;
   clfn::Creator      creator( def);

   creator << base << clfn::number;

   celma::log::detail::LogMsg  msg( "demo.cpp", "main", 1);
   clf::Counted  policy( def, 10, 2);

   policy.open();
   policy.writeMessage( msg, "m1 written normally");

   // writing fails for a moment: EFBIG through the file size limit, stands
   // for ENOSPC (disk full), EDQUOT, EIO
   ::signal( SIGXFSZ, SIG_IGN);
   struct rlimit  orig_limit;
   ::getrlimit( RLIMIT_FSIZE, &orig_limit);
   struct rlimit  low_limit = orig_limit;
   low_limit.rlim_cur = 20;   // == size of the file now
   ::setrlimit( RLIMIT_FSIZE, &low_limit);

   bool  got_exception = false;
   try
   {
      policy.writeMessage( msg, "m2 cannot be written");
   } catch (...)
   {
      got_exception = true;
   }

   // problem solved (limit lifted, disk space freed)
   ::setrlimit( RLIMIT_FSIZE, &orig_limit);

   for (int i = 3; i <= 9; ++i)
      policy.writeMessage( msg, "m" + std::to_string( i) + " written after the problem was solved");

   const std::string  gen0 = slurp( base + "0");
   std::cout << "limit 10 entries, 9 messages logged, m2 while writing was not "
                "possible (" << (got_exception ? "exception" : "no exception, no error indication")
             << ")\n--- generation 0:\n" << gen0 << "---\n";

   bool  ok = true;
   for (int i = 3; i <= 9; ++i)
   {
      if (gen0.find( "m" + std::to_string( i) + " written after") == std::string::npos)
      {
         std::cout << "FAIL: message m" << i << " is missing\n";
         ok = false;
      }
   }
   if (ok)
      std::cout << "ok\n";
   return ok ? 0 : 1;
}
