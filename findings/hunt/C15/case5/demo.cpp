// C15 case 5: when opening the new file fails after the generations were
// rolled (here: the process temporarily has no free file descriptor), the
// policy object is left in a state in which EVERY further message rolls the
// generations again -> each failed message destroys one more retained
// generation.
#include <fcntl.h>
#include <sys/resource.h>
#include <unistd.h>
#include <fstream>
#include <iostream>
#include <sstream>
#include <string>
#include "celma/log/detail/log_msg.hpp"
#include "celma/log/filename/creator.hpp"
#include "celma/log/filename/definition.hpp"
#include "celma/log/files/counted.hpp"

namespace clfn = celma::log::filename;
namespace clf  = celma::log::files;

static std::string slurp( const std::string& f)
{
   std::ifstream  in( f);
   std::stringstream  s;
   s << in.rdbuf();
   return s.str();
}

static std::string all( const std::string& base, int max_gen)
{
   std::string  result;
   for (int g = max_gen - 1; g >= 0; --g)
   {
      const bool  exists = ::access( (base + std::to_string( g)).c_str(), F_OK) == 0;
      result += "   generation " + std::to_string( g) + ":";
      if (!exists)
         result += " (no file)";
      std::istringstream  content( slurp( base + std::to_string( g)));
      std::string         line;
      while (std::getline( content, line))
         result += " " + line;
      result += "\n";
   }
   return result;
}

int main( int argc, char* argv[])
{
   const std::string  dir( argc > 1 ? argv[ 1] : ".");
   const std::string  base( dir + "/log.");
   clfn::Definition   def;
   clfn::Creator      creator( def);

   creator << base << clfn::number;

   const int  max_gen = 4;
   celma::log::detail::LogMsg  msg( "demo.cpp", "main", 1);
   clf::Counted  policy( def, 2, max_gen);
   int  nbr = 0;

   // the number of the file descriptor that the log file is going to get
   const int  log_fd = ::open( "/dev/null", O_RDONLY);
   ::close( log_fd);

   policy.open();
   for (int i = 0; i < 8; ++i)
      policy.writeMessage( msg, "m" + std::to_string( ++nbr));
   std::cout << "after m1..m8 (2 entries per file, 4 generations):\n"
             << all( base, max_gen);

   // the application runs out of file descriptors for a while (EMFILE):
   // simulated deterministically by lowering the soft limit so that the
   // descriptor number that is freed by closing the log file may not be used
   // again (in real life: another thread grabs the descriptor, or the new file
   // cannot be created because of ENOSPC/EDQUOT/ENFILE/EACCES ...)
   struct rlimit  orig_limit;
   ::getrlimit( RLIMIT_NOFILE, &orig_limit);
   struct rlimit  low_limit = orig_limit;
   low_limit.rlim_cur = log_fd;
   ::setrlimit( RLIMIT_NOFILE, &low_limit);

   int  failed = 0;
   for (int i = 0; i < 3; ++i)
   {
      try
      {
         policy.writeMessage( msg, "m" + std::to_string( ++nbr));
      } catch (const std::exception&)
      {
         // the application is told that this message could not be logged
         ++failed;
      }
   }

   // file descriptors are available again
   ::setrlimit( RLIMIT_NOFILE, &orig_limit);

   std::cout << "m9..m11 while no file descriptor is free: " << failed
             << " exceptions\n";

   policy.writeMessage( msg, "m" + std::to_string( ++nbr));
   const std::string  result = all( base, max_gen);
   std::cout << "after m12 (file descriptors available again):\n" << result;

   // m9..m11 are lost, the application knows that. but the retained
   // generations must still be the most recent messages that were written.
   const std::string  expected =
      "   generation 3: m3 m4\n   generation 2: m5 m6\n"
      "   generation 1: m7 m8\n   generation 0: m12\n";
   if (result != expected)
   {
      std::cout << "expected:\n" << expected
                << "FAIL: messages m3..m6 in the retained generations were "
                   "destroyed by rolling the files once per failed message\n";
      return 1;
   }
   std::cout << "ok\n";
   return 0;
}
