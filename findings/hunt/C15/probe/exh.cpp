// exhaustive comparison of Counted / MaxSize against an ideal model
#include <iostream>
#include <fstream>
#include <sstream>
#include <cstdlib>
#include <deque>
#include <vector>
#include <memory>
#include <map>
#include <unistd.h>
#include "celma/log/filename/creator.hpp"
#include "celma/log/filename/definition.hpp"
#include "celma/log/files/counted.hpp"
#include "celma/log/files/max_size.hpp"
#include "celma/log/detail/log_msg.hpp"
namespace clfn = celma::log::filename;
namespace clf = celma::log::files;
using celma::log::detail::LogMsg;
static const std::string DIR = "/tmp/mut/H15/hunt/probe/e";
static std::string slurp(const std::string& f){ std::ifstream i(f); std::stringstream s; s<<i.rdbuf(); return s.str(); }
static bool exists(const std::string& f){ return access(f.c_str(), F_OK)==0; }

struct Model {
   bool counted; size_t limit; int G; bool strict; bool eager;
   std::deque<std::string> gens; // front = newest
   Model(bool c,size_t l,int g,bool s,bool e):counted(c),limit(l),G(g),strict(s),eager(e){ gens.push_front(""); }
   size_t sz(const std::string& s) const { if(!counted) return s.size(); size_t n=0; for(char ch: s) if(ch=='\n') ++n; return n; }
   bool fits(const std::string& cur, const std::string& m) const {
      if (counted) return sz(cur)+1 <= limit;
      return strict ? cur.size()+m.size()+1 < limit : cur.size()+m.size()+1 <= limit; }
   void roll(){ gens.push_front(""); while((int)gens.size()>std::max(G,1)) gens.pop_back(); }
   void write(const std::string& m){ if(!fits(gens.front(),m) && !( !eager && gens.front().empty())) roll(); gens.front()+=m+"\n"; }
   void reopen(){ if(eager){ bool full = counted ? sz(gens.front())>=limit : gens.front().size()>=limit; if(full) roll(); } }
};

int main(int argc,char**argv)
{
   int N = argc>1?atoi(argv[1]):6;
   bool strict = argc>2?atoi(argv[2]):0;
   bool eager = argc>3?atoi(argv[3]):0;
   std::map<std::string,int> kinds;
   long total=0, bad=0;
   for (int counted=0; counted<2; ++counted)
   for (size_t limit = counted?1:4; limit <= (counted?3u:8u); ++limit)
   for (int G=1; G<=3; ++G)
   {
      std::vector<std::string> alpha = counted ? std::vector<std::string>{"a","R"} : std::vector<std::string>{"", "ab", "abcd", "R"};
      size_t A=alpha.size();
      long count=1; for(int i=0;i<N;++i) count*=A;
      for (long code=0; code<count; ++code)
      {
         system(("rm -rf "+DIR+"; mkdir -p "+DIR).c_str());
         clfn::Definition def; clfn::Creator c(def);
         c << DIR << "/log." << clfn::number;
         Model mod(counted,limit,G,strict,eager);
         std::unique_ptr<clf::PolicyBase> p;
         auto mk=[&](){ if(counted) p.reset(new clf::Counted(def,limit,G)); else p.reset(new clf::MaxSize(def,limit,G)); p->open(); };
         mk();
         std::string hist; long cc=code; int seq=0; bool failed=false;
         for (int i=0;i<N && !failed;++i,cc/=A)
         {
            const std::string& s=alpha[cc%A];
            if (s=="R"){ hist+="R "; p.reset(); mk(); mod.reopen(); }
            else { std::string m=s; if(!m.empty()) m[0]=char('A'+seq%26); ++seq; hist+="w("+m+") ";
               LogMsg lm("f","g",1); p->writeMessage(lm,m); mod.write(m); }
            // compare
            for (int g=0; g<std::max(G,1)+1; ++g){
               std::string fn=DIR+"/log."+std::to_string(g);
               std::string act= exists(fn)?slurp(fn):std::string();
               std::string exp= g<(int)mod.gens.size()?mod.gens[g]:std::string();
               if (act!=exp){ failed=true;
                  std::ostringstream k; k<<(counted?"Counted":"MaxSize")<<" limit="<<limit<<" G="<<G<<" hist="<<hist<<" gen"<<g<<" act=["<<act<<"] exp=["<<exp<<"]";
                  std::string ks=k.str(); for(char&ch:ks) if(ch=='\n') ch='|';
                  if (kinds.size()<40) kinds[ks]++; break; }
            }
         }
         ++total; if(failed) ++bad;
      }
   }
   for (auto& k: kinds) std::cout<<k.first<<"\n";
   std::cout<<"total "<<total<<" bad "<<bad<<"\n";
}
