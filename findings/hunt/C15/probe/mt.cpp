#include <unistd.h>
#include <fstream>
#include <iostream>
#include <sstream>
#include <mutex>
#include <thread>
#include <vector>
#include <map>
#include "celma/log/detail/log_msg.hpp"
#include "celma/log/filename/creator.hpp"
#include "celma/log/filename/definition.hpp"
#include "celma/log/files/counted.hpp"
#include "celma/log/files/max_size.hpp"
#include "celma/log/files/handler.hpp"
#include "celma/log/formatting/format.hpp"
namespace clfn = celma::log::filename;
namespace clf  = celma::log::files;
static std::string slurp( const std::string& f){ std::ifstream in(f); std::stringstream s; s<<in.rdbuf(); return s.str(); }
int main()
{
   const std::string dir="/tmp/mut/H15/hunt/probe/mt";
   system(("rm -rf "+dir+"; mkdir -p "+dir).c_str());
   clfn::Definition def; clfn::Creator c(def); c << dir << "/log." << clfn::number;
   const int T=4, N=300, G=1000;
   {
      clf::Handler< clf::Counted, std::mutex> h( new clf::Counted( def, 7, G));
      std::vector<std::thread> th;
      for (int t=0;t<T;++t) th.emplace_back([&,t]{ for(int i=0;i<N;++i){ celma::log::detail::LogMsg m("f","g",1); m.setText("T"+std::to_string(t)+"-"+std::to_string(i)); h.handleMessage(m);} });
      for (auto& x: th) x.join();
   }
   std::map<int,int> next; int total=0; bool ok=true;
   for (int g=G-1; g>=0; --g){ std::istringstream in(slurp(dir+"/log."+std::to_string(g))); std::string l; int lines=0;
      while(std::getline(in,l)){ if(l.empty()) continue; ++lines; auto p=l.rfind("|T"); int t,i; sscanf(l.c_str()+p+2,"%d-%d",&t,&i); if(next[t]!=i){ok=false; std::cout<<"order/loss: thread "<<t<<" expected "<<next[t]<<" got "<<i<<"\n";} next[t]=i+1; ++total; }
      if (lines>7) {ok=false; std::cout<<"gen "<<g<<" has "<<lines<<"\n";} }
   std::cout<<"total "<<total<<" ok="<<ok<<"\n";
}
