// kill the process after the k-th rename() of a roll (and before the truncating open), restart, check
#include <unistd.h>
#include <sys/stat.h>
#include <sys/wait.h>
#include <cstdio>
#include <fstream>
#include <iostream>
#include <sstream>
#include "celma/common/file_operations.hpp"
#include "celma/common/detail/file_funcs_base.hpp"
#include "celma/log/detail/log_msg.hpp"
#include "celma/log/filename/creator.hpp"
#include "celma/log/filename/definition.hpp"
#include "celma/log/files/counted.hpp"
namespace clfn = celma::log::filename;
namespace clf  = celma::log::files;
static std::string slurp( const std::string& f){ std::ifstream in(f); std::stringstream s; s<<in.rdbuf(); return s.str(); }
struct Killer: celma::common::detail::FileFuncsBase {
   int k; int n=0; explicit Killer(int kk):k(kk){}
   int rename(const std::string& d,const std::string& s) override { if(n==k) ::_exit(0); ++n; return ::rename(s.c_str(),d.c_str()); }
   int remove(const std::string& f) override { return ::remove(f.c_str()); }
   int mkdir(const std::string& d,int m) override { return ::mkdir(d.c_str(),m); }
};
#include <sys/stat.h>
int main()
{
   const int G=4, L=2;
   for (int pre=2; pre<=10; ++pre)       // messages before the fatal roll
   for (int k=0;k<=G-1;++k)              // kill before k-th rename (k==G-1: after all renames, before open)
   {
      const std::string dir="/tmp/mut/H15/hunt/probe/k";
      system(("rm -rf "+dir+"; mkdir -p "+dir).c_str());
      clfn::Definition def; clfn::Creator c(def); c << dir << "/log." << clfn::number;
      celma::log::detail::LogMsg m("f","g",1);
      int nbr=0;
      if (pre % L != 0) continue;
      { clf::Counted p(def,L,G); p.open(); for(int i=0;i<pre;++i) p.writeMessage(m,"m"+std::to_string(++nbr)); }
      pid_t ch=fork();
      if(ch==0){ celma::common::FileOperations::setFuncImpl(new Killer(k)); clf::Counted p(def,L,G); p.open(); /* full file -> rolls at open */ p.writeMessage(m,"X"); _exit(0);}  
      int st; waitpid(ch,&st,0);
      { clf::Counted p(def,L,G); p.open(); p.writeMessage(m,"m"+std::to_string(++nbr)); }
      std::string allc; for(int g=G-1;g>=0;--g) allc+=slurp(dir+"/log."+std::to_string(g));
      std::string exp; int cnt=0; { // expected suffix: all of m1..m(nbr) minus oldest beyond capacity; accept any suffix containing at least last (G-1)*L
         }
      std::string full; for(int i=1;i<=nbr;++i) full+="m"+std::to_string(i)+"\n";
      bool suffix = allc.size()<=full.size()+2 && (full.size()>=allc.size() && full.compare(full.size()-allc.size(),allc.size(),allc)==0);
      // X may be in there if child wasn't killed (k beyond renames executed)
      std::string a2=allc; for(char&ch2:a2) if(ch2=='\n') ch2=' ';
      std::cout<<"pre="<<pre<<" k="<<k<<" retained: "<<a2<<(suffix?"  suffix-ok":"  NOT-SUFFIX")<<"\n";
   }
}
