#include <iostream>
#include <fstream>
#include <sstream>
#include <cstdlib>
#include "celma/log/filename/creator.hpp"
#include "celma/log/filename/definition.hpp"
#include "celma/log/files/counted.hpp"
#include "celma/log/files/max_size.hpp"
#include "celma/log/files/handler.hpp"
#include "celma/log/detail/log_msg.hpp"
namespace clfn = celma::log::filename;
namespace clf = celma::log::files;
using celma::log::detail::LogMsg;
static std::string slurp(const std::string& f){ std::ifstream i(f); std::stringstream s; s<<i.rdbuf(); return s.str(); }
int main()
{
   system("rm -rf /tmp/mut/H15/hunt/probe/d; mkdir -p /tmp/mut/H15/hunt/probe/d");
   clfn::Definition def; clfn::Creator c(def);
   c << "/tmp/mut/H15/hunt/probe/d/log." << clfn::number << ".txt";
   for (int run = 0; run < 3; ++run)
   {
      clf::Handler< clf::Counted> h( new clf::Counted( def, 4, 3));
      LogMsg m( "file.cpp", "func", 1);
      m.setText( "msg" + std::to_string(run));
      h.handleMessage( m);
   }
   for (int g = 0; g < 3; ++g)
      std::cout << "gen " << g << ": [" << slurp("/tmp/mut/H15/hunt/probe/d/log." + std::to_string(g) + ".txt") << "]\n";
}
