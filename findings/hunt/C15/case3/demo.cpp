// C15 case 3: MaxSize starts a new generation although the next message would
// exactly fill - not exceed - the configured maximum file size.
#include <unistd.h>
#include <fstream>
#include <iostream>
#include <sstream>
#include <string>
#include "celma/log/detail/log_msg.hpp"
#include "celma/log/filename/creator.hpp"
#include "celma/log/filename/definition.hpp"
#include "celma/log/files/max_size.hpp"

namespace clfn = celma::log::filename;
namespace clf  = celma::log::files;

static std::string slurp( const std::string& f)
{
   std::ifstream  in( f);
   std::stringstream  s;
   s << in.rdbuf();
   return s.str();
}

static bool exists( const std::string& f)
{
   return ::access( f.c_str(), F_OK) == 0;
}

int main( int argc, char* argv[])
{
   const std::string  dir( argc > 1 ? argv[ 1] : ".");
   clfn::Definition   def;
   clfn::Creator      creator( def);

   creator << dir << "/log." << clfn::number;

   // maximum file size 20 bytes, two messages of 9 characters + line feed
   // = 2 * 10 = 20 bytes
   const size_t  max_size = 20;
   celma::log::detail::LogMsg  msg( "demo.cpp", "main", 1);
   {
      clf::MaxSize  policy( def, max_size, 2);
      policy.open();
      policy.writeMessage( msg, "message-1");
      policy.writeMessage( msg, "message-2");
   }

   const std::string  gen0 = slurp( dir + "/log.0");
   std::cout << "max file size " << max_size << " bytes, two messages of 10 bytes each\n"
             << "--- generation 1" << (exists( dir + "/log.1") ? "" : " (does not exist)")
             << " [" << slurp( dir + "/log.1").length() << " bytes]:\n" << slurp( dir + "/log.1")
             << "--- generation 0 [" << gen0.length() << " bytes]:\n" << gen0 << "---\n";

   if (exists( dir + "/log.1") || (gen0 != "message-1\nmessage-2\n"))
   {
      std::cout << "FAIL: new generation started although both messages together "
                   "are " << max_size << " bytes = the maximum, not more\n";
      return 1;
   }
   std::cout << "ok\n";
   return 0;
}
