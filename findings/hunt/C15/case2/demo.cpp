// C15 case 2: Counted counts 1 entry per message while writing, but counts text
// lines when an existing file is continued -> a message text that contains a
// line feed counts more than once after a re-open.
#include <unistd.h>
#include <fstream>
#include <iostream>
#include <memory>
#include <sstream>
#include <string>
#include "celma/log/detail/log_msg.hpp"
#include "celma/log/filename/creator.hpp"
#include "celma/log/filename/definition.hpp"
#include "celma/log/files/counted.hpp"

namespace clfn = celma::log::filename;
namespace clf  = celma::log::files;

static std::string slurp( const std::string& f)
{
   std::ifstream  in( f);
   std::stringstream  s;
   s << in.rdbuf();
   return s.str();
}

static bool exists( const std::string& f)
{
   return ::access( f.c_str(), F_OK) == 0;
}

/// Writes the three messages, with or without a re-open between them.
static bool scenario( const std::string& dir, bool reopen)
{
   clfn::Definition  def;
   clfn::Creator     creator( def);

   creator << dir << (reopen ? "/reopen." : "/onerun.") << clfn::number << ".log";

   const std::string  base( dir + (reopen ? "/reopen." : "/onerun."));
   const std::string  texts[ 3] = {
      "A: could not parse the request:\n   unexpected end of input",
      "B: second message", "C: third message" };
   celma::log::detail::LogMsg  msg( "demo.cpp", "main", 1);

   auto  policy = std::make_unique< clf::Counted>( def, 3, 2);
   policy->open();
   for (int i = 0; i < 3; ++i)
   {
      policy->writeMessage( msg, texts[ i]);
      if (reopen)
      {
         // process restart
         policy.reset();
         policy = std::make_unique< clf::Counted>( def, 3, 2);
         policy->open();
      } // end if
   } // end for
   policy.reset();

   std::cout << (reopen ? "== with a re-open after each message" : "== one run")
             << ", limit 3 entries, 3 messages:\n"
             << "--- generation 1" << (exists( base + "1.log") ? "" : " (does not exist)")
             << ":\n" << slurp( base + "1.log")
             << "--- generation 0:\n" << slurp( base + "0.log") << "---\n";

   return !exists( base + "1.log")
          && (slurp( base + "0.log") == texts[ 0] + "\n" + texts[ 1] + "\n" + texts[ 2] + "\n");
}

int main( int argc, char* argv[])
{
   const std::string  dir( argc > 1 ? argv[ 1] : ".");
   const bool  ok_one_run = scenario( dir, false);
   const bool  ok_reopen  = scenario( dir, true);

   if (!ok_one_run)
      std::cout << "FAIL: unexpected result already without re-open\n";
   if (!ok_reopen)
      std::cout << "FAIL: with re-opens the same three messages do not fit into "
                   "one file of 3 entries anymore, the files were rolled too early\n";

   return (ok_one_run && ok_reopen) ? 0 : 1;
}
