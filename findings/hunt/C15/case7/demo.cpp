// C15 case 7: rollFiles() ignores ALL errors of rename(), not only "file does
// not exist". When the current file cannot be renamed (classic set-up: log
// files pre-created for the service user in a directory that belongs to
// root), the following truncating open() destroys the full generation.
#include <sys/stat.h>
#include <sys/wait.h>
#include <unistd.h>
#include <fstream>
#include <iostream>
#include <sstream>
#include <string>
#include "celma/log/detail/log_msg.hpp"
#include "celma/log/filename/creator.hpp"
#include "celma/log/filename/definition.hpp"
#include "celma/log/files/counted.hpp"

namespace clfn = celma::log::filename;
namespace clf  = celma::log::files;

static std::string slurp( const std::string& f)
{
   std::ifstream  in( f);
   std::stringstream  s;
   s << in.rdbuf();
   return s.str();
}

int main( int argc, char* argv[])
{
   const std::string  dir( argc > 1 ? argv[ 1] : ".");
   const std::string  base( dir + "/service.");

   // set-up by the "administrator": both generations pre-created and writable
   // for the service, the directory is not.
   { std::ofstream  f0( base + "0.log"); std::ofstream  f1( base + "1.log"); }
   ::chmod( (base + "0.log").c_str(), 0666);
   ::chmod( (base + "1.log").c_str(), 0666);
   ::chmod( dir.c_str(), 0555);

   const pid_t  child = ::fork();
   if (child == 0)
   {
      // the service: unprivileged
      if (::geteuid() == 0)
      {
         if ((::setgid( 65534) != 0) || (::setuid( 65534) != 0))
            ::_exit( 3);
      } // end if

      clfn::Definition  def;
      clfn::Creator     creator( def);
      creator << base << clfn::number << ".log";

      celma::log::detail::LogMsg  msg( "demo.cpp", "main", 1);
      try
      {
         clf::Counted  policy( def, 3, 2);
         policy.open();
         for (int i = 1; i <= 4; ++i)
            policy.writeMessage( msg, "m" + std::to_string( i));
      } catch (const std::exception& e)
      {
         std::cout << "service got exception: " << e.what() << "\n";
         ::_exit( 1);
      }
      ::_exit( 0);
   } // end if

   int  status = 0;
   ::waitpid( child, &status, 0);
   ::chmod( dir.c_str(), 0755);

   const std::string  gen1 = slurp( base + "1.log");
   const std::string  gen0 = slurp( base + "0.log");
   std::cout << "max_entries 3, max_gen 2, messages m1..m4, service exit status "
             << WEXITSTATUS( status) << " (0 = no error reported)\n"
             << "--- generation 1:\n" << gen1 << "--- generation 0:\n" << gen0
             << "---\n";

   if ((gen1 + gen0).find( "m1\nm2\nm3\n") == std::string::npos)
   {
      std::cout << "FAIL: m1..m3 are gone: rename() failed with EACCES, the error "
                   "was ignored and the file truncated\n";
      return 1;
   }
   std::cout << "ok\n";
   return 0;
}
