// C15 case 4: merely re-opening (process restart, no new message) a log file
// that is exactly full rolls the generations and so destroys the oldest
// generation - with max_gen == 1 the complete log.
#include <unistd.h>
#include <fstream>
#include <iostream>
#include <sstream>
#include <string>
#include "celma/log/detail/log_msg.hpp"
#include "celma/log/filename/creator.hpp"
#include "celma/log/filename/definition.hpp"
#include "celma/log/files/counted.hpp"

namespace clfn = celma::log::filename;
namespace clf  = celma::log::files;

static std::string slurp( const std::string& f)
{
   std::ifstream  in( f);
   std::stringstream  s;
   s << in.rdbuf();
   return s.str();
}

/// Returns the contents of all generations, oldest first.
static std::string all( const std::string& base, int max_gen)
{
   std::string  result;
   for (int g = max_gen - 1; g >= 0; --g)
      result += slurp( base + std::to_string( g));
   return result;
}

static bool scenario( const std::string& dir, int max_gen)
{
   const std::string  base( dir + "/g" + std::to_string( max_gen) + ".");
   clfn::Definition   def;
   clfn::Creator      creator( def);

   creator << base << clfn::number;

   const size_t  max_entries = 2;
   celma::log::detail::LogMsg  msg( "demo.cpp", "main", 1);

   // first run: fills max_gen generations completely
   {
      clf::Counted  policy( def, max_entries, max_gen);
      policy.open();
      for (int i = 1; i <= static_cast< int>( max_entries) * max_gen; ++i)
         policy.writeMessage( msg, "message-" + std::to_string( i));
   }
   const std::string  before = all( base, max_gen);

   // second run: the process starts and ends without logging anything
   {
      clf::Counted  policy( def, max_entries, max_gen);
      policy.open();
   }
   const std::string  after = all( base, max_gen);

   std::cout << "== max_entries = " << max_entries << ", max_gen = " << max_gen
             << "\n--- retained messages after the first run:\n" << before
             << "--- retained messages after a restart without any new message:\n"
             << after << "---\n";
   return before == after;
}

int main( int argc, char* argv[])
{
   const std::string  dir( argc > 1 ? argv[ 1] : ".");
   const bool  ok1 = scenario( dir, 1);
   const bool  ok2 = scenario( dir, 2);

   if (!ok1 || !ok2)
   {
      std::cout << "FAIL: a new generation was started (and the oldest one "
                   "destroyed) although no message was written\n";
      return 1;
   }
   std::cout << "ok\n";
   return 0;
}
