#!/bin/sh
# usage: run.sh <source root>   (directory that contains src/celma, or src itself)
ROOT=${1:-/tmp/mut/H15}
if [ -d "$ROOT/src/celma" ]; then S="$ROOT/src"; else S="$ROOT"; fi
HERE=$(cd "$(dirname "$0")" && pwd)
W=$(mktemp -d /tmp/c15case.XXXXXX)
trap 'rm -rf "$W"' EXIT
L="$S/library"
clang++ -std=c++17 -w -g -O1 -fsanitize=address,undefined -I"$S" "$HERE/demo.cpp" \
   "$L/log/files/policy_base.cpp" "$L/log/files/counted.cpp" "$L/log/files/max_size.cpp" \
   "$L/log/filename/builder.cpp" "$L/log/filename/creator.cpp" \
   "$L/common/file_operations.cpp" "$L/common/detail/file_funcs_os.cpp" \
   "$L/log/detail/log_msg.cpp" "$L/log/detail/format_stream_default.cpp" \
   "$L/log/detail/i_log_dest.cpp" "$L/log/filter/filters.cpp" \
   "$L/log/filter/detail/duplicate_policy_factory.cpp" \
   "$L/log/filter/detail/log_filter_classes.cpp" \
   "$L/common/exception_base.cpp" "$L/common/extract_funcname.cpp" \
   -lpthread -o "$W/demo" || { echo "BUILD ERROR"; exit 2; }
mkdir -p "$W/logs"
"$W/demo" "$W/logs"
