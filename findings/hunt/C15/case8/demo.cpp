// C15 case 8: a log file whose last entry is incomplete (process killed /
// power loss / disk full in the middle of the last write) is continued
// without starting a new line: the first message after the restart is glued
// to the torso.
#include <unistd.h>
#include <fstream>
#include <iostream>
#include <sstream>
#include <string>
#include "celma/log/detail/log_msg.hpp"
#include "celma/log/filename/creator.hpp"
#include "celma/log/filename/definition.hpp"
#include "celma/log/files/counted.hpp"
#include "celma/log/files/max_size.hpp"

namespace clfn = celma::log::filename;
namespace clf  = celma::log::files;

static std::string slurp( const std::string& f)
{
   std::ifstream  in( f);
   std::stringstream  s;
   s << in.rdbuf();
   return s.str();
}

template< typename P> static bool scenario( const std::string& base, size_t limit)
{
   clfn::Definition  def;
   clfn::Creator     creator( def);
   creator << base << clfn::number;

   celma::log::detail::LogMsg  msg( "demo.cpp", "main", 1);
   {
      P  policy( def, limit, 2);
      policy.open();
      policy.writeMessage( msg, "m1 first message");
      policy.writeMessage( msg, "m2 second message");
   }

   // the process was killed while it wrote m2: the last 8 bytes did not make
   // it into the file
   const std::string  file( base + "0");
   ::truncate( file.c_str(), slurp( file).length() - 8);

   // restart
   {
      P  policy( def, limit, 2);
      policy.open();
      policy.writeMessage( msg, "m3 first message after the restart");
   }

   const std::string  gen0 = slurp( file);
   std::cout << "--- generation 0:\n" << gen0 << "---\n";
   return gen0.find( "\nm3 first message after the restart\n") != std::string::npos;
}

int main( int argc, char* argv[])
{
   const std::string  dir( argc > 1 ? argv[ 1] : ".");

   std::cout << "== Counted, max. 10 entries\n";
   const bool  ok1 = scenario< clf::Counted>( dir + "/counted.", 10);
   std::cout << "== MaxSize, max. 1000 bytes\n";
   const bool  ok2 = scenario< clf::MaxSize>( dir + "/maxsize.", 1000);

   if (!ok1 || !ok2)
   {
      std::cout << "FAIL: m3 is not an entry (line) of its own, it was "
                   "appended to the incomplete m2\n";
      return 1;
   }
   std::cout << "ok\n";
   return 0;
}
