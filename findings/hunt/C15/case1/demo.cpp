// C15 case 1: Handler + default formatter write two line ends per message,
// Counted::openCheck() counts lines -> after a re-open every message counts twice.
#include <unistd.h>
#include <fstream>
#include <iostream>
#include <sstream>
#include <string>
#include "celma/log/detail/log_msg.hpp"
#include "celma/log/filename/creator.hpp"
#include "celma/log/filename/definition.hpp"
#include "celma/log/files/counted.hpp"
#include "celma/log/files/handler.hpp"

namespace clfn = celma::log::filename;
namespace clf  = celma::log::files;

static std::string slurp( const std::string& f)
{
   std::ifstream  in( f);
   std::stringstream  s;
   s << in.rdbuf();
   return s.str();
}

static int countMsgs( const std::string& content)
{
   int  n = 0;
   for (size_t pos = content.find( "msg-"); pos != std::string::npos;
        pos = content.find( "msg-", pos + 1))
      ++n;
   return n;
}

int main( int argc, char* argv[])
{
   const std::string  dir( argc > 1 ? argv[ 1] : ".");
   clfn::Definition   def;
   clfn::Creator      creator( def);

   creator << dir << "/log." << clfn::number << ".txt";

   const size_t  max_entries = 4;
   const int     max_gen = 3;

   // three "process runs", each run writes one message, limit is 4 entries
   for (int run = 0; run < 3; ++run)
   {
      // exactly like in test_log_files.cpp / factory.hpp: default formatter
      clf::Handler< clf::Counted>  h( new clf::Counted( def, max_entries, max_gen));
      celma::log::detail::LogMsg   msg( "demo.cpp", "main", 42);
      msg.setText( "msg-" + std::to_string( run));
      h.handleMessage( msg);
   }

   const std::string  gen0 = slurp( dir + "/log.0.txt");
   const std::string  gen1 = slurp( dir + "/log.1.txt");
   const bool         gen1_exists = ::access( (dir + "/log.1.txt").c_str(), F_OK) == 0;

   std::cout << "limit = " << max_entries << " entries, 3 messages written, "
             << "one per run\n"
             << "--- generation 0:\n" << gen0
             << "--- generation 1 " << (gen1_exists ? "(exists!)" : "(does not exist)")
             << ":\n" << gen1 << "---\n";

   if (gen1_exists || (countMsgs( gen0) != 3))
   {
      std::cout << "FAIL: the log files were rolled after " << countMsgs( gen1)
                << " entries although " << max_entries << " are allowed per file\n";
      return 1;
   }

   std::cout << "ok: all 3 messages are in generation 0\n";
   return 0;
}
