#!/bin/bash
# usage: run.sh <source root>   (e.g. run.sh /tmp/mut/K04)
# exits non-zero and prints FAIL when the violation shows
ROOT=${1:-/tmp/mut/K04}
HERE=$(cd "$(dirname "$0")" && pwd)
BUILD=$(mktemp -d /tmp/k04_case1_XXXXXX)
trap 'rm -rf "$BUILD"' EXIT
CXXFLAGS="-std=c++17 -g -O1 -w -fsanitize=address,undefined -fno-sanitize-recover=undefined -I$ROOT/src"

find "$ROOT/src/library/prog_args" "$ROOT/src/library/common" "$ROOT/src/library/format" "$ROOT/src/library/appl" -name '*.cpp' \
   | grep -v /test | grep -v print_version_info > "$BUILD/srcs.txt"
n=0
while read -r f; do n=$((n+1)); echo "$f $BUILD/o$n.o"; done < "$BUILD/srcs.txt" \
   | xargs -P4 -L1 sh -c 'clang++ '"$CXXFLAGS"' -c "$0" -o "$1"' || { echo "BUILD ERROR (library)"; exit 2; }
clang++ $CXXFLAGS "$HERE/demo.cpp" "$BUILD"/o*.o -lpthread -o "$BUILD/demo" || { echo "BUILD ERROR (demo)"; exit 2; }

ASAN_OPTIONS=detect_leaks=0 "$BUILD/demo" > "$BUILD/out.txt" 2>&1
rc=$?
grep -E "ERROR: AddressSanitizer|SUMMARY|returned normally|exception:" "$BUILD/out.txt" | head -5
if [ $rc -ne 0 ] || grep -q "AddressSanitizer" "$BUILD/out.txt"; then
   echo "FAIL: Groups::evalArguments() touched freed memory (exit code $rc)"
   exit 1
fi
echo "PASS"
exit 0
