// Groups::evalArguments(): a callable (argument "--load-module") registers the
// argument group of the module that was just requested. The new group is
// appended to Groups::mArgGroups while evalArguments() iterates over that
// vector with a range-for and holds a reference to the current element.
#include <iostream>
#include <sstream>
#include <string>
#include "celma/prog_args.hpp"
#include "celma/prog_args/groups.hpp"

using celma::prog_args::Groups;
using celma::prog_args::Handler;

static int  gModuleLevel = 0;
static bool gLoaded = false;

static void loadModule( bool)
{
   if (gLoaded)
      return;
   gLoaded = true;
   // the module brings its own arguments
   auto  mod = Groups::instance().getArgHandler( "module arguments");
   mod->addArgument( "m,module-level", DEST_VAR( gModuleLevel), "level");
}

int main()
{
   std::ostringstream  out, err;
   auto &  groups = Groups::instance( out, err, Handler::hfUsageCont);

   int   verbose = 0;
   auto  main_h = groups.getArgHandler( "program arguments");
   main_h->addArgument( "v", DEST_VAR( verbose), "verbose");
   main_h->addArgument( "l,load-module", DEST_FUNCTION( loadModule), "load the module");

   const char*  argv_c[] = { "prog", "--load-module", "-m", "5", "-v", "1", nullptr };
   char**       argv = const_cast< char**>( argv_c);

   try
   {
      groups.evalArguments( 6, argv);
      std::cout << "returned normally, module level = " << gModuleLevel
                << ", verbose = " << verbose << std::endl;
   } catch (const std::exception& e)
   {
      std::cout << "exception: " << e.what() << std::endl;
   }
   return 0;
}
