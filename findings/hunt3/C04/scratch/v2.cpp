#include <iostream>
#include <sstream>
#include <string>
#include <vector>
#include "celma/prog_args.hpp"
#include "celma/prog_args/groups.hpp"
using celma::prog_args::Groups;
using celma::prog_args::Handler;
static Handler* gH = nullptr;
static int gExtra = 0;
static std::vector<int> gVec;
static int cnt = 0;
static void addMore( bool)
{
   // a callable that adds further arguments to its own handler
   for (int i = 0; i < 40; ++i)
      gH->addArgument( "extra" + std::to_string( cnt++), DEST_VAR( gExtra), "extra");
}
int main( int argc, char* argv[])
{
   std::ostringstream out, err;
   {
      Handler h( out, err, Handler::hfUsageCont | Handler::hfHelpShort | Handler::hfListArgVar);
      gH = &h;
      int v = 0;
      h.addArgument( "v", DEST_VAR( v), "verbose");
      h.addArgument( "a,add", DEST_FUNCTION( addMore), "add");
      h.addArgument( "l", DEST_VAR( gVec), "list")->setTakesMultiValue();
      const char* av[] = { "prog", "-l", "1", "2", "--add", "3", "-av", "7", "--extra5", "9", "-h", "--list-arg-vars", nullptr };
      try { h.evalArguments( 12, const_cast<char**>( av)); std::cout << "ok " << gExtra << " " << gVec.size() << "\n"; }
      catch (const std::exception& e) { std::cout << "exc: " << e.what() << "\n"; }
      try { h.evalArguments( 12, const_cast<char**>( av)); std::cout << "ok " << gExtra << " " << gVec.size() << "\n"; }
      catch (const std::exception& e) { std::cout << "exc: " << e.what() << "\n"; }
      h.printSummary( out);
   }
   std::cout << out.str().size() << "\n";
   return 0;
}
