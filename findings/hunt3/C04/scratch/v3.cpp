#include <iostream>
#include <sstream>
#include "celma/prog_args.hpp"
#include "celma/prog_args/groups.hpp"
using celma::prog_args::Groups;
using celma::prog_args::Handler;
static void unload( bool) { Groups::instance().removeArgHandler( "module"); }
int main()
{
   std::ostringstream out, err;
   auto& g = Groups::instance( out, err, Handler::hfUsageCont);
   int v = 0, m = 0;
   g.getArgHandler( "program")->addArgument( "v", DEST_VAR( v), "verbose");
   { auto mod = g.getArgHandler( "module");
     mod->addArgument( "m", DEST_VAR( m), "m");
     mod->addArgument( "u,unload", DEST_FUNCTION( unload), "unload"); }
   const char* av[] = { "prog", "-m", "1", "--unload", "-v", "2", nullptr };
   try { g.evalArguments( 6, const_cast<char**>( av)); std::cout << "ok\n"; }
   catch (const std::exception& e) { std::cout << "exc: " << e.what() << "\n"; }
}
