// exhaustive exploration: policy, limit, gens, history of events vs. model
#include "h.hpp"
#include <deque>
static const std::string  dir = "/tmp/mut/K15/hunt/build/w_explore";
using Gens = std::deque< std::vector< std::string>>;   // front = gen 0
struct Model {
   bool counted; size_t limit; int gens; Gens g; bool have0 = false;
   size_t size0() const { size_t s = 0; for (auto& m : g[0]) s += m.size() + 1; return s; }
   void roll() { g.push_front( {}); while ((int) g.size() > std::max( gens, 1)) g.pop_back(); }
   void open() { if (g.empty()) g.push_front({});
      // accepted: a full file is rolled at re-open
      if (counted ? (g[0].size() >= limit && !g[0].empty()) : (size0() >= limit)) roll(); }
   void msg( const std::string& m) {
      bool fits = counted ? (g[0].size() + 1 <= limit) : (size0() + m.size() + 1 < limit);
      // property: an empty generation is never rolled (rolling cannot help)
      if (!fits && !g[0].empty()) roll();
      g[0].push_back( m); }
};
int main( int argc, char* argv[])
{
   bool counted = std::string( argv[1]) == "c";
   size_t limit = atoi( argv[2]); int gens = atoi( argv[3]); int depth = atoi( argv[4]);
   std::vector< int> lens; for (int i = 5; i < argc; ++i) lens.push_back( atoi( argv[i]));
   int nev = lens.size() + 1;  // last = restart
   long total = 1; for (int i = 0; i < depth; ++i) total *= nev;
   int bad = 0;
   for (long code = 0; code < total && bad < 5; ++code)
   {
      std::string cmd = "rm -rf " + dir + " && mkdir -p " + dir; if (system( cmd.c_str())) return 2;
      clfn::Definition def; clfn::Creator c( def); c << (dir + "/log.") << clfn::number;
      Model m{ counted, limit, gens}; m.open();
      std::string hist;
      auto mk = [&]() -> celma::log::detail::ILogDest* {
         if (counted) { auto* h = new clf::Handler< clf::Counted>( new clf::Counted( def, limit, gens)); h->setFormatter( new TextOnly); return h; }
         auto* h = new clf::Handler< clf::MaxSize>( new clf::MaxSize( def, limit, gens)); h->setFormatter( new TextOnly); return h; };
      std::unique_ptr< celma::log::detail::ILogDest> h( mk());
      long cc = code; int seq = 0;
      for (int i = 0; i < depth; ++i, cc /= nev)
      {
         int ev = cc % nev;
         if (ev == nev - 1) { h.reset(); h.reset( mk()); m.open(); hist += "R "; }
         else { std::string t( lens[ev], 'a' + (seq++ % 26)); 
            celma::log::detail::LogMsg msg( LOG_MSG_OBJECT_INIT); msg.setText( t); h->handleMessage( msg); m.msg( t); hist += t + " "; }
      }
      h.reset();
      // compare
      std::string want, got;
      for (size_t gi = 0; gi < m.g.size(); ++gi) { want += "[" ; for (auto& s : m.g[gi]) want += s + "|"; want += "]"; }
      for (int gi = 0; gi < 12; ++gi) { std::string f = dir + "/log." + std::to_string( gi); if (!exists( f)) { if (gi < (int) m.g.size()) got += "<missing>"; continue; } std::string s = slurp( f); for (auto& ch : s) if (ch == '\n') ch = '|'; got += "[" + s + "]"; }
      if (want != got) { ++bad; std::cout << "DIFF hist: " << hist << "\n  want " << want << "\n  got  " << got << "\n"; }
   }
   std::cout << (bad ? "FAIL" : "ok") << " total=" << total << "\n";
   return bad != 0;
}
