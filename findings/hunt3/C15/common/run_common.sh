#!/bin/bash
# usage: run_common.sh <srcroot> <casedir> ; builds the needed library sources + demo.cpp and runs it
ROOT=${1:-/tmp/mut/K15}; CASE=$2
HERE=$(cd $(dirname $0) && pwd)
OUT=$(mktemp -d /tmp/c15hunt.XXXXXX)
$HERE/build_lib.sh $ROOT $OUT/lib -fsanitize=address,undefined -w || { echo "BUILD ERROR"; exit 2; }
clang++ -std=c++17 -g -O1 -w -fsanitize=address,undefined -I$ROOT/src -I$HERE $CASE/demo.cpp $OUT/lib/libclog.a -lpthread -o $OUT/demo || { echo "BUILD ERROR"; exit 2; }
cd $OUT && ./demo $OUT/work; rc=$?
rm -rf $OUT
exit $rc
