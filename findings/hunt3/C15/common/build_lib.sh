#!/bin/bash
# usage: build_lib.sh <srcroot> <outdir> [extra flags]
set -e
ROOT=$1; OUT=$2; shift 2
mkdir -p $OUT
L=$ROOT/src/library
SRCS="$L/log/files/counted.cpp $L/log/files/max_size.cpp $L/log/files/policy_base.cpp $L/log/files/simple.cpp $L/log/filename/builder.cpp $L/log/filename/creator.cpp $L/log/detail/i_log_dest.cpp $L/log/detail/format_stream_default.cpp $L/log/detail/log_msg.cpp $L/common/file_operations.cpp $L/common/exception_base.cpp $L/common/extract_funcname.cpp $L/common/detail/file_funcs_os.cpp $(ls $L/log/filter/*.cpp $L/log/filter/detail/*.cpp 2>/dev/null)"
printf '%s\n' $SRCS | xargs -P 4 -I{} sh -c 'clang++ -std=c++17 -g -O1 '"$*"' -I'"$ROOT"'/src -c {} -o '"$OUT"'/$(echo {} | md5sum | cut -c1-8)_$(basename {} .cpp).o'
rm -f $OUT/libclog.a
ar rcs $OUT/libclog.a $OUT/*.o
