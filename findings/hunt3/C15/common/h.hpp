// helper for the demo programs: uses only the public API of the library
#pragma once
#include <dirent.h>
#include <sys/stat.h>
#include <unistd.h>
#include <cstdio>
#include <cstdlib>
#include <fstream>
#include <iostream>
#include <memory>
#include <sstream>
#include <string>
#include <vector>
#include "celma/log/detail/i_format_stream.hpp"
#include "celma/log/detail/log_msg.hpp"
#include "celma/log/filename/creator.hpp"
#include "celma/log/filename/definition.hpp"
#include "celma/log/files/counted.hpp"
#include "celma/log/files/handler.hpp"
#include "celma/log/files/max_size.hpp"
namespace clf = celma::log::files;
namespace clfn = celma::log::filename;
/// writes only the text of the message
class TextOnly : public celma::log::detail::IFormatStream
{
   void format( std::ostream& out, const celma::log::detail::LogMsg& msg) const override
   { out << msg.getText(); }
};
template< typename H> void say( H& h, const std::string& text)
{
   celma::log::detail::LogMsg  msg( LOG_MSG_OBJECT_INIT);
   msg.setText( text);
   static_cast< celma::log::detail::ILogDest&>( h).handleMessage( msg);
}
inline bool exists( const std::string& f) { struct stat st; return ::stat( f.c_str(), &st) == 0; }
inline std::string slurp( const std::string& f)
{ std::ifstream in( f); std::stringstream ss; ss << in.rdbuf(); return ss.str(); }
inline std::string show( const std::string& s)
{ std::string r; for (char c : s) { if (c == '\n') r += "\\n"; else r += c; } return r; }
