// C15 case 2: MaxSize with limit 0: every attempt to start fails with an
// exception - but only AFTER the existing generations were rolled and log.0
// was truncated. A few start attempts wipe the complete retained history.
#include "h.hpp"
int main( int, char* argv[])
{
   const std::string  dir( argv[ 1]);
   system( ("rm -rf " + dir + " && mkdir -p " + dir).c_str());
   clfn::Definition  def;
   clfn::Creator     c( def);
   c << (dir + "/log.") << clfn::number;
   const int  gens = 3;
   {  // a healthy history, written with a sensible limit
      clf::Handler< clf::MaxSize>  h( new clf::MaxSize( def, 8, gens));
      h.setFormatter( new TextOnly);
      for (const char* m : { "m1", "m2", "m3", "m4", "m5", "m6"})
         say( h, m);
   }
   auto dump = [&]() {
      std::string  all;
      for (int g = gens - 1; g >= 0; --g)
      {
         const std::string  f = dir + "/log." + std::to_string( g);
         const std::string  s = exists( f) ? slurp( f) : "<missing>";
         std::cout << "   log." << g << ": '" << show( s) << "'\n";
         if (exists( f)) all += s;
      }
      return all;
   };
   std::cout << "before:\n";
   const std::string  before = dump();
   int  thrown = 0;
   for (int attempt = 1; attempt <= gens; ++attempt)
   {  // the limit comes e.g. from a configuration file in which it is 0
      try
      {
         clf::Handler< clf::MaxSize>  h( new clf::MaxSize( def, 0, gens));
         std::cout << "attempt " << attempt << ": handler created\n";
      } catch (const std::exception& e)
      {
         ++thrown;
         std::cout << "attempt " << attempt << ": exception '" << e.what() << "'\n";
      }
      dump();
   }
   std::cout << "after " << gens << " refused starts:\n";
   const std::string  after = dump();
   if (thrown > 0 && after != before)
   {
      std::cout << "FAIL: no message was written, every start was refused, yet the retained messages changed from '"
                << show( before) << "' to '" << show( after) << "'\n";
      return 1;
   }
   std::cout << "ok\n";
   return 0;
}
