// C15 case 1: MaxSize rolls an EMPTY generation 0 when the next message does
// not fit into an empty file -> an empty generation takes a slot and the
// oldest retained generation (with real messages) is thrown away for nothing.
#include "h.hpp"
int main( int, char* argv[])
{
   const std::string  dir( argv[ 1]);
   system( ("rm -rf " + dir + " && mkdir -p " + dir).c_str());
   clfn::Definition  def;
   clfn::Creator     c( def);
   c << (dir + "/log.") << clfn::number;
   const size_t  limit = 10;
   const int     gens = 3;
   auto mk = [&]() {
      auto* h = new clf::Handler< clf::MaxSize>( new clf::MaxSize( def, limit, gens));
      h->setFormatter( new TextOnly);
      return std::unique_ptr< clf::Handler< clf::MaxSize>>( h);
   };
   {
      auto h = mk();
      say( *h, "m1-too-long-for-10");   // does not fit: stands alone in a generation
   }
   {
      auto h = mk();                    // restart: log.0 is over the limit, is rolled (accepted)
      say( *h, "m2-too-long-for-10");   // log.0 is EMPTY now - and is rolled again
      say( *h, "m3");
      say( *h, "m4");
   }
   // three generations are configured, the history needs exactly three:
   //   log.2 = m1 | log.1 = m2 | log.0 = m3 m4
   std::string  all;
   for (int g = gens - 1; g >= 0; --g)
   {
      const std::string  f = dir + "/log." + std::to_string( g);
      const std::string  s = exists( f) ? slurp( f) : "<missing>";
      std::cout << "log." << g << ": '" << show( s) << "'\n";
      all += s;
   }
   const std::string  want = "m1-too-long-for-10\nm2-too-long-for-10\nm3\nm4\n";
   if (all != want)
   {
      std::cout << "FAIL: retained generations hold '" << show( all)
                << "', expected '" << show( want) << "' (m1 was lost, one generation is empty)\n";
      return 1;
   }
   std::cout << "ok\n";
   return 0;
}
