#!/bin/bash
HERE=$(cd $(dirname $0) && pwd)
exec $HERE/../common/run_common.sh "${1:-/tmp/mut/K15}" $HERE
