#include "celma/common/managed_thread.hpp"
#include <cstdio>
#include <cstdlib>
#include <stdexcept>
#include <unistd.h>
#include <pthread.h>
using celma::common::ManagedThread;
static ManagedThread* g;
int main(int argc, char**) {
  if (argc > 1) { // cancel
    ManagedThread t([]{ for (;;) ::sleep(1); });
    ::usleep(50000); pthread_cancel(t.native_handle()); t.join(); printf("after cancel+join: isActive=%d\n", t.isActive()); return 0; }
  std::set_terminate([]{ printf("terminate: isActive=%d\n", g->isActive()); fflush(stdout); _exit(3); });
  ManagedThread t([]{ ::usleep(1000); throw std::runtime_error("x"); }); g = &t;
  ::sleep(2); printf("not terminated\n");
}
