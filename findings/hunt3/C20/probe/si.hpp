#pragma once
#include "celma/common/singleton.hpp"
#include <atomic>
struct Bar: public celma::common::Singleton<Bar> { friend class celma::common::Singleton<Bar>; static std::atomic<int> cnt, dcnt; ~Bar(); protected: Bar(); };
void seen_add(Bar*);
void join_starter();
