// managed thread: observers polling during start/end; std::ref; move-only; functor state; join twice
#include "celma/common/managed_thread.hpp"
#include <atomic>
#include <thread>
#include <vector>
#include <memory>
#include <cstdio>
#include <functional>
#include <system_error>
using celma::common::ManagedThread;
int fails = 0;
struct Functor { int copies = 0, moves = 0; std::shared_ptr<int> st = std::make_shared<int>(7);
  Functor() = default; Functor(const Functor& o): copies(o.copies+1), moves(o.moves), st(o.st) {} Functor(Functor&& o): copies(o.copies), moves(o.moves+1), st(std::move(o.st)) {}
  void operator()(std::atomic<int>& out) const { out = st ? *st + copies*100 + moves*1000 : -1; } };
int main() {
  for (int r = 0; r < 2000; ++r) {
    std::atomic<int> started{0}, finish{0}, done{0};
    std::atomic<int> bad{0};
    {
      ManagedThread mt([&]{ started.store(1, std::memory_order_release); while (!finish.load(std::memory_order_acquire)) std::this_thread::yield(); });
      std::vector<std::thread> obs;
      for (int o = 0; o < 4; ++o) obs.emplace_back([&]{
         while (!done.load(std::memory_order_acquire)) {
           // if we see started and not yet told to finish, must be active
           int f_before = finish.load(std::memory_order_acquire);
           int s = started.load(std::memory_order_acquire);
           bool a = mt.isActive();
           if (s && !f_before) { /* function started; may it have finished? only if finish set */ if (!a && !finish.load(std::memory_order_acquire)) ++bad; }
         } });
      while (!started.load()) std::this_thread::yield();
      if (!mt.isActive()) ++bad;
      finish.store(1, std::memory_order_release);
      mt.join();
      if (mt.isActive()) ++bad;
      bool threw = false; try { mt.join(); } catch (const std::system_error&) { threw = true; }
      if (!threw) ++bad;
      if (mt.isActive()) ++bad;
      done.store(1, std::memory_order_release);
      for (auto& t: obs) t.join();
    }
    if (bad) { ++fails; printf("round %d bad %d\n", r, (int)bad); }
  }
  { std::atomic<int> out{0}; Functor f; { ManagedThread t(f, std::ref(out)); } printf("lvalue functor -> %d\n", (int)out); if (!f.st) ++fails; }
  { std::atomic<int> out{0}; { ManagedThread t(Functor(), std::ref(out)); } printf("rvalue functor -> %d\n", (int)out); }
  { int res = 0; { ManagedThread t([](std::unique_ptr<int> p, int& r){ r = *p; }, std::make_unique<int>(5), std::ref(res)); } if (res != 5) ++fails; }
  { auto up = std::make_unique<int>(9); int res = 0; { ManagedThread t([p = std::move(up)](int& r){ r = *p; }, std::ref(res)); } if (res != 9) ++fails; }
  printf(fails ? "FAIL %d\n" : "ok %d\n", fails); return fails != 0;
}
