#include "celma/common/managed_thread.hpp"
#include <string>
#include <memory>
#include <functional>
#include <cstdio>
using celma::common::ManagedThread;
void fi(int) {}
void fs(std::string) {}
void fcs(const std::string&) {}
void fr(int& r) { r = 42; }
void fu(std::unique_ptr<int> p) {}
void fcc(const char*) {}
struct S { void m() {} };
int main() {
#ifdef T1
  int n = 5; ManagedThread t(fi, n);
#endif
#ifdef T2
  ManagedThread t(fcc, "hello");
#endif
#ifdef T3
  int c = 0; ManagedThread t([c]() mutable { ++c; });
#endif
#ifdef T4
  S s; ManagedThread t(&S::m, &s);
#endif
#ifdef T5
  int r = 0; { ManagedThread t(fr, std::ref(r)); } printf("%d\n", r);
#endif
#ifdef T6
  ManagedThread t(fu, std::make_unique<int>(3));
#endif
#ifdef T7
  std::string s("abc"); ManagedThread t(fs, s);
#endif
#ifdef T8
  const std::string s("abc"); ManagedThread t(fcs, s);
#endif
#ifdef T9
  std::function<void()> f = []{}; ManagedThread t(f);
#endif
#ifdef T10
  std::string s("abc"); ManagedThread t(fs, std::move(s));
#endif
}
