// singleton: racing first access, throwing ctor for some threads, many types, reset between rounds
#include "celma/common/singleton.hpp"
#include <atomic>
#include <thread>
#include <vector>
#include <cstdio>
#include <stdexcept>
#include <pthread.h>
using celma::common::Singleton;
template<int N> struct Foo: public Singleton<Foo<N>> { friend class Singleton<Foo<N>>; int v; static std::atomic<int> cnt; static std::atomic<int> live;
  ~Foo() { --live; }
 protected: Foo(int a, bool thr): v(a) { if (thr) throw std::runtime_error("x"); ++cnt; ++live; } };
template<int N> std::atomic<int> Foo<N>::cnt{0};
template<int N> std::atomic<int> Foo<N>::live{0};
int fails = 0;
template<int N> void round(int nthreads) {
  pthread_barrier_t bar; pthread_barrier_init(&bar, nullptr, nthreads);
  std::vector<Foo<N>*> got(nthreads, nullptr); std::vector<int> threw(nthreads, 0);
  std::vector<std::thread> th;
  for (int i = 0; i < nthreads; ++i) th.emplace_back([&, i]{ pthread_barrier_wait(&bar);
     try { got[i] = &Foo<N>::instance(i, (i % 2) == 0); } catch (const std::runtime_error&) { threw[i] = 1; } });
  for (auto& t: th) t.join();
  Foo<N>* first = nullptr; int nthrew = 0;
  for (int i = 0; i < nthreads; ++i) { if (threw[i]) { ++nthrew; continue; } if (!first) first = got[i]; if (got[i] != first) { ++fails; printf("different object\n"); } }
  if (Foo<N>::cnt != 1 || Foo<N>::live != 1) { ++fails; printf("N=%d cnt=%d live=%d\n", N, (int)Foo<N>::cnt, (int)Foo<N>::live); }
  if (first && (first->v % 2) == 0) { ++fails; printf("object from throwing ctor\n"); }
  Foo<N>::reset(); if (Foo<N>::live != 0) { ++fails; printf("live after reset\n"); }
  Foo<N>::cnt = 0;
  pthread_barrier_destroy(&bar);
}
int main() {
  for (int r = 0; r < 300; ++r) for (int n = 2; n <= 16; n += 7) { round<1>(n); round<2>(n); round<3>(n); }
  // many types at once
  { std::vector<std::thread> th; for (int i = 0; i < 8; ++i) th.emplace_back([i]{ for (int k = 0; k < 100; ++k) { Foo<10>::instance(1,false); Foo<11>::instance(1,false); Foo<12>::instance(1,false); Foo<13>::instance(1,false);} });
    for (auto& t: th) t.join();
    if (Foo<10>::cnt != 1 || Foo<11>::cnt != 1 || Foo<12>::cnt != 1 || Foo<13>::cnt != 1) { ++fails; printf("many types\n"); } }
  printf(fails ? "FAIL %d\n" : "ok %d\n", fails); return fails != 0;
}
