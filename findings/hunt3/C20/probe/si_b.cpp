#include "si.hpp"
#include <cstdio>
#include <mutex>
#include <set>
#include <unistd.h>
std::atomic<int> Bar::cnt{0}, Bar::dcnt{0};
Bar::Bar() { ++cnt; usleep(2000); }
Bar::~Bar() { ++dcnt; }
static std::mutex* m; static std::set<Bar*>* s;
void seen_add(Bar* b) { static std::once_flag o; std::call_once(o, []{ m = new std::mutex; s = new std::set<Bar*>; }); std::lock_guard<std::mutex> l(*m); s->insert(b); }
struct AtEnd { ~AtEnd() { printf("at end: ctor %d dtor %d\n", (int)Bar::cnt, (int)Bar::dcnt); } } atEnd;
int main() { join_starter(); seen_add(&Bar::instance()); printf("objects seen %zu, ctor calls %d\n", s->size(), (int)Bar::cnt); return (s->size() == 1 && Bar::cnt == 1) ? 0 : 1; }
