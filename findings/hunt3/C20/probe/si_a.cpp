#include "si.hpp"
#include <thread>
#include <vector>
// static initialiser that starts threads which race for the first access, before main()
struct Starter { std::vector<std::thread> th; Starter() { for (int i = 0; i < 8; ++i) th.emplace_back([]{ seen_add(&Bar::instance()); }); seen_add(&Bar::instance()); }
  void joinAll() { for (auto& t: th) t.join(); th.clear(); } ~Starter() { joinAll(); } };
Starter starter;
void join_starter() { starter.joinAll(); }
