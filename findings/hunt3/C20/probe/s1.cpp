#include "celma/common/singleton.hpp"
#include <cstdio>
struct Foo: public celma::common::Singleton<Foo> { friend class celma::common::Singleton<Foo>; int v; static int cnt; protected: Foo(): v(1) { ++cnt; } };
int Foo::cnt = 0;
int main() { Foo::instance(); printf("%d\n", Foo::cnt); }
